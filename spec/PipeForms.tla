------------------------------ MODULE PipeForms ------------------------------
(***************************************************************************)
(* C04: "the reflective Pipe / PipeOp versus the typed PipeN / PipeOpN     *)
(* compositions are observationally identical, and a chain behaves as the  *)
(* composition of its parts".  Every arity N = 1..25 is its own piece of   *)
(* code (operatorN( ... operator1(source))); the operators used here do    *)
(* not commute - operator i maps v to 2 * v + i - so an operator that is   *)
(* skipped, applied twice or applied in the wrong position changes the     *)
(* result.  A case is (form, n); the expectation is the fold.              *)
(***************************************************************************)
EXTENDS Integers, Sequences, TLC, Json

\* "Pipe" / "PipeOp": the reflective forms over a chain whose element type changes on the way (int -> string -> int ...);
\* "PipeHomogeneous": the reflective form over operators of one type
Forms == {"PipeN", "PipeOpN", "Pipe", "PipeOp", "PipeHomogeneous"}
MaxN == 25
Inputs == <<1, 2, 0>>

RECURSIVE Through(_, _, _)
Through(v, i, n) == IF i > n THEN v ELSE Through(2 * v + i, i + 1, n)     \* operators 1..n applied in order

VARIABLES form, n
vars == <<form, n>>
Init == form \in Forms /\ n \in 1..MaxN
Next == UNCHANGED vars
Spec == Init /\ [][Next]_vars

Expected == [j \in 1..Len(Inputs) |-> Through(Inputs[j], 1, n)]
\* the composition law itself: a chain of n operators is a chain of n - 1 operators followed by operator n
Composition == \A j \in 1..Len(Inputs) : n > 1 => Through(Inputs[j], 1, n) = 2 * Through(Inputs[j], 1, n - 1) + n
EmitCase == PrintT(ToJson([form |-> form, n |-> n, inputs |-> Inputs, exp |-> Expected]))
=============================================================================
