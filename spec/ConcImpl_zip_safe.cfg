SPECIFICATION Spec
CONSTANTS
 Op = "Zip"
 NVals = 2
 Completes = {1, 2}
 Atomic = FALSE
INVARIANTS OnlySent ZipAligned
CHECK_DEADLOCK FALSE
