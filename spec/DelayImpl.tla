------------------------------ MODULE DelayImpl ------------------------------
(***************************************************************************)
(* Level 2 - Delay (operator_utility.go): notifications are appended to a  *)
(* queue under the spinlock muQueue and a timer is armed per notification  *)
(* (time.AfterFunc(d, consume)); timer callbacks run on their own          *)
(* goroutines IN ANY ORDER once due; consume pops the HEAD of the queue    *)
(* under muQueue, takes muNext BEFORE releasing muQueue (hand over hand)   *)
(* and delivers under muNext.                                              *)
(* Checked: delivery is FIFO and never early (item j is delivered at a     *)
(* time >= its own due time) although the j-th callback to run is not      *)
(* necessarily the callback of the j-th timer.                             *)
(***************************************************************************)
EXTENDS Integers, Sequences, FiniteSets, TLC

CONSTANTS N,      \* notifications
          D,      \* the delay, in ticks
          MaxT    \* time horizon

VARIABLES now, nextEmit, queue, due, pc, popped, muQ, muN, delivered, dtime

vars == <<now, nextEmit, queue, due, pc, popped, muQ, muN, delivered, dtime>>
Items == 1..N

Init == /\ now = 0 /\ nextEmit = 1 /\ queue = <<>> /\ due = [i \in Items |-> -1]
        /\ pc = [i \in Items |-> "unarmed"] /\ popped = [i \in Items |-> 0]
        /\ muQ = 0 /\ muN = 0 /\ delivered = <<>> /\ dtime = [i \in Items |-> -1]

Tick == /\ now < MaxT /\ now' = now + 1
        /\ UNCHANGED <<nextEmit, queue, due, pc, popped, muQ, muN, delivered, dtime>>

\* the source emits notification nextEmit: append under muQueue, arm its timer
Emit == /\ nextEmit <= N /\ muQ = 0
        /\ queue' = Append(queue, nextEmit) /\ due' = [due EXCEPT ![nextEmit] = now + D]
        /\ pc' = [pc EXCEPT ![nextEmit] = "armed"] /\ nextEmit' = nextEmit + 1
        /\ UNCHANGED <<now, popped, muQ, muN, delivered, dtime>>

\* the callback of timer i starts once it is due: lock muQueue, pop the head
CbPop(i) == /\ pc[i] = "armed" /\ now >= due[i] /\ muQ = 0 /\ queue # <<>>
            /\ muQ' = i /\ popped' = [popped EXCEPT ![i] = Head(queue)] /\ queue' = Tail(queue)
            /\ pc' = [pc EXCEPT ![i] = "popped"]
            /\ UNCHANGED <<now, nextEmit, due, muN, delivered, dtime>>
\* take muNext, THEN release muQueue
CbHand(i) == /\ pc[i] = "popped" /\ muN = 0 /\ muN' = i /\ muQ' = 0 /\ pc' = [pc EXCEPT ![i] = "deliver"]
             /\ UNCHANGED <<now, nextEmit, queue, due, popped, delivered, dtime>>
CbDeliver(i) == /\ pc[i] = "deliver"
                /\ delivered' = Append(delivered, popped[i]) /\ dtime' = [dtime EXCEPT ![popped[i]] = now]
                /\ muN' = 0 /\ pc' = [pc EXCEPT ![i] = "done"]
                /\ UNCHANGED <<now, nextEmit, queue, due, popped, muQ>>

Next == Tick \/ Emit \/ \E i \in Items : CbPop(i) \/ CbHand(i) \/ CbDeliver(i)
Spec == Init /\ [][Next]_vars

FIFO == \A j \in 1..Len(delivered) : delivered[j] = j
NeverEarly == \A i \in Items : dtime[i] # -1 => dtime[i] >= due[i]
=============================================================================
