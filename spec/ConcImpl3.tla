----------------------------- MODULE ConcImpl3 -----------------------------
(***************************************************************************)
(* Level 2, continued (see ConcImpl.tla, ConcImpl2.tla) - the three        *)
(* remaining two-input operators whose second input only steers a flag,    *)
(* at the grain of the code, under two concurrent sequential producers     *)
(* (operator_transformations.go SampleWhen / ThrottleWhen,                 *)
(* operator_filter.go SkipUntil):                                          *)
(*                                                                         *)
(*   SampleWhen    source value : store `last`, set `hasValue` (spinlock)  *)
(*                 tick         : under the lock: if hasValue, clear it    *)
(*                                and copy `last`; Emit the copy AFTER the *)
(*                                unlock (deferred call)                   *)
(*   ThrottleWhen  tick         : atomic store send := 1                   *)
(*                 source value : CAS(send, 1, 0); on success Emit         *)
(*   SkipUntil     signal value : atomic store ready := 1                  *)
(*                 source value : atomic load; Emit when 1                 *)
(*   terminals     forwarded to the (serialized) destination as they come; *)
(*                 SkipUntil ignores both terminals of the signal          *)
(*                                                                         *)
(* Unlike the four operators of ConcImpl / ConcImpl2, these three DO meet  *)
(* the concurrent clause of C05 although they, too, emit outside their     *)
(* critical section: the only thing another producer can do between the    *)
(* decision and the emission is overwrite a value that was already copied, *)
(* raise a flag that is idempotent, or end the stream - and each of these  *)
(* is explained by moving the other producer's arrival before or after.    *)
(* Explained = at quiescence the output is the definition's output         *)
(* (MultiDef.tla) for SOME arrival order; TLC proves it for every ending   *)
(* of both inputs (ConcImpl3_*.cfg).  This is why MultiLin.tla never       *)
(* rejects a recorded run of these operators on the unchanged tree.        *)
(*                                                                         *)
(* Control (the specification can tell the difference):                    *)
(* Variant = "clearlate" is the refactor "clear hasValue after the         *)
(* emission instead of under the lock" (seeded change C05-A): TLC finds    *)
(* the sample that no arrival order explains - a value stored between      *)
(* copy and clear is never sampled (ConcImpl3_samplewhen_clearlate.cfg,    *)
(* expected violation).                                                    *)
(***************************************************************************)
EXTENDS Integers, Sequences, FiniteSets, TLC

CONSTANTS Op,        \* "SampleWhen" | "ThrottleWhen" | "SkipUntil"
          NVals,     \* the source emits 11 .. 10 + NVals, then its terminal
          NTicks,    \* value notifications of the second observable, then its terminal (if any)
          SrcEnds,   \* subset of {"C", "E"}: endings of the source explored
          TickEnds,  \* subset of {"C", "E", "none"}
          Variant    \* "code" | "clearlate"

E == -1
C == -2
Val(i) == 10 + i
Term(k) == IF k = "E" THEN E ELSE C

VARIABLES pc, idx, flag, last, tmp, out, done, srcEnd, tickEnd, rt
\* pc[s] / idx[s]: producer s (1 = source, 2 = tick / signal) inside its call / its next notification; flag: hasValue / send / ready;
\* rt[s][i]: how many calls of the OTHER producer had returned when the i-th call of s was invoked (real-time order, history variable);
\* last: SampleWhen's stored value; tmp: the copy taken under the lock, not yet emitted; out: the observer's log; done: the stream ended
vars == <<pc, idx, flag, last, tmp, out, done, srcEnd, tickEnd, rt>>
S == {1, 2}

Init == /\ pc = [s \in S |-> "idle"] /\ idx = [s \in S |-> 1] /\ flag = FALSE /\ last = 0 /\ tmp = 0
        /\ out = <<>> /\ done = FALSE /\ srcEnd \in SrcEnds /\ tickEnd \in TickEnds /\ rt = [s \in S |-> <<>>]

Emit(x) == IF done THEN out ELSE Append(out, x)
NV(s) == IF s = 1 THEN NVals ELSE NTicks
End(s) == IF s = 1 THEN srcEnd ELSE tickEnd
Last(s) == IF End(s) = "none" THEN NV(s) ELSE NV(s) + 1
Step(s) == idx' = [idx EXCEPT ![s] = @ + 1]
Ends == UNCHANGED <<srcEnd, tickEnd>>
Inv(s) == rt' = [rt EXCEPT ![s] = Append(@, idx[3 - s] - 1)] /\ Ends     \* first step of a call (every step taken from pc = "idle")
Cont == UNCHANGED rt /\ Ends                                            \* a later step of the same call

(* ------------------------------ terminals (all three) ------------------------------ *)
Terminal(s) ==
  /\ pc[s] = "idle" /\ End(s) # "none" /\ idx[s] = NV(s) + 1
  /\ IF Op = "SkipUntil" /\ s = 2 THEN UNCHANGED <<out, done>>            \* OnNext-only observer: the signal's terminals are ignored
     ELSE out' = Emit(Term(End(s))) /\ done' = TRUE
  /\ Step(s) /\ UNCHANGED <<pc, flag, last, tmp>> /\ Inv(s)

(* --------------------------------- SampleWhen --------------------------------- *)
SWValue == /\ Op = "SampleWhen" /\ pc[1] = "idle" /\ idx[1] <= NVals
           /\ last' = Val(idx[1]) /\ flag' = TRUE /\ Step(1) /\ UNCHANGED <<pc, tmp, out, done>> /\ Inv(1)
SWTick ==  \* the critical section of the tick handler
  /\ Op = "SampleWhen" /\ pc[2] = "idle" /\ idx[2] <= NTicks
  /\ IF flag THEN /\ tmp' = last /\ pc' = [pc EXCEPT ![2] = "emit"]
                  /\ flag' = (IF Variant = "clearlate" THEN flag ELSE FALSE) /\ UNCHANGED idx
             ELSE Step(2) /\ UNCHANGED <<pc, tmp, flag>>
  /\ UNCHANGED <<last, out, done>> /\ Inv(2)
SWEmit ==  \* the deferred emission, after the unlock
  /\ Op = "SampleWhen" /\ pc[2] = "emit"
  /\ out' = Emit(tmp) /\ pc' = [pc EXCEPT ![2] = "idle"] /\ Step(2)
  /\ flag' = (IF Variant = "clearlate" THEN FALSE ELSE flag)
  /\ UNCHANGED <<last, tmp, done>> /\ Cont

(* -------------------------------- ThrottleWhen -------------------------------- *)
TWTick == /\ Op = "ThrottleWhen" /\ pc[2] = "idle" /\ idx[2] <= NTicks
          /\ flag' = TRUE /\ Step(2) /\ UNCHANGED <<pc, last, tmp, out, done>> /\ Inv(2)
TWValue == \* compare-and-swap
  /\ Op = "ThrottleWhen" /\ pc[1] = "idle" /\ idx[1] <= NVals
  /\ IF flag THEN flag' = FALSE /\ pc' = [pc EXCEPT ![1] = "emit"] /\ UNCHANGED idx
             ELSE Step(1) /\ UNCHANGED <<flag, pc>>
  /\ UNCHANGED <<last, tmp, out, done>> /\ Inv(1)

(* ---------------------------------- SkipUntil --------------------------------- *)
SUSignal == /\ Op = "SkipUntil" /\ pc[2] = "idle" /\ idx[2] <= NTicks
            /\ flag' = TRUE /\ Step(2) /\ UNCHANGED <<pc, last, tmp, out, done>> /\ Inv(2)
SUValue == /\ Op = "SkipUntil" /\ pc[1] = "idle" /\ idx[1] <= NVals
           /\ IF flag THEN pc' = [pc EXCEPT ![1] = "emit"] /\ UNCHANGED idx ELSE Step(1) /\ UNCHANGED pc
           /\ UNCHANGED <<flag, last, tmp, out, done>> /\ Inv(1)

SrcEmit == \* ThrottleWhen / SkipUntil: the source's value goes out after the decision
  /\ Op \in {"ThrottleWhen", "SkipUntil"} /\ pc[1] = "emit"
  /\ out' = Emit(Val(idx[1])) /\ pc' = [pc EXCEPT ![1] = "idle"] /\ Step(1) /\ UNCHANGED <<flag, last, tmp, done>> /\ Cont

Next == SWValue \/ SWTick \/ SWEmit \/ TWTick \/ TWValue \/ SUSignal \/ SUValue \/ SrcEmit \/ \E s \in S : Terminal(s)
Spec == Init /\ [][Next]_vars

(* --------------------------------- definition --------------------------------- *)
\* calls: <<source, kind, value>>; MultiDef.tla's step function restricted to these scripts, folded over an arrival order
Calls(s) == [i \in 1..NV(s) |-> <<s, "N", IF s = 1 THEN Val(i) ELSE 0>>] \o (IF End(s) = "none" THEN <<>> ELSE <<<<s, End(s), 0>>>>)
RECURSIVE Def(_, _, _, _, _)
Def(calls, f, l, acc, fin) ==      \* f: the flag, l: SampleWhen's stored value
  IF calls = <<>> \/ fin THEN acc
  ELSE LET c == Head(calls)  r == Tail(calls) IN
       IF c[2] # "N" THEN (IF Op = "SkipUntil" /\ c[1] = 2 THEN Def(r, f, l, acc, FALSE) ELSE Def(r, f, l, Append(acc, Term(c[2])), TRUE))
       ELSE CASE Op = "SampleWhen"   -> IF c[1] = 1 THEN Def(r, TRUE, c[3], acc, FALSE)
                                        ELSE IF f THEN Def(r, FALSE, l, Append(acc, l), FALSE) ELSE Def(r, f, l, acc, FALSE)
              [] Op = "ThrottleWhen" -> IF c[1] = 2 THEN Def(r, TRUE, l, acc, FALSE)
                                        ELSE IF f THEN Def(r, FALSE, l, Append(acc, c[3]), FALSE) ELSE Def(r, f, l, acc, FALSE)
              [] OTHER               -> IF c[1] = 2 THEN Def(r, TRUE, l, acc, FALSE)
                                        ELSE IF f THEN Def(r, f, l, Append(acc, c[3]), FALSE) ELSE Def(r, f, l, acc, FALSE)
RECURSIVE Merges(_, _)
Merges(a, b) == IF a = <<>> THEN {b} ELSE IF b = <<>> THEN {a}
                ELSE {<<Head(a)>> \o m : m \in Merges(Tail(a), b)} \cup {<<Head(b)>> \o m : m \in Merges(a, Tail(b))}

\* an arrival order respects real time: a call that had returned before another one was invoked arrives before it
RECURSIVE Adm(_, _)
Adm(o, n) == IF o = <<>> THEN TRUE
             ELSE LET s == Head(o)[1] IN n[3 - s] >= rt[s][n[s] + 1] /\ Adm(Tail(o), [n EXCEPT ![s] = @ + 1])

Quiet == \A s \in S : pc[s] = "idle" /\ idx[s] > Last(s)
Explained == Quiet => \E o \in Merges(Calls(1), Calls(2)) : Adm(o, [s \in S |-> 0]) /\ Def(o, FALSE, 0, <<>>, FALSE) = out

\* safety that holds at every state, in every variant: only values the source sent, in the source's order, nothing after the terminal
Sent == {Val(i) : i \in 1..NVals}
NoInvention == \A j \in 1..Len(out) : /\ out[j] \in Sent \cup {E, C}
                                     /\ (out[j] \in {E, C} => j = Len(out))
InOrder == \A j, k \in 1..Len(out) : (j < k /\ out[j] > 0 /\ out[k] > 0) => out[j] <= out[k]
\* SampleWhen / ThrottleWhen emit a value at most once; at most one value per tick
AtMostOnce == Op # "SkipUntil" => /\ \A j, k \in 1..Len(out) : (j # k /\ out[j] > 0) => out[j] # out[k]
                                  /\ Cardinality({j \in 1..Len(out) : out[j] > 0}) <= NTicks
=============================================================================
