----------------------------- MODULE TimedTrace -----------------------------
(***************************************************************************)
(* C16 - time-driven operators: recorded timelines of the real operators   *)
(* (harness: roverif drive-timed) validated against discrete definitions.  *)
(* Every event carries u = monotonic microseconds since the start of the   *)
(* trace.  Only LOWER bounds on time and order / count relations are       *)
(* asserted (machine load can only make the real run later), using         *)
(* timestamps taken BEFORE the harness acts (sub, emit) and INSIDE the     *)
(* observer (recv).                                                        *)
(*   hdr   s = operator, v = duration d (us), i = second parameter         *)
(*   sub   the harness is about to subscribe                               *)
(*   emit  the harness is about to emit notification number i (k, v)       *)
(*   recv  the observer receives (k, v); for buffers i = length, v = first *)
(*   cancel the subscription context is cancelled                          *)
(*   unsubB / unsubE / end                                                 *)
(***************************************************************************)
EXTENDS Integers, Sequences, FiniteSets, TLC, Json

Trace == ndJsonDeserialize("trace.ndjson")
Starts == {i \in 1..Len(Trace) : Trace[i].e = "hdr"}

VARIABLES l, op, d, p2, tsub, emits, nrecv, lastIdx, srcTerm, outTerm, unsE, consumed, rus, inEmit, post, cancelAt, postCancel
vars == <<l, op, d, p2, tsub, emits, nrecv, lastIdx, srcTerm, outTerm, unsE, consumed, rus, inEmit, post, cancelAt, postCancel>>
Ev == Trace[l]
Is(e) == l <= Len(Trace) /\ Ev.e = e

Init == \E i \in Starts : /\ l = i + 1 /\ op = Trace[i].s /\ d = Trace[i].v /\ p2 = Trace[i].i
          /\ tsub = 0 /\ emits = <<>> /\ nrecv = 0 /\ lastIdx = 0 /\ srcTerm = FALSE /\ outTerm = FALSE /\ unsE = FALSE /\ consumed = 0 /\ rus = <<>> /\ inEmit = "no" /\ post = 0 /\ cancelAt = -1 /\ postCancel = 0

TimeoutCause == 9
LastActivity == IF emits = <<>> THEN tsub ELSE emits[Len(emits)].u
\* index of the emitted VALUE v (values are distinct: 1, 2, 3, ...)
IdxOf(v) == CHOOSE j \in 1..Len(emits) : emits[j].k = "N" /\ emits[j].v = v
Emitted(v) == \E j \in 1..Len(emits) : emits[j].k = "N" /\ emits[j].v = v
NVals == Cardinality({j \in 1..Len(emits) : emits[j].k = "N"})

RecvOK ==
  CASE op = "delay" ->
         \* FIFO, nothing lost, and never sooner than its delay after it was emitted (terminals included)
         /\ nrecv + 1 <= Len(emits) /\ emits[nrecv + 1].k = Ev.k /\ emits[nrecv + 1].v = Ev.v
         /\ Ev.u >= emits[nrecv + 1].u + d
    [] op = "delayeach" ->
         /\ nrecv + 1 <= Len(emits) /\ emits[nrecv + 1].k = Ev.k /\ emits[nrecv + 1].v = Ev.v
         /\ (Ev.k = "N" => Ev.u >= emits[nrecv + 1].u + d)
    [] op = "ctxtimeout" ->
         \* ContextWithTimeout(d) passes everything through; the context it gives value v expires d after v passed, so a value that
         \* arrives with an EXPIRED context (i = 1) arrives at least d after it was emitted - however long ago the pipeline was built (C12)
         /\ nrecv + 1 <= Len(emits) /\ emits[nrecv + 1].k = Ev.k /\ emits[nrecv + 1].v = Ev.v
         /\ (Ev.k = "N" /\ Ev.i = 1) => Ev.u >= emits[nrecv + 1].u + d
    [] op = "timeout" ->
         IF Ev.k = "E" /\ Ev.v = TimeoutCause
           THEN /\ ~srcTerm                                     \* never once the source has terminated
                \* only after a full quiet period: the timer armed at activity j (subscription, or value j) must have fired before the
                \* operator stopped it for the next value, i.e. before that value reached the observer (rus = receive times of the values)
                /\ \E j \in 0..NVals :
                      LET from == IF j = 0 THEN tsub ELSE emits[j].u
                          to == IF j < Len(rus) THEN rus[j + 1] ELSE Ev.u
                      IN to - from >= d
           ELSE nrecv + 1 <= Len(emits) /\ emits[nrecv + 1].k = Ev.k /\ emits[nrecv + 1].v = Ev.v
    [] op \in {"interval", "samplesource"} ->
         Ev.k = "N" => (Ev.v = nrecv /\ Ev.u >= tsub + (Ev.v + 1) * d)    \* 0, 1, 2, ...; value k never before k+1 periods
    [] op = "intervalinitial" ->
         Ev.k = "N" => (Ev.v = nrecv /\ Ev.u >= tsub + p2 + Ev.v * d)
    [] op = "timer" ->
         IF Ev.k = "N" THEN nrecv = 0 /\ Ev.u >= tsub + d ELSE Ev.k = "C" /\ nrecv = 1
    [] op = "countedinterval" ->
         \* RangeWithInterval / RepeatWithInterval / RangeWithStepAndInterval (values decoded to their index by the harness, p2 = the count):
         \* the values of the definition in order, value k never before k+1 periods, Complete after exactly p2 values (or when the
         \* subscription context is cancelled: Interval completes then)
         IF Ev.k = "N" THEN Ev.v = nrecv /\ nrecv < p2 /\ Ev.u >= tsub + (Ev.v + 1) * d ELSE Ev.k = "C" /\ (nrecv = p2 \/ cancelAt >= 0)
    [] op = "throttle" ->
         Ev.k = "N" => /\ Emitted(Ev.v) /\ IdxOf(Ev.v) > lastIdx                     \* a source value, in source order
                       /\ (lastIdx > 0 => Ev.u >= emits[lastIdx].u + d)             \* at most one value per window
    [] op = "sample" ->
         Ev.k = "N" => /\ Emitted(Ev.v) /\ IdxOf(Ev.v) > lastIdx
                       /\ nrecv + 1 <= ((Ev.u - tsub) \div d) + 1                   \* at most one value per tick
    [] op \in {"buffertime", "buffertimecount"} ->
         Ev.k = "N" => /\ consumed + Ev.i <= NVals                                   \* only values the source emitted, in order
                       /\ (Ev.i > 0 => Ev.v = consumed + 1)
                       /\ (op = "buffertimecount" => Ev.i <= p2)
    [] OTHER -> FALSE

Step ==
  \/ /\ Is("sub") /\ tsub' = Ev.u /\ UNCHANGED <<emits, nrecv, lastIdx, srcTerm, outTerm, unsE, consumed, rus, inEmit, post, cancelAt, postCancel>>
  \/ /\ Is("emit") /\ emits' = Append(emits, [k |-> Ev.k, v |-> Ev.v, u |-> Ev.u])
     /\ inEmit' = IF unsE THEN "after" ELSE "before"
     /\ UNCHANGED <<tsub, nrecv, lastIdx, srcTerm, outTerm, unsE, consumed, rus, post, cancelAt, postCancel>>
  \* the source HAS terminated once its terminal call has returned: while that call is in flight a timer that fired just before it may still win
  \* the destination (the source's terminal is then dropped) - "never once the source has terminated" is judged against returned calls
  \/ /\ Is("emitE") /\ inEmit' = "no" /\ srcTerm' = (srcTerm \/ (emits # <<>> /\ emits[Len(emits)].k # "N"))
     /\ UNCHANGED <<tsub, emits, nrecv, lastIdx, outTerm, unsE, consumed, rus, post, cancelAt, postCancel>>
  \/ /\ Is("recv")
     /\ ~outTerm                               \* grammar
     \* silence after unsubscription: only a notification whose emission began before Unsubscribe returned may still arrive
     \* (inEmit = "before": the harness's emit call in flight started before unsubE; operators that deliver from a goroutine or timer of their own -
     \* Timeout's time.AfterFunc included -: one notification in flight)
     /\ unsE => (inEmit = "before" \/ (op \in {"interval", "intervalinitial", "timer", "samplesource", "countedinterval", "sample", "buffertime", "buffertimecount", "delay", "timeout"} /\ post = 0))
     /\ post' = IF unsE THEN post + 1 ELSE post
     /\ RecvOK
     /\ nrecv' = nrecv + 1
     /\ lastIdx' = IF op \in {"throttle", "sample"} /\ Ev.k = "N" THEN IdxOf(Ev.v) ELSE lastIdx
     /\ consumed' = IF op \in {"buffertime", "buffertimecount"} /\ Ev.k = "N" THEN consumed + Ev.i ELSE consumed
     /\ outTerm' = (Ev.k # "N")
     /\ rus' = IF Ev.k = "N" THEN Append(rus, Ev.u) ELSE rus
     \* a time buffer that completes has handed over everything the source emitted
     /\ (op \in {"buffertime", "buffertimecount"} /\ Ev.k = "C") => consumed = NVals
     \* the periodic sources fall silent once the subscription context is cancelled: a tick may have been in flight (two, to be safe against a starved
     \* goroutine whose select finds both the tick and the cancellation ready), a third value a whole period after the cancellation was not
     /\ (cancelAt >= 0 /\ op \in {"interval", "intervalinitial", "countedinterval"} /\ Ev.k = "N") => (postCancel <= 1 \/ Ev.u < cancelAt + d)
     /\ postCancel' = IF cancelAt >= 0 /\ Ev.k = "N" THEN postCancel + 1 ELSE postCancel
     /\ UNCHANGED <<tsub, emits, srcTerm, unsE, inEmit, cancelAt>>
  \* the subscription context is cancelled: no clause is relaxed by it (a delayed value still waits for its delay)
  \/ /\ Is("cancel") /\ cancelAt' = Ev.u /\ UNCHANGED <<tsub, emits, nrecv, lastIdx, srcTerm, outTerm, unsE, consumed, rus, inEmit, post, postCancel>>
  \/ /\ Is("unsubB") /\ UNCHANGED <<tsub, emits, nrecv, lastIdx, srcTerm, outTerm, unsE, consumed, rus, inEmit, post, cancelAt, postCancel>>
  \/ /\ Is("unsubE") /\ unsE' = TRUE /\ UNCHANGED <<tsub, emits, nrecv, lastIdx, srcTerm, outTerm, consumed, rus, inEmit, post, cancelAt, postCancel>>
  \/ /\ Is("end")
     \* Delay hands over everything unless it was unsubscribed; a terminated source terminates the output of the pass-through time operators
     /\ (op \in {"delay", "delayeach"} /\ ~unsE) => nrecv = Len(emits)
     /\ PrintT(<<"ACCEPT", Ev.t>>)
     /\ UNCHANGED <<tsub, emits, nrecv, lastIdx, srcTerm, outTerm, unsE, consumed, rus, inEmit, post, cancelAt, postCancel>>

Next == Step /\ l' = l + 1 /\ UNCHANGED <<op, d, p2>>
Spec == Init /\ [][Next]_vars
=============================================================================
