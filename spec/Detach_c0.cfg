SPECIFICATION Spec
CONSTANTS Cap = 0
 Len0 = 4
 WithUnsub = FALSE
INVARIANTS FIFO TerminalLast RunAhead CloseOnce NoLoss NoSendOnClosed
