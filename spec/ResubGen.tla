------------------------------ MODULE ResubGen ------------------------------
(* Generator configurations of Resub.tla (direction A, C15). *)
EXTENDS Integers, Sequences, FiniteSets, TLC
CONSTANTS MaxAttempts, MaxVals
Op(op, g, m, r) == [op |-> op, g |-> g, m |-> m, r |-> r]
OpSet ==
  {Op("Retry", "Retry", 0, FALSE)}
  \cup {Op("Retry", "RetryWithConfig", m, r) : m \in 0..2, r \in BOOLEAN}
  \cup {Op("Retry", "RetryWithConfigDelay", m, r) : m \in 1..2, r \in BOOLEAN}      \* RetryConfig.Delay = 3 ms: same outcome, each retry no sooner than the delay after the failure
  \cup {Op("RepeatWith", "RepeatWith", m, FALSE) : m \in 0..3}
  \cup {Op("DoWhile", g, 0, FALSE) : g \in {"DoWhile", "DoWhileI", "DoWhileWithContext", "DoWhileIWithContext"}}
  \cup {Op("While", g, 0, FALSE) : g \in {"While", "WhileI", "WhileWithContext", "WhileIWithContext"}}
  \cup {Op("Catch", "Catch", 0, FALSE)}
  \cup {Op("OnErrorResumeNext", "OnErrorResumeNextWith", m, FALSE) : m \in 2..3}
  \cup {Op("Concat", g, m, FALSE) : g \in {"Concat", "ConcatWith"}, m \in 1..3}
  \cup {Op("Concat", "SubscribeOn", 1, FALSE)}      \* subscribes its one source from a goroutine and waits for it: the outcomes pass through
VARIABLES o, outs, conds, cancelAt, a, retries, out, nsubs, live, state
R == INSTANCE Resub WITH Ops <- OpSet
Spec == R!Spec
AtMostOneLiveAttempt == R!AtMostOneLiveAttempt
AttemptsInOrder == R!AttemptsInOrder
Grammar == R!Grammar
Bounded == R!Bounded
EmitCase == R!EmitCase
=============================================================================
