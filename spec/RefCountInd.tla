---------------------------- MODULE RefCountInd ----------------------------
(***************************************************************************)
(* The design argument of the Share repair (fix 75994e7), stripped of the  *)
(* interleaving detail that ShareImpl.tla explores: every execution        *)
(* (generation) of a shared observable owns its reference counter.  An     *)
(* INDUCTIVE invariant, checked by Apalache for EVERY state that satisfies *)
(* it (not only the reachable ones, and for runs of any length):           *)
(*   the counter of a generation is the number of its subscribers that     *)
(*   have not left yet; a generation whose source is still subscribed has  *)
(*   a positive counter and is the current one                             *)
(* from which the two C11 clauses follow as plain state predicates:        *)
(*   OneLive   at most one generation holds the source                     *)
(*   Released  when every subscriber has left, nobody holds the source     *)
(* apalache-mc check --init=IndInit --inv=IndInv --length=1 (induction     *)
(* step), --init=Init --inv=IndInv --length=0 (base),                      *)
(* --init=IndInit --inv=Safety --length=0 (the invariant implies safety).  *)
(***************************************************************************)
EXTENDS Integers, FiniteSets

CONSTANTS
  \* @type: Int;
  MaxO,
  \* @type: Int;
  MaxG

VARIABLES
  \* @type: Int;
  cur,          \* the current generation (0 = none)
  \* @type: Set(Int);
  gens,         \* generations created so far
  \* @type: Int -> Int;
  rc,           \* reference counter of every generation
  \* @type: Int -> Int;
  genOf,        \* the generation every subscriber joined
  \* @type: Set(Int);
  left,         \* subscribers that have given their reference back
  \* @type: Set(Int);
  live          \* generations whose subscription to the source is alive

CInit == MaxO = 4 /\ MaxG = 3

Obs == 1..MaxO
Gens == 1..MaxG

Init == /\ cur = 0 /\ gens = {} /\ rc = [g \in {} |-> 0] /\ genOf = [o \in {} |-> 0] /\ left = {} /\ live = {}

\* a subscriber joins the current generation, or opens a new one (the source is subscribed for it)
Join(o) ==
  /\ o \notin DOMAIN genOf
  /\ IF cur = 0
       THEN \E g \in Gens \ gens :
              /\ cur' = g /\ gens' = gens \cup {g} /\ live' = live \cup {g}
              /\ rc' = [x \in gens \cup {g} |-> IF x = g THEN 1 ELSE rc[x]]
              /\ genOf' = [x \in DOMAIN genOf \cup {o} |-> IF x = o THEN g ELSE genOf[x]]
       ELSE /\ rc' = [rc EXCEPT ![cur] = @ + 1]
            /\ genOf' = [x \in DOMAIN genOf \cup {o} |-> IF x = o THEN cur ELSE genOf[x]]
            /\ UNCHANGED <<cur, gens, live>>
  /\ UNCHANGED left

\* a subscriber leaves (unsubscribes or has been terminated): the reference goes back to ITS generation; at zero that generation is reset
Leave(o) ==
  /\ o \in DOMAIN genOf /\ o \notin left
  /\ LET g == genOf[o] IN
       /\ rc' = [rc EXCEPT ![g] = @ - 1]
       /\ left' = left \cup {o}
       /\ IF rc[g] = 1 THEN live' = live \ {g} /\ cur' = (IF cur = g THEN 0 ELSE cur)
                       ELSE UNCHANGED <<live, cur>>
  /\ UNCHANGED <<gens, genOf>>

\* the source of a generation terminates: with a reset the generation stops being the current one
SrcEnd(g, reset) ==
  /\ g \in live /\ live' = live \ {g}
  /\ cur' = (IF reset /\ cur = g THEN 0 ELSE cur)
  /\ UNCHANGED <<gens, rc, genOf, left>>

Next == \/ \E o \in Obs : Join(o) \/ Leave(o)
        \/ \E g \in Gens : SrcEnd(g, TRUE) \/ SrcEnd(g, FALSE)

\* the former code (one counter for all generations) seen through this abstraction: a reference taken on a generation that has been
\* reset meanwhile is given back to the counter of the CURRENT generation - the induction step is expected to FAIL for NextFormer
StaleLeave(o) ==
  /\ o \in DOMAIN genOf /\ o \notin left
  /\ LET g == IF cur # 0 THEN cur ELSE genOf[o] IN
       /\ rc' = [rc EXCEPT ![g] = @ - 1]
       /\ left' = left \cup {o}
       /\ IF rc[g] = 1 THEN live' = live \ {genOf[o]} /\ cur' = (IF cur = genOf[o] THEN 0 ELSE cur)
                       ELSE UNCHANGED <<live, cur>>
  /\ UNCHANGED <<gens, genOf>>
NextFormer == \/ \E o \in Obs : Join(o) \/ StaleLeave(o)
              \/ \E g \in Gens : SrcEnd(g, TRUE) \/ SrcEnd(g, FALSE)

Members(g) == {o \in DOMAIN genOf : genOf[o] = g /\ o \notin left}

TypeOK == /\ cur \in Gens \cup {0} /\ gens \subseteq Gens /\ DOMAIN rc = gens /\ DOMAIN genOf \subseteq Obs
          /\ left \subseteq DOMAIN genOf /\ live \subseteq gens
          /\ \A o \in DOMAIN genOf : genOf[o] \in gens
          /\ \A g \in gens : rc[g] \in 0..MaxO

IndInv == /\ TypeOK
          /\ cur = 0 \/ cur \in gens
          /\ \A g \in gens : rc[g] = Cardinality(Members(g))
          /\ \A g \in live : rc[g] >= 1 /\ g = cur

\* any state satisfying the invariant (Apalache needs it generated, not filtered)
IndInit ==
  /\ cur \in Gens \cup {0}
  /\ gens \in SUBSET Gens
  /\ \E D \in SUBSET Obs : genOf \in [D -> Gens]
  /\ rc \in [gens -> 0..MaxO]
  /\ left \in SUBSET Obs
  /\ live \in SUBSET Gens
  /\ IndInv

OneLive == Cardinality(live) <= 1
Released == (\A o \in DOMAIN genOf : o \in left) => live = {}
Safety == OneLive /\ Released
\* sanity (expected to be VIOLATED): IndInit is satisfiable with a live generation and a subscriber that left
NotVacuous == ~(live # {} /\ left # {} /\ Cardinality(gens) >= 2)
=============================================================================
