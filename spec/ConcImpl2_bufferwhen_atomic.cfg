SPECIFICATION Spec
CONSTANTS
 Op = "BufferWhen"
 NVals = 2
 NTicks = 2
 Atomic = TRUE
INVARIANTS NoInvention Explained
CHECK_DEADLOCK FALSE
