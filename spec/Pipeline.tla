------------------------------ MODULE Pipeline ------------------------------
(***************************************************************************)
(* Level 1 - a pipeline = a chain of Ops stages over ONE controllable      *)
(* source, subscribed by one observer.  Each action is something the       *)
(* harness can do to the real pipeline:                                    *)
(*    Subscribe      SubscribeWithContext(ctx{"sub"}, observer)            *)
(*    Push(n)        the source emits one notification (legal or not)      *)
(*    Unsub          the harness calls Unsubscribe                         *)
(* and the state records what must be observable after it (the delta of    *)
(* the observer's log, IsClosed, the source's subscribe / teardown         *)
(* counters).  TLC enumerates every behaviour up to MaxSteps actions and   *)
(* prints each maximal one as a JSON case (direction A); the Go replayer   *)
(* drives the real operators and compares after every step.                *)
(* The invariants are the properties themselves (C01 C03 C06 C08 C09 C14). *)
(***************************************************************************)
EXTENDS Ops, Json

CONSTANTS Chains,      \* set of chains (sequences of stage records) to enumerate
          Vals,        \* value alphabet of the source
          MaxSteps,    \* number of harness actions after Subscribe
          MaxIllegal,  \* how many notifications the source may emit after its own terminal
          Cuts,        \* BOOLEAN: also enumerate an Unsubscribe at every position
          MaxSubs,     \* how many times the SAME pipeline object is subscribed (C12: a re-subscription starts from fresh state)
          SrcBase,     \* markers of the context the SOURCE emits with: {"sub"} = derived from the subscription context (cold source);
                       \* {"hot"} = a context of the producer's own (hot source fed from elsewhere): what the operators attach must still arrive
          NilErr,      \* BOOLEAN: the source may also end with Error(nil) (cause 0) - a legal terminal that must travel like any other error
          Faults       \* set of fault plans [stage, at, kind]; stage 0 = no fault, -1 = the source's subscribe function (C07)

VARIABLES chain, sts, phase, srcSub, srcTorn, srcDone, unsub, closed, log, nitems, nillegal, h, fault, nsubs, prev

vars == <<chain, sts, phase, srcSub, srcTorn, srcDone, unsub, closed, log, nitems, nillegal, h, fault, nsubs, prev>>

ItemMark(k) == <<"i0", "i1", "i2", "i3", "i4", "i5", "i6", "i7">>[k + 1]
SubCtx == {"sub"}

ErrFault == 13
\* C07: a panic inside the user callback of stage i (invocation number fault.at) surfaces as ONE Error notification carrying the
\* context of the notification being processed; the stage is closed (nothing after it)
Faulty(i, st, r) == fault.stage = i /\ r.st.cb > st.cb /\ st.cb = fault.at
StepF(s, i, st, n) ==
  LET r == OpStep(s, st, n)
  IN IF ~st.closed /\ Faulty(i, st, r) THEN R([st EXCEPT !.closed = TRUE, !.cb = @ + 1], <<E(ErrFault, n.c)>>) ELSE r

RECURSIVE FeedStage(_, _, _, _)
FeedStage(s, i, st, ns) ==
  IF ns = <<>> THEN R(st, <<>>)
  ELSE LET r1 == StepF(s, i, st, Head(ns))
           r2 == FeedStage(s, i, r1.st, Tail(ns))
       IN R(r2.st, r1.out \o r2.out)

\* a batch of notifications entering stage i travels to the observer; returns the new stage states and what the observer receives
RECURSIVE PushFrom(_, _, _, _)
PushFrom(ch, ss, i, ns) ==
  IF i > Len(ch) \/ ns = <<>> THEN [sts |-> ss, out |-> ns]
  ELSE LET r == FeedStage(ch[i], i, ss[i], ns)
       IN PushFrom(ch, [ss EXCEPT ![i] = r.st], i + 1, r.out)

\* the observer's own grammar: it accepts values until its first terminal
RECURSIVE Deliver(_, _)
Deliver(isClosed, ns) ==
  IF ns = <<>> \/ isClosed THEN <<>>
  ELSE <<Head(ns)>> \o Deliver(Head(ns).k \in {"E", "C"}, Tail(ns))

\* C07, final observer: fault.stage = 99: the observer's own VALUE callback panics at its (fault.at + 1)-th invocation - the observer then
\* receives that failure once, as an Error carrying the context of the value, and nothing afterwards (the stream is over: the source is
\* released).  fault.stage = 98: the observer's TERMINAL callback panics - nothing observable follows and nothing escapes.
ObsFault == 99
ObsTermFault == 98
NCount(ns) == Cardinality({j \in 1..Len(ns) : ns[j].k = "N"})
RECURSIVE DeliverF(_, _, _)
DeliverF(isClosed, ns, cnt) ==
  IF ns = <<>> \/ isClosed THEN <<>>
  ELSE LET n == Head(ns) IN
       IF n.k = "N" /\ fault.stage = ObsFault /\ cnt = fault.at THEN <<n, E(ErrFault, n.c)>>
       ELSE <<n>> \o DeliverF(n.k \in {"E", "C"}, Tail(ns), IF n.k = "N" THEN cnt + 1 ELSE cnt)

AnyClosed(ss) == \E i \in 1..Len(ss) : ss[i].closed

\* subscription: stages are subscribed from the last one upwards; each may emit before subscribing its upstream
RECURSIVE SubFrom(_, _, _)
SubFrom(ch, ss, i) ==   \* returns [sts, out, reached]: reached = TRUE iff the source gets subscribed
  IF i = 0 THEN [sts |-> ss, out |-> <<>>, reached |-> TRUE]
  ELSE IF NeverSubscribes(ch[i])
       THEN LET r == PushFrom(ch, [ss EXCEPT ![i].closed = TRUE], i + 1, OnSubInstead(ch[i], SubCtx))
            IN [sts |-> r.sts, out |-> r.out, reached |-> FALSE]
       ELSE LET r == PushFrom(ch, ss, i + 1, OnSub(ch[i], SubCtx))
                up == SubFrom(ch, r.sts, i - 1)
            IN [sts |-> up.sts, out |-> r.out \o up.out, reached |-> up.reached]

Obs(delta, cl, sub, torn) == [log |-> delta, closed |-> cl, sub |-> prev.sub + sub, torn |-> prev.torn + torn]

Init ==
  /\ chain \in Chains
  /\ sts = [i \in 1..Len(chain) |-> OpInit(chain[i])]
  /\ phase = "new"
  /\ srcSub = 0 /\ srcTorn = 0 /\ srcDone = FALSE /\ unsub = FALSE /\ closed = FALSE
  /\ log = <<>> /\ nitems = 0 /\ nillegal = 0
  /\ h = <<>>
  /\ fault \in {f \in Faults : f.stage <= Len(chain) \/ f.stage >= 98}
  /\ nsubs = 0 /\ prev = [sub |-> 0, torn |-> 0]

\* Subscribe - also a RE-subscription of the same pipeline object once the previous subscription is closed (C12): stage
\* states, indices, accumulators, buffers and seen-sets start afresh; only the source's cumulative counters carry over.
Subscribe ==
  /\ (phase = "new" \/ (phase = "run" /\ closed /\ nsubs < MaxSubs /\ Len(h) <= MaxSteps))
  /\ LET fresh == [i \in 1..Len(chain) |-> OpInit(chain[i])]
         r0 == SubFrom(chain, fresh, Len(chain))
         \* C07: a panic inside the subscribe function of the source reaches the subscriber as one Error notification
         srcPanics == fault.stage = -1 /\ r0.reached
         rf == IF srcPanics THEN PushFrom(chain, r0.sts, 1, <<E(ErrFault, SubCtx)>>) ELSE [sts |-> r0.sts, out |-> <<>>]
         d == DeliverF(FALSE, r0.out \o rf.out, 0)
         cl == \E j \in 1..Len(d) : d[j].k \in {"E", "C"}
         nprev == IF phase = "new" THEN prev ELSE [sub |-> prev.sub + srcSub, torn |-> prev.torn + srcTorn]
         nsub == IF r0.reached THEN 1 ELSE 0
         \* a source subscribed by an already-closed pipeline is released at once; a subscribe function that panicked returned no teardown
         ntorn == IF r0.reached /\ ~srcPanics /\ (cl \/ AnyClosed(rf.sts)) THEN 1 ELSE 0
     IN /\ sts' = rf.sts
        /\ log' = d
        /\ closed' = cl
        /\ srcSub' = nsub
        /\ srcTorn' = ntorn
        /\ srcDone' = srcPanics
        /\ prev' = nprev
        /\ h' = Append(h, [do |-> "sub", n |-> C({}), exp |-> [log |-> d, closed |-> cl, sub |-> nprev.sub + nsub, torn |-> nprev.torn + ntorn]])
  /\ phase' = "run"
  /\ nsubs' = nsubs + 1
  /\ unsub' = FALSE /\ nitems' = 0 /\ nillegal' = 0
  /\ UNCHANGED <<chain, fault>>

Push(n) ==
  /\ phase = "run" /\ Len(h) <= MaxSteps
  /\ srcDone => nillegal < MaxIllegal
  /\ LET live == srcSub = 1 /\ srcTorn = 0 /\ ~srcDone          \* the source's own subscriber still forwards
         r == IF live THEN PushFrom(chain, sts, 1, <<n>>) ELSE [sts |-> sts, out |-> <<>>]
         d == DeliverF(closed, r.out, NCount(log))
         cl == closed \/ \E j \in 1..Len(d) : d[j].k \in {"E", "C"}
     IN /\ sts' = r.sts
        /\ log' = log \o d
        /\ closed' = cl
        /\ srcDone' = (srcDone \/ n.k \in {"E", "C"})
        \* C03 / C14: the source is released in the same step in which the pipeline closes or the source itself ends
        /\ srcTorn' = IF srcSub = 1 /\ fault.stage # -1 /\ (cl \/ AnyClosed(r.sts) \/ srcDone') THEN 1 ELSE srcTorn
        /\ h' = Append(h, [do |-> "push", n |-> n, exp |-> Obs(d, cl, srcSub, srcTorn')])
  /\ nitems' = IF n.k = "N" THEN nitems + 1 ELSE nitems
  /\ nillegal' = IF srcDone THEN nillegal + 1 ELSE nillegal
  /\ UNCHANGED <<chain, phase, srcSub, unsub, fault, nsubs, prev>>

Unsub ==
  /\ Cuts /\ phase = "run" /\ ~unsub /\ Len(h) <= MaxSteps
  /\ unsub' = TRUE /\ closed' = TRUE
  /\ srcTorn' = IF srcSub = 1 /\ fault.stage # -1 THEN 1 ELSE srcTorn
  /\ sts' = [i \in 1..Len(chain) |-> [sts[i] EXCEPT !.closed = TRUE]]
  /\ h' = Append(h, [do |-> "unsub", n |-> C({}), exp |-> Obs(<<>>, TRUE, srcSub, srcTorn')])
  /\ UNCHANGED <<chain, phase, srcSub, srcDone, log, nitems, nillegal, fault, nsubs, prev>>

NextNotif ==
  {N(v, SrcBase \cup {ItemMark(nitems)}) : v \in Vals} \cup {E(1, SrcBase \cup {"t"}), C(SrcBase \cup {"t"})} \cup (IF NilErr THEN {E(0, SrcBase \cup {"t"})} ELSE {})

Next == Subscribe \/ Unsub \/ \E n \in NextNotif : Push(n)

Spec == Init /\ [][Next]_vars

\* a behaviour is maximal when the step budget is used up, or when nothing more may be done (the source has ended,
\* its illegal-suffix budget is spent, and the Unsubscribe - if enumerated - has been issued)
Done == phase = "run" /\ (Len(h) = MaxSteps + 1 \/ (srcDone /\ nillegal >= MaxIllegal /\ (~Cuts \/ unsub) /\ nsubs >= MaxSubs))

(* ------------------------------ properties ----------------------------- *)
\* C01: values, then at most one terminal, then silence
Grammar == \A j \in 1..Len(log) : j < Len(log) => log[j].k = "N"
\* C09: no callback ever sees a nil context; every delivered context derives from the subscription context
\*      (ContextReset replaces the context by definition; DefaultIfEmpty's plain form and Max(empty) are pinned deviations)
CtxDerived == \A j \in 1..Len(log) : log[j].c # NILCTX
\* C03 / C14: closed => the source has been released (if it was ever subscribed), at most once by construction
ClosedImpliesTorn == closed => ((srcSub = 1 /\ fault.stage # -1) => srcTorn = 1)   \* a subscribe function that panicked returned no teardown
\* C06: nothing is delivered after Unsubscribe (by construction of Deliver); the log is frozen once closed
TypeOK == srcSub \in 0..1 /\ srcTorn \in 0..1 /\ srcTorn <= srcSub

\* the generator: every maximal behaviour is printed as one JSON case
EmitCase == Done => PrintT(ToJson([chain |-> chain, steps |-> h, fault |-> fault, nsubs |-> nsubs, hot |-> ("hot" \in SrcBase),
                                   cbn |-> [i \in 1..Len(chain) |-> sts[i].cb]]))
\* C07: once a fault surfaced nothing follows it (Grammar) and it surfaced exactly once
NoFault == [stage |-> 0, at |-> 0, kind |-> "none"]
=============================================================================
