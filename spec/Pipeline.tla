------------------------------ MODULE Pipeline ------------------------------
(***************************************************************************)
(* Level 1 - a pipeline = a chain of Ops stages over ONE controllable      *)
(* source, subscribed by one observer.  Each action is something the       *)
(* harness can do to the real pipeline:                                    *)
(*    Subscribe      SubscribeWithContext(ctx{"sub"}, observer)            *)
(*    Push(n)        the source emits one notification (legal or not)      *)
(*    Unsub          the harness calls Unsubscribe                         *)
(* and the state records what must be observable after it (the delta of    *)
(* the observer's log, IsClosed, the source's subscribe / teardown         *)
(* counters).  TLC enumerates every behaviour up to MaxSteps actions and   *)
(* prints each maximal one as a JSON case (direction A); the Go replayer   *)
(* drives the real operators and compares after every step.                *)
(* The invariants are the properties themselves (C01 C03 C06 C08 C09 C14). *)
(***************************************************************************)
EXTENDS Ops, Json

CONSTANTS Chains,      \* set of chains (sequences of stage records) to enumerate
          Vals,        \* value alphabet of the source
          MaxSteps,    \* number of harness actions after Subscribe
          MaxIllegal,  \* how many notifications the source may emit after its own terminal
          Cuts         \* BOOLEAN: also enumerate an Unsubscribe at every position

VARIABLES chain, sts, phase, srcSub, srcTorn, srcDone, unsub, closed, log, nitems, nillegal, h

vars == <<chain, sts, phase, srcSub, srcTorn, srcDone, unsub, closed, log, nitems, nillegal, h>>

ItemMark(k) == <<"i0", "i1", "i2", "i3", "i4", "i5", "i6", "i7">>[k + 1]
SubCtx == {"sub"}

RECURSIVE FeedStage(_, _, _)
FeedStage(s, st, ns) ==
  IF ns = <<>> THEN R(st, <<>>)
  ELSE LET r1 == OpStep(s, st, Head(ns))
           r2 == FeedStage(s, r1.st, Tail(ns))
       IN R(r2.st, r1.out \o r2.out)

\* a batch of notifications entering stage i travels to the observer; returns the new stage states and what the observer receives
RECURSIVE PushFrom(_, _, _, _)
PushFrom(ch, ss, i, ns) ==
  IF i > Len(ch) \/ ns = <<>> THEN [sts |-> ss, out |-> ns]
  ELSE LET r == FeedStage(ch[i], ss[i], ns)
       IN PushFrom(ch, [ss EXCEPT ![i] = r.st], i + 1, r.out)

\* the observer's own grammar: it accepts values until its first terminal
RECURSIVE Deliver(_, _)
Deliver(isClosed, ns) ==
  IF ns = <<>> \/ isClosed THEN <<>>
  ELSE <<Head(ns)>> \o Deliver(Head(ns).k \in {"E", "C"}, Tail(ns))

AnyClosed(ss) == \E i \in 1..Len(ss) : ss[i].closed

\* subscription: stages are subscribed from the last one upwards; each may emit before subscribing its upstream
RECURSIVE SubFrom(_, _, _)
SubFrom(ch, ss, i) ==   \* returns [sts, out, reached]: reached = TRUE iff the source gets subscribed
  IF i = 0 THEN [sts |-> ss, out |-> <<>>, reached |-> TRUE]
  ELSE IF NeverSubscribes(ch[i])
       THEN LET r == PushFrom(ch, [ss EXCEPT ![i].closed = TRUE], i + 1, OnSubInstead(ch[i], SubCtx))
            IN [sts |-> r.sts, out |-> r.out, reached |-> FALSE]
       ELSE LET r == PushFrom(ch, ss, i + 1, OnSub(ch[i], SubCtx))
                up == SubFrom(ch, r.sts, i - 1)
            IN [sts |-> up.sts, out |-> r.out \o up.out, reached |-> up.reached]

Obs(delta, cl, sub, torn) == [log |-> delta, closed |-> cl, sub |-> sub, torn |-> torn]

Init ==
  /\ chain \in Chains
  /\ sts = [i \in 1..Len(chain) |-> OpInit(chain[i])]
  /\ phase = "new"
  /\ srcSub = 0 /\ srcTorn = 0 /\ srcDone = FALSE /\ unsub = FALSE /\ closed = FALSE
  /\ log = <<>> /\ nitems = 0 /\ nillegal = 0
  /\ h = <<>>

Subscribe ==
  /\ phase = "new"
  /\ LET r == SubFrom(chain, sts, Len(chain))
         d == Deliver(FALSE, r.out)
         cl == \E j \in 1..Len(d) : d[j].k \in {"E", "C"}
     IN /\ sts' = r.sts
        /\ log' = log \o d
        /\ closed' = cl
        /\ srcSub' = IF r.reached THEN 1 ELSE 0
        \* a source subscribed by an already-closed pipeline is released at once
        /\ srcTorn' = IF r.reached /\ (cl \/ AnyClosed(r.sts)) THEN 1 ELSE 0
        /\ h' = Append(h, [do |-> "sub", n |-> C({}), exp |-> Obs(d, cl, srcSub', srcTorn')])
  /\ phase' = "run"
  /\ UNCHANGED <<chain, srcDone, unsub, nitems, nillegal>>

Push(n) ==
  /\ phase = "run" /\ Len(h) <= MaxSteps
  /\ srcDone => nillegal < MaxIllegal
  /\ LET live == srcSub = 1 /\ srcTorn = 0 /\ ~srcDone          \* the source's own subscriber still forwards
         r == IF live THEN PushFrom(chain, sts, 1, <<n>>) ELSE [sts |-> sts, out |-> <<>>]
         d == Deliver(closed, r.out)
         cl == closed \/ \E j \in 1..Len(d) : d[j].k \in {"E", "C"}
     IN /\ sts' = r.sts
        /\ log' = log \o d
        /\ closed' = cl
        /\ srcDone' = (srcDone \/ n.k \in {"E", "C"})
        \* C03 / C14: the source is released in the same step in which the pipeline closes or the source itself ends
        /\ srcTorn' = IF srcSub = 1 /\ (cl \/ AnyClosed(r.sts) \/ srcDone') THEN 1 ELSE srcTorn
        /\ h' = Append(h, [do |-> "push", n |-> n, exp |-> Obs(d, cl, srcSub, srcTorn')])
  /\ nitems' = IF n.k = "N" THEN nitems + 1 ELSE nitems
  /\ nillegal' = IF srcDone THEN nillegal + 1 ELSE nillegal
  /\ UNCHANGED <<chain, phase, srcSub, unsub>>

Unsub ==
  /\ Cuts /\ phase = "run" /\ ~unsub /\ Len(h) <= MaxSteps
  /\ unsub' = TRUE /\ closed' = TRUE
  /\ srcTorn' = IF srcSub = 1 THEN 1 ELSE srcTorn
  /\ sts' = [i \in 1..Len(chain) |-> [sts[i] EXCEPT !.closed = TRUE]]
  /\ h' = Append(h, [do |-> "unsub", n |-> C({}), exp |-> Obs(<<>>, TRUE, srcSub, srcTorn')])
  /\ UNCHANGED <<chain, phase, srcSub, srcDone, log, nitems, nillegal>>

NextNotif ==
  {N(v, SubCtx \cup {ItemMark(nitems)}) : v \in Vals} \cup {E(1, SubCtx \cup {"t"}), C(SubCtx \cup {"t"})}

Next == Subscribe \/ Unsub \/ \E n \in NextNotif : Push(n)

Spec == Init /\ [][Next]_vars

\* a behaviour is maximal when the step budget is used up, or when nothing more may be done (the source has ended,
\* its illegal-suffix budget is spent, and the Unsubscribe - if enumerated - has been issued)
Done == phase = "run" /\ (Len(h) = MaxSteps + 1 \/ (srcDone /\ nillegal >= MaxIllegal /\ (~Cuts \/ unsub)))

(* ------------------------------ properties ----------------------------- *)
\* C01: values, then at most one terminal, then silence
Grammar == \A j \in 1..Len(log) : j < Len(log) => log[j].k = "N"
\* C09: no callback ever sees a nil context; every delivered context derives from the subscription context
\*      (ContextReset replaces the context by definition; DefaultIfEmpty's plain form and Max(empty) are pinned deviations)
CtxDerived == \A j \in 1..Len(log) : log[j].c # NILCTX
\* C03 / C14: closed => the source has been released (if it was ever subscribed), at most once by construction
ClosedImpliesTorn == closed => (srcSub = 1 => srcTorn = 1)
\* C06: nothing is delivered after Unsubscribe (by construction of Deliver); the log is frozen once closed
TypeOK == srcSub \in 0..1 /\ srcTorn \in 0..1 /\ srcTorn <= srcSub

\* the generator: every maximal behaviour is printed as one JSON case
EmitCase == Done => PrintT(ToJson([chain |-> chain, steps |-> h,
                                   cbn |-> [i \in 1..Len(chain) |-> sts[i].cb]]))
=============================================================================
