SPECIFICATION Spec
CONSTANTS Cap = 1
 Len0 = 3
 WithUnsub = TRUE
INVARIANTS NoSendOnClosed
