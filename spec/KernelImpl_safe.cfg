SPECIFICATION Spec
CONSTANTS NProd = 2
 MaxLen = 2
 Mode = "safe"
 WithUnsub = TRUE
 WithAdd = TRUE
INVARIANTS Grammar NoOverlap TeardownAtMostOnce TeardownAtEnd CutsDelivery Accounted LocksReleased
PROPERTY Terminates
