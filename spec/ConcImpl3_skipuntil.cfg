SPECIFICATION Spec
CONSTANTS
 Op = "SkipUntil"
 NVals = 3
 NTicks = 3
 SrcEnds = {"C", "E"}
 TickEnds = {"C", "E", "none"}
 Variant = "code"
INVARIANTS NoInvention InOrder AtMostOnce Explained
CHECK_DEADLOCK FALSE
