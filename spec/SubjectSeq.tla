----------------------------- MODULE SubjectSeq -----------------------------
(***************************************************************************)
(* Level 1 - the SEQUENTIAL definition of the five subjects (C10).         *)
(*                                                                         *)
(* One subject of kind Kind with buffer size Buf (replay: last Buf values, *)
(* unicast: backlog bounded by Buf; Buf = -1 means unlimited).             *)
(* Atomic operations:                                                      *)
(*    Nx(v)   Next(v)            Er   Error(cause 1)       Co  Complete    *)
(*    Sub(i)  subscriber i subscribes (each id subscribes at most once)    *)
(*    SubX(i) ... with a pre-built subscriber that is ALREADY unsubscribed  *)
(*    SubU(i) ... with a pre-built subscriber that unsubscribes itself     *)
(*            from inside the first value callback it receives             *)
(*    Uns(i)  subscriber i unsubscribes                                    *)
(* State: status, stored terminal, the kind's memory (mem), the set of     *)
(* registered observers (obs) and what every subscriber has received.      *)
(* After every operation the harness can observe: the deliveries of the    *)
(* operation per subscriber, HasObserver, CountObservers, IsClosed,        *)
(* HasThrown, IsCompleted.                                                 *)
(* TLC enumerates every operation sequence up to MaxOps (direction A) and  *)
(* the same definition is the linearizability oracle of SubjectLin.tla.    *)
(***************************************************************************)
EXTENDS Integers, Sequences, FiniteSets, TLC, Json

CONSTANTS Kinds,    \* set of [kind, buf] configurations to enumerate
          MaxOps,   \* operations per case
          Ids       \* subscriber ids

VARIABLES cfg, status, mem, obs, used, selfUnsub, h

vars == <<cfg, status, mem, obs, used, selfUnsub, h>>

ErrConcurrent == 106   \* ErrUnicastSubjectConcurrent
Nn(v) == [k |-> "N", v |-> v]
Ee(e) == [k |-> "E", v |-> e]
Cc    == [k |-> "C", v |-> 0]

Term == IF status = "E" THEN <<Ee(1)>> ELSE IF status = "C" THEN <<Cc>> ELSE <<>>

Trim(s, n) == IF n < 0 \/ Len(s) <= n THEN s ELSE SubSeq(s, Len(s) - n + 1, Len(s))

\* what a new subscriber receives at once (replay of the kind, then the stored terminal), given the current state
Replay ==
  CASE cfg.kind = "publish"  -> Term
    [] cfg.kind = "behavior" -> IF status = "N" THEN <<Nn(mem[1])>> ELSE Term
    [] cfg.kind = "replay"   -> [j \in 1..Len(mem) |-> Nn(mem[j])] \o Term
    [] cfg.kind = "async"    -> IF status = "C" THEN [j \in 1..Len(mem) |-> Nn(mem[j])] \o Term ELSE Term
    [] cfg.kind = "unicast"  -> \* the backlog nobody consumed, then the stored terminal (C10 statement)
                                [j \in 1..Len(mem) |-> Nn(mem[j])] \o Term
    [] OTHER -> <<>>

Getters(o, st) == [has |-> o # {}, count |-> Cardinality(o), closed |-> st # "N", thrown |-> st = "E", completed |-> st = "C"]

Rec(op, arg, deliv, o, st) == [op |-> op, arg |-> arg, deliv |-> deliv, get |-> Getters(o, st)]

Init ==
  /\ cfg \in Kinds
  /\ status = "N"
  /\ mem = IF cfg.kind = "behavior" THEN <<7>> ELSE <<>>      \* NewBehaviorSubject(7)
  /\ obs = {} /\ used = {} /\ selfUnsub = {} /\ h = <<>>

NoDeliv == [i \in Ids |-> <<>>]
ToAll(ns) == [i \in Ids |-> IF i \in obs THEN ns ELSE <<>>]

Nx(v) ==
  /\ Len(h) < MaxOps
  /\ IF status # "N" THEN /\ UNCHANGED <<status, mem, obs, selfUnsub>>
                          /\ h' = Append(h, Rec("next", v, NoDeliv, obs, status))
     ELSE
       CASE cfg.kind \in {"publish", "behavior", "replay"} ->
              \* a self-unsubscribing subscriber leaves inside its first value callback
              /\ obs' = obs \ selfUnsub /\ selfUnsub' = selfUnsub \ obs
              /\ mem' = CASE cfg.kind = "behavior" -> <<v>> [] cfg.kind = "replay" -> Trim(Append(mem, v), cfg.buf) [] OTHER -> mem
              /\ UNCHANGED status
              /\ h' = Append(h, Rec("next", v, ToAll(<<Nn(v)>>), obs', status))
         [] cfg.kind = "async" ->
              /\ mem' = <<v>> /\ UNCHANGED <<status, obs, selfUnsub>>
              /\ h' = Append(h, Rec("next", v, NoDeliv, obs, status))
         [] OTHER -> \* unicast: to the observer if there is one, else queued (bounded backlog keeps the newest)
              IF obs # {} THEN /\ obs' = obs \ selfUnsub /\ selfUnsub' = selfUnsub \ obs /\ UNCHANGED <<status, mem>>
                               /\ h' = Append(h, Rec("next", v, ToAll(<<Nn(v)>>), obs', status))
                          ELSE /\ mem' = Trim(Append(mem, v), cfg.buf) /\ UNCHANGED <<status, obs, selfUnsub>>
                               /\ h' = Append(h, Rec("next", v, NoDeliv, obs, status))
  /\ UNCHANGED <<cfg, used>>

Terminal(st) ==
  /\ Len(h) < MaxOps
  /\ IF status # "N" THEN /\ UNCHANGED <<status, mem, obs, selfUnsub>>
                          /\ h' = Append(h, Rec(IF st = "E" THEN "error" ELSE "complete", 0, NoDeliv, obs, status))
     ELSE LET last == IF cfg.kind = "async" /\ st = "C" THEN [j \in 1..Len(mem) |-> Nn(mem[j])] ELSE <<>>
              t == IF st = "E" THEN <<Ee(1)>> ELSE <<Cc>>
              \* async: a self-unsubscribing subscriber leaves inside the final value callback and misses the terminal
              deliv == [i \in Ids |-> IF i \notin obs THEN <<>> ELSE IF i \in selfUnsub /\ last # <<>> THEN last ELSE last \o t]
          IN /\ status' = st /\ obs' = {} /\ selfUnsub' = {} /\ UNCHANGED mem
             /\ h' = Append(h, Rec(IF st = "E" THEN "error" ELSE "complete", 0, deliv, {}, st))
  /\ UNCHANGED <<cfg, used>>

Subscribe(i, self) ==
  /\ Len(h) < MaxOps /\ i \notin used
  /\ LET busy == cfg.kind = "unicast" /\ obs # {} /\ status = "N"
         r == IF busy THEN <<Ee(ErrConcurrent)>> ELSE Replay
         \* a self-unsubscribing subscriber stops at (and including) the first value it receives
         firstN == IF \E j \in 1..Len(r) : r[j].k = "N" THEN CHOOSE j \in 1..Len(r) : r[j].k = "N" /\ \A j2 \in 1..(j - 1) : r[j2].k # "N" ELSE 0
         rr == IF self /\ firstN > 0 THEN SubSeq(r, 1, firstN) ELSE r
         left == self /\ firstN > 0
         joins == status = "N" /\ ~busy /\ ~left
     IN /\ obs' = IF joins THEN obs \cup {i} ELSE obs
        /\ selfUnsub' = IF joins /\ self THEN selfUnsub \cup {i} ELSE selfUnsub
        \* unicast hands its backlog to the subscriber that takes it (also after termination: nobody else may consume it twice)
        /\ mem' = IF cfg.kind = "unicast" /\ ~busy THEN <<>> ELSE mem
        /\ h' = Append(h, Rec(IF self THEN "subU" ELSE "sub", i, [x \in Ids |-> IF x = i THEN rr ELSE <<>>], obs', status))
  /\ used' = used \cup {i}
  /\ UNCHANGED <<cfg, status>>

\* a pre-built subscriber that was unsubscribed BEFORE it is handed to Subscribe: it receives nothing and is not registered (C03: a
\* closed subscription holds nothing upstream - the subject must not keep it in its observer set)
SubscribeClosed(i) ==
  /\ Len(h) < MaxOps /\ i \notin used
  /\ h' = Append(h, Rec("subX", i, NoDeliv, obs, status))
  /\ used' = used \cup {i}
  \* unicast hands its backlog to the subscriber that takes the slot, whatever that subscriber does with it (same rule as for the
  \* self-unsubscribing subscriber): a closed subscriber drops it
  /\ mem' = IF cfg.kind = "unicast" /\ status = "N" /\ obs = {} THEN <<>> ELSE mem
  /\ UNCHANGED <<cfg, status, obs, selfUnsub>>

Uns(i) ==
  /\ Len(h) < MaxOps /\ i \in used
  /\ obs' = obs \ {i} /\ selfUnsub' = selfUnsub \ {i}
  /\ h' = Append(h, Rec("unsub", i, NoDeliv, obs', status))
  /\ UNCHANGED <<cfg, status, mem, used>>

Next ==
  \/ \E v \in {1, 2} : Nx(v)
  \/ Terminal("E") \/ Terminal("C")
  \/ \E i \in Ids : (i = 1 \/ (i - 1) \in used) /\ (Subscribe(i, FALSE) \/ Subscribe(i, TRUE) \/ SubscribeClosed(i))     \* ids are taken in order (symmetry)
  \/ \E i \in Ids : Uns(i)

Spec == Init /\ [][Next]_vars

(* ------------------------------ properties ----------------------------- *)
\* observers are dropped on termination; unicast admits one subscriber at a time
ObserversDropped == status # "N" => obs = {}
UnicastSingle == cfg.kind = "unicast" => Cardinality(obs) <= 1
TypeOK == obs \subseteq used /\ selfUnsub \subseteq obs

Done == Len(h) = MaxOps
EmitCase == Done => PrintT(ToJson([cfg |-> cfg, ops |-> h]))
=============================================================================
