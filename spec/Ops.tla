-------------------------------- MODULE Ops --------------------------------
(***************************************************************************)
(* Level 1 - reference semantics of the single-source operators of         *)
(* samber/ro as Mealy machines: one upstream notification in, zero or more *)
(* downstream notifications out, synchronously (C04, C08), with the        *)
(* context each output carries (C09), the closing rule (C01, C03, C14) and *)
(* the number of times the user callback is invoked.                       *)
(*                                                                         *)
(* A stage is  s = [op, f, p, q]                                           *)
(*    op  operator id (catalogue: /verif/harness/internal/cat)             *)
(*    f   flavour "" | "I" | "C" | "IC"  (plain / indexed / context-aware) *)
(*    p,q integer parameters                                               *)
(* Values are small integers, sequences of values, booleans or             *)
(* materialised notifications.  Errors are cause ids (integers).           *)
(* A context is a SET of marker strings ("sub" attached at Subscribe,      *)
(* "i<k>" per item, "t" on the source's terminal, "cb" by a context-aware  *)
(* callback, "mid" by a context operator, "rst" by ContextReset);          *)
(* {"nil"} stands for a nil context, {} for context.Background().          *)
(***************************************************************************)
EXTENDS Integers, Sequences, FiniteSets, TLC

N(v, c) == [k |-> "N", v |-> v, c |-> c]
E(e, c) == [k |-> "E", v |-> e, c |-> c]
C(c)    == [k |-> "C", v |-> 0, c |-> c]

\* library error causes (the Go side maps errors.Is(...) to these ids)
ErrHeadEmpty == 101      ErrTailEmpty == 102     ErrFirstEmpty == 103
ErrLastEmpty == 104      ErrElementAtNotFound == 105
ErrCb == 11              \* error returned by the catalogue's error-returning callback
ErrThrowIfEmpty == 12

BG == {}                 \* context.Background()
NILCTX == {"nil"}

St0 == [closed |-> FALSE, n |-> 0, acc |-> 0, flag |-> FALSE, buf |-> <<>>, seen |-> {}, cb |-> 0]

R(st, out) == [st |-> st, out |-> out]
OpInit(s) == [St0 EXCEPT !.acc = IF s.op \in {"Scan", "Reduce"} THEN s.p ELSE 0]

IsI(s) == s.f \in {"I", "IC"}
IsC(s) == s.f \in {"C", "IC"}
CbCtx(s, c) == IF IsC(s) THEN c \cup {"cb"} ELSE c

(* ---- the callback catalogue (defined identically in Go: internal/cat/callbacks.go) ---- *)
FMap(s, v, i)  == v + 1 + (IF IsI(s) THEN 10 * i ELSE 0)
FPred(s, v, i) == (v + (IF IsI(s) THEN i ELSE 0)) % 2 = 0
FKey(v)        == v % 2
FAcc(s, a, v, i) == a + v + (IF IsI(s) THEN 10 * i ELSE 0)
FErrOn(v)      == v = 2          \* the error-returning callback fails on the value 2

ValsOf(ns) == [j \in 1..Len(ns) |-> ns[j].v]
Nexts(vs, c) == [j \in 1..Len(vs) |-> N(vs[j], c)]

Min2(a, b) == IF a <= b THEN a ELSE b
Max2(a, b) == IF a >= b THEN a ELSE b

(***************************************************************************)
(* OnSub: notifications a stage emits when it is subscribed, BEFORE it     *)
(* subscribes its upstream (context = the subscriber context cs).          *)
(***************************************************************************)
OnSub(s, cs) ==
  CASE s.op = "StartWith" -> Nexts([j \in 1..s.p |-> 6 + j], cs)     \* StartWith(7, 8, ...) : p prefixes
    [] OTHER -> <<>>

\* stages that never subscribe their source (the source stays untouched)
NeverSubscribes(s) == (s.op = "Take" /\ s.p = 0) \/ (s.op = "TakeLast" /\ s.p = 0)
\* what such a stage emits instead, at subscription
OnSubInstead(s, cs) == <<C(cs)>>

(***************************************************************************)
(* Value notification                                                      *)
(***************************************************************************)
OnN(s, st, n) ==
  LET v == n.v  c == n.c  i == st.n
      st1 == [st EXCEPT !.n = @ + 1]                  \* index advanced
      stc == [st1 EXCEPT !.cb = @ + 1]                \* ... and the user callback was invoked
  IN
  CASE s.op = "Map"      -> R(stc, <<N(FMap(s, v, i), CbCtx(s, c))>>)
    [] s.op = "MapTo"    -> R(st1, <<N(s.p, c)>>)
    [] s.op = "MapErr"   -> IF FErrOn(v) THEN R(stc, <<E(ErrCb, CbCtx(s, c))>>)
                                         ELSE R(stc, <<N(FMap(s, v, i), CbCtx(s, c))>>)
    [] s.op = "Flatten"  -> R(st1, Nexts(v, c))
    [] s.op = "Scan"     -> LET a == FAcc(s, st.acc, v, i) IN R([stc EXCEPT !.acc = a], <<N(a, CbCtx(s, c))>>)
    [] s.op = "BufferWithCount" ->
          LET b == Append(st.buf, v) IN
          IF Len(b) >= s.p THEN R([st1 EXCEPT !.buf = <<>>], <<N(b, c)>>) ELSE R([st1 EXCEPT !.buf = b], <<>>)
    [] s.op = "Pairwise" -> IF st.flag THEN R([st1 EXCEPT !.acc = v], <<N(<<st.acc, v>>, c)>>)
                                       ELSE R([st1 EXCEPT !.acc = v, !.flag = TRUE], <<>>)
    [] s.op \in {"StartWith", "EndWith", "Serialize", "OnErrorReturn", "TapOnSubscribe", "TapOnFinalize",
                 "TapOnError", "TapOnComplete", "ContextWithTimeout", "ContextWithDeadline", "Cast", "TimeInterval", "Timestamp"} -> R(st1, <<n>>)
    \* the rounding family works on floats: the harness feeds v / 2 (halves) and reads the result back as an integer (Abs: doubled)
    [] s.op = "Ceil"     -> R(st1, <<N((v + 1) \div 2, c)>>)
    [] s.op = "Floor"    -> R(st1, <<N(v \div 2, c)>>)
    [] s.op = "Round"    -> R(st1, <<N(IF v >= 0 THEN (v + 1) \div 2 ELSE -((1 - v) \div 2), c)>>)      \* half away from zero
    [] s.op = "Trunc"    -> R(st1, <<N(IF v >= 0 THEN v \div 2 ELSE -((-v) \div 2), c)>>)
    [] s.op = "Abs"      -> R(st1, <<N(IF v >= 0 THEN v ELSE -v, c)>>)
    [] s.op = "Average"  -> R([st1 EXCEPT !.acc = @ + v], <<>>)
    \* precision rounding at a place where the fed values are already round: the identity.  "P1": halves rounded to 1 decimal place (the plain
    \* scaling path); "Big": v * 10^9 rounded to 300 decimal places (v * 10^309 overflows float64: the arbitrary-precision fallback)
    [] s.op \in {"CeilP1", "FloorP1", "CeilBig", "FloorBig"} -> R(st1, <<n>>)
    [] s.op \in {"Tap", "TapOnNext"} -> R(stc, <<n>>)
    [] s.op = "Filter"   -> IF FPred(s, v, i) THEN R(stc, <<N(v, CbCtx(s, c))>>) ELSE R(stc, <<>>)
    [] s.op = "Distinct" -> IF v \in st.seen THEN R(st1, <<>>) ELSE R([st1 EXCEPT !.seen = @ \cup {v}], <<n>>)
    [] s.op = "DistinctBy" -> LET key == FKey(v) IN
          IF key \in st.seen THEN R(stc, <<>>) ELSE R([stc EXCEPT !.seen = @ \cup {key}], <<N(v, CbCtx(s, c))>>)
    [] s.op = "IgnoreElements" -> R(st1, <<>>)
    [] s.op = "Skip"     -> IF i >= s.p THEN R(st1, <<n>>) ELSE R(st1, <<>>)
    [] s.op = "SkipWhile" ->
          IF st.flag THEN R(st1, <<n>>)                                    \* no longer skipping: predicate not called
          ELSE IF FPred(s, v, i) THEN R(stc, <<>>)
          ELSE R([stc EXCEPT !.flag = TRUE], <<N(v, CbCtx(s, c))>>)
    [] s.op = "SkipLast" ->
          IF Len(st.buf) < s.p THEN R([st1 EXCEPT !.buf = Append(@, n)], <<>>)
          ELSE R([st1 EXCEPT !.buf = Append(Tail(@), n)], <<N(Head(st.buf).v, Head(st.buf).c)>>)
    [] s.op = "Take"     -> IF i + 1 >= s.p THEN R(st1, <<n, C(c)>>) ELSE R(st1, <<n>>)
    [] s.op = "TakeWhile" ->
          IF FPred(s, v, i) THEN R(stc, <<N(v, CbCtx(s, c))>>) ELSE R(stc, <<C(CbCtx(s, c))>>)
    [] s.op = "TakeLast" ->
          R([st1 EXCEPT !.buf = IF Len(@) < s.p THEN Append(@, n) ELSE Append(Tail(@), n)], <<>>)
    [] s.op = "Head"     -> R(st1, <<n, C(c)>>)
    [] s.op = "Tail"     -> R([st1 EXCEPT !.buf = <<n>>], <<>>)
    [] s.op = "First"    -> IF FPred(s, v, i) THEN R(stc, <<N(v, CbCtx(s, c)), C(CbCtx(s, c))>>) ELSE R(stc, <<>>)
    [] s.op = "Last"     -> IF FPred(s, v, i) THEN R([stc EXCEPT !.buf = <<N(v, CbCtx(s, c))>>], <<>>) ELSE R(stc, <<>>)
    [] s.op \in {"ElementAt", "ElementAtOrDefault"} ->
          IF i = s.p THEN R(st1, <<n, C(c)>>) ELSE R(st1, <<>>)
    [] s.op = "All"      -> \* keeps evaluating while ok; after a failure the predicate is no longer called (pinned)
          IF st.flag THEN R(st1, <<>>)
          ELSE IF FPred(s, v, i) THEN R(stc, <<>>) ELSE R([stc EXCEPT !.flag = TRUE], <<>>)
    [] s.op = "Contains" -> IF FPred(s, v, i) THEN R(stc, <<N(TRUE, c), C(c)>>) ELSE R(stc, <<>>)
    [] s.op = "Find"     -> IF FPred(s, v, i) THEN R(stc, <<n, C(c)>>) ELSE R(stc, <<>>)
    [] s.op \in {"DefaultIfEmpty", "ThrowIfEmpty"} -> R([st1 EXCEPT !.flag = TRUE], <<n>>)
    [] s.op = "Count"    -> R(st1, <<>>)
    [] s.op = "Sum"      -> R([st1 EXCEPT !.acc = @ + v], <<>>)
    [] s.op = "Min"      -> IF ~st.flag \/ v < st.buf[1].v THEN R([st1 EXCEPT !.flag = TRUE, !.buf = <<n>>], <<>>) ELSE R(st1, <<>>)
    [] s.op = "Max"      -> IF ~st.flag \/ v > st.buf[1].v THEN R([st1 EXCEPT !.flag = TRUE, !.buf = <<n>>], <<>>) ELSE R(st1, <<>>)
    [] s.op = "Clamp"    -> R(st1, <<N(Max2(s.p, Min2(s.q, v)), c)>>)
    [] s.op = "Reduce"   -> R([stc EXCEPT !.acc = FAcc(s, st.acc, v, i), !.buf = <<N(0, CbCtx(s, c))>>], <<>>)
    [] s.op = "Materialize" -> R(st1, <<N([k |-> "N", v |-> v], c)>>)
    [] s.op = "Dematerialize" ->
          CASE v.k = "N" -> R(st1, <<N(v.v, c)>>)
            [] v.k = "E" -> R(st1, <<E(v.v, c)>>)
            [] OTHER     -> R(st1, <<C(c)>>)
    [] s.op = "ToSlice"  -> R([st1 EXCEPT !.buf = Append(@, v)], <<>>)
    [] s.op = "ToMap"    -> R([stc EXCEPT !.buf = Append(@, v)], <<>>)
    [] s.op \in {"ContextWithValue", "ContextMap"} -> R(IF s.op = "ContextMap" THEN stc ELSE st1, <<N(v, c \cup {"mid"})>>)
    [] s.op = "ContextReset" -> R(st1, <<N(v, {"rst"})>>)
    [] OTHER -> Assert(FALSE, <<"Ops!OnN: unknown operator", s.op>>)

(***************************************************************************)
(* Completion                                                              *)
(***************************************************************************)
\* last-write-wins map of ToMap(key = v % 2, value = v), as a sequence of <<key, value>> sorted by key
ToMapOf(vs) == LET keys == {FKey(vs[j]) : j \in 1..Len(vs)}
                   lastOf(key) == LET J == {j \in 1..Len(vs) : FKey(vs[j]) = key} IN vs[CHOOSE j \in J : \A j2 \in J : j2 <= j]
               IN (IF 0 \in keys THEN <<<<0, lastOf(0)>>>> ELSE <<>>) \o (IF 1 \in keys THEN <<<<1, lastOf(1)>>>> ELSE <<>>)

OnC(s, st, n) ==
  LET c == n.c IN
  CASE s.op = "BufferWithCount" -> IF st.buf # <<>> THEN R(st, <<N(st.buf, c), C(c)>>) ELSE R(st, <<C(c)>>)
    [] s.op = "EndWith"   -> R(st, Nexts([j \in 1..s.p |-> 6 + j], c) \o <<C(c)>>)
    [] s.op = "TakeLast"  -> R(st, st.buf \o <<C(c)>>)                               \* stored values with their own contexts
    [] s.op = "Head"      -> R(st, <<E(ErrHeadEmpty, c)>>)
    [] s.op = "Tail"      -> IF st.buf = <<>> THEN R(st, <<E(ErrTailEmpty, c)>>) ELSE R(st, st.buf \o <<C(c)>>)
    [] s.op = "First"     -> R(st, <<E(ErrFirstEmpty, c)>>)
    [] s.op = "Last"      -> IF st.buf = <<>> THEN R(st, <<E(ErrLastEmpty, c)>>) ELSE R(st, st.buf \o <<C(st.buf[1].c)>>)
    [] s.op = "ElementAt" -> R(st, <<E(ErrElementAtNotFound, c)>>)
    [] s.op = "ElementAtOrDefault" -> R(st, <<N(s.q, c), C(c)>>)
    [] s.op = "All"       -> R(st, <<N(~st.flag, c), C(c)>>)
    [] s.op = "Contains"  -> R(st, <<N(FALSE, c), C(c)>>)
    [] s.op = "DefaultIfEmpty" -> IF st.flag THEN R(st, <<C(c)>>) ELSE R(st, <<N(s.p, BG), C(c)>>)
    [] s.op = "ThrowIfEmpty"   -> IF st.flag THEN R(st, <<C(c)>>) ELSE R([st EXCEPT !.cb = @ + 1], <<E(ErrThrowIfEmpty, c)>>)
    [] s.op = "Count"     -> R(st, <<N(st.n, c), C(c)>>)
    [] s.op = "Sum"       -> R(st, <<N(st.acc, c), C(c)>>)
    \* Average: twelve times the mean (an integer for 1..4 values), NaN (-999) on an empty source (pinned)
    [] s.op = "Average"   -> IF st.n = 0 THEN R(st, <<N(-999, c), C(c)>>) ELSE R(st, <<N((12 * st.acc) \div st.n, c), C(c)>>)
    [] s.op = "Min"       -> IF st.flag THEN R(st, st.buf \o <<C(c)>>) ELSE R(st, <<C(c)>>)
    [] s.op = "Max"       -> IF st.flag THEN R(st, st.buf \o <<C(c)>>) ELSE R(st, <<N(0, c), C(c)>>)   \* value 0 pinned by the test suite; the context must not be nil (C09)
    [] s.op = "Reduce"    -> IF st.n = 0 THEN R(st, <<N(st.acc, c), C(c)>>) ELSE R(st, <<N(st.acc, st.buf[1].c), C(c)>>)
    [] s.op = "Materialize" -> R(st, <<N([k |-> "C", v |-> 0], c), C(c)>>)
    [] s.op = "ToSlice"   -> R(st, <<N(st.buf, c), C(c)>>)
    [] s.op = "ToMap"     -> R(st, <<N(ToMapOf(st.buf), c), C(c)>>)
    [] s.op \in {"Tap", "TapOnComplete"} -> R([st EXCEPT !.cb = @ + 1], <<n>>)
    [] s.op = "ContextWithValue" -> R(st, <<C(c \cup {"mid"})>>)
    [] s.op = "ContextReset" -> R(st, <<C({"rst"})>>)
    [] OTHER -> R(st, <<n>>)

(***************************************************************************)
(* Error                                                                   *)
(***************************************************************************)
OnE(s, st, n) ==
  LET c == n.c IN
  CASE s.op = "OnErrorReturn" -> R(st, <<N(s.p, c), C(c)>>)
    [] s.op = "Materialize"   -> R(st, <<N([k |-> "E", v |-> n.v], c), C(c)>>)
    [] s.op \in {"Tap", "TapOnError"} -> R([st EXCEPT !.cb = @ + 1], <<n>>)
    [] s.op = "ContextWithValue" -> R(st, <<E(n.v, c \cup {"mid"})>>)
    [] s.op = "ContextReset"  -> R(st, <<E(n.v, {"rst"})>>)
    [] OTHER -> R(st, <<n>>)

(***************************************************************************)
(* One notification through one stage.  A closed stage drops everything;   *)
(* a stage closes when it emits a terminal.                                *)
(***************************************************************************)
HasTerminal(out) == \E j \in 1..Len(out) : out[j].k \in {"E", "C"}

OpStep(s, st, n) ==
  IF st.closed THEN R(st, <<>>)
  ELSE LET r == CASE n.k = "N" -> OnN(s, st, n) [] n.k = "E" -> OnE(s, st, n) [] OTHER -> OnC(s, st, n)
       IN IF HasTerminal(r.out) THEN R([r.st EXCEPT !.closed = TRUE], r.out) ELSE r

(***************************************************************************)
(* Static typing of chains (TLC cannot compare an integer with a sequence).*)
(***************************************************************************)
IntOnly == {"Map", "MapErr", "Scan", "Filter", "Distinct", "DistinctBy", "SkipWhile", "TakeWhile", "First", "Last", "Find",
            "Sum", "Min", "Max", "Clamp", "Reduce", "All", "Contains", "StartWith", "EndWith", "DefaultIfEmpty",
            "Ceil", "Floor", "Round", "Trunc", "Abs", "Average", "CeilP1", "FloorP1", "CeilBig", "FloorBig",
            "Cast",                \* the harness instantiates Cast[any, int]: only integers are fed to it (a value of another dynamic type is an Error by definition)
            "ElementAtOrDefault", "OnErrorReturn", "ToMap", "Pairwise"}
TIn(s) == CASE s.op \in IntOnly -> "int" [] s.op = "Flatten" -> "seq" [] s.op = "Dematerialize" -> "notif" [] OTHER -> "any"
TOut(s, t) ==
  CASE s.op \in {"Map", "MapTo", "MapErr", "Scan", "Sum", "Min", "Max", "Clamp", "Reduce", "Count", "Ceil", "Floor", "Round", "Trunc", "Abs", "Average", "CeilP1", "FloorP1", "CeilBig", "FloorBig"} -> "int"
    [] s.op \in {"BufferWithCount", "Pairwise", "ToSlice"} -> "seq"
    [] s.op = "ToMap" -> "map"
    [] s.op \in {"All", "Contains"} -> "bool"
    [] s.op = "Materialize" -> "notif"
    [] s.op \in {"Flatten", "Dematerialize"} -> "int"      \* only ever fed with sequences / notifications of integers here
    [] OTHER -> t
Accepts(s, t) == TIn(s) = "any" \/ TIn(s) = t
=============================================================================
