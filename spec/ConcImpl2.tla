----------------------------- MODULE ConcImpl2 -----------------------------
(***************************************************************************)
(* Level 2, continued (see ConcImpl.tla) - two more operators fed by a     *)
(* source and a second observable, at the grain of the code, under two     *)
(* concurrent sequential producers (operator_filter.go TakeUntil,          *)
(* operator_transformations.go BufferWhen):                                *)
(*                                                                         *)
(*   TakeUntil   source value : Check the `ready` flag; Emit the value      *)
(*               source error : Emit the error                             *)
(*               notifier     : Set the flag; Emit Complete                *)
(*   BufferWhen  source value : append to the buffer under the spinlock    *)
(*               boundary     : Take the buffer under the lock; Emit it    *)
(*               source end   : Take the buffer; Emit it; Emit Complete    *)
(*                                                                         *)
(* Explained (C05, concurrent clause) = at quiescence the output is the    *)
(* definition's output for SOME arrival order.  Expected violations, the   *)
(* design-level form of two known findings:                                *)
(*   ConcImpl2_takeuntil.cfg   values, a suppressed value, then the ERROR  *)
(*                             of the source although the notifier's       *)
(*                             Complete had been decided                   *)
(*                             (takeuntil.flag-then-complete-not-atomic)   *)
(*   ConcImpl2_bufferwhen.cfg  a buffer taken by the boundary is emitted   *)
(*                             after the completion: its values are lost   *)
(*                             (bufferwhen.flush-not-atomic-with-emit)     *)
(* With Atomic = TRUE (decision and emission in one critical section)      *)
(* Explained holds.  NoInvention holds in every configuration.             *)
(***************************************************************************)
EXTENDS Integers, Sequences, FiniteSets, TLC

CONSTANTS Op,       \* "TakeUntil" | "BufferWhen"
          NVals,    \* the source emits 11 .. 10 + NVals, then its terminal (TakeUntil: an Error, BufferWhen: Complete)
          NTicks,   \* notifications of the second observable
          Atomic

E == -1             \* terminals in the observer's log (values are positive; buffers are sequences, the terminal of BufferWhen is <<C>>)
C == -2
Val(i) == 10 + i

VARIABLES pc, idx, ready, buf, tmp, out, done
\* pc[s] / idx[s]: producer s (1 = source, 2 = notifier / boundary) inside its call / next notification; ready: TakeUntil's flag;
\* buf: BufferWhen's buffer; tmp[s]: the buffer taken by s and not yet emitted; out: the observer's log; done: the stream has ended
vars == <<pc, idx, ready, buf, tmp, out, done>>
S == {1, 2}

Init == /\ pc = [s \in S |-> "idle"] /\ idx = [s \in S |-> 1] /\ ready = FALSE /\ buf = <<>> /\ tmp = [s \in S |-> <<>>]
        /\ out = <<>> /\ done = FALSE

Emit(x) == IF done THEN out ELSE Append(out, x)
Last(s) == IF s = 1 THEN NVals + 1 ELSE NTicks          \* the source's last notification is its terminal
Step(s) == idx' = [idx EXCEPT ![s] = @ + 1]

(* --------------------------------- TakeUntil --------------------------------- *)
TUValue ==   \* the source's value: flag check, then emission
  /\ Op = "TakeUntil" /\ pc[1] = "idle" /\ idx[1] <= NVals
  /\ IF Atomic THEN /\ out' = (IF ready THEN out ELSE Emit(Val(idx[1]))) /\ Step(1) /\ UNCHANGED pc
               ELSE /\ pc' = [pc EXCEPT ![1] = IF ready THEN "skip" ELSE "emit"] /\ UNCHANGED <<out, idx>>
  /\ UNCHANGED <<ready, buf, tmp, done>>
TUEmit == /\ Op = "TakeUntil" /\ pc[1] \in {"emit", "skip"}
          /\ out' = IF pc[1] = "emit" THEN Emit(Val(idx[1])) ELSE out
          /\ pc' = [pc EXCEPT ![1] = "idle"] /\ Step(1) /\ UNCHANGED <<ready, buf, tmp, done>>
TUError == /\ Op = "TakeUntil" /\ pc[1] = "idle" /\ idx[1] = NVals + 1
           /\ out' = Emit(E) /\ done' = TRUE /\ Step(1) /\ UNCHANGED <<pc, ready, buf, tmp>>
TUFlag == /\ Op = "TakeUntil" /\ pc[2] = "idle" /\ idx[2] <= NTicks
          /\ ready' = TRUE
          /\ IF Atomic THEN /\ out' = Emit(C) /\ done' = TRUE /\ Step(2) /\ UNCHANGED pc
                       ELSE /\ pc' = [pc EXCEPT ![2] = "complete"] /\ UNCHANGED <<out, done, idx>>
          /\ UNCHANGED <<buf, tmp>>
TUComplete == /\ Op = "TakeUntil" /\ pc[2] = "complete"
              /\ out' = Emit(C) /\ done' = TRUE /\ pc' = [pc EXCEPT ![2] = "idle"] /\ Step(2) /\ UNCHANGED <<ready, buf, tmp>>

(* --------------------------------- BufferWhen -------------------------------- *)
BWValue == /\ Op = "BufferWhen" /\ pc[1] = "idle" /\ idx[1] <= NVals
           /\ buf' = Append(buf, Val(idx[1])) /\ Step(1) /\ UNCHANGED <<pc, ready, tmp, out, done>>
BWTake(s) ==   \* boundary notification (s = 2) or completion of the source (s = 1): the buffer is taken under the lock
  /\ Op = "BufferWhen" /\ pc[s] = "idle" /\ (IF s = 1 THEN idx[1] = NVals + 1 ELSE idx[2] <= NTicks)
  /\ buf' = <<>>
  /\ IF Atomic THEN /\ out' = IF s = 1 THEN (IF done THEN out ELSE out \o <<buf, <<C>>>>) ELSE Emit(buf)
                    /\ done' = (done \/ s = 1) /\ Step(s) /\ UNCHANGED <<pc, tmp>>
               ELSE /\ tmp' = [tmp EXCEPT ![s] = buf] /\ pc' = [pc EXCEPT ![s] = "flush"] /\ UNCHANGED <<out, done, idx>>
  /\ UNCHANGED ready
BWFlush(s) == /\ Op = "BufferWhen" /\ pc[s] = "flush"
              /\ out' = Emit(tmp[s]) /\ tmp' = [tmp EXCEPT ![s] = <<>>]
              /\ IF s = 1 THEN pc' = [pc EXCEPT ![1] = "complete"] /\ UNCHANGED idx
                          ELSE pc' = [pc EXCEPT ![2] = "idle"] /\ Step(2)
              /\ UNCHANGED <<ready, buf, done>>
BWComplete == /\ Op = "BufferWhen" /\ pc[1] = "complete"
              /\ out' = Emit(<<C>>) /\ done' = TRUE /\ pc' = [pc EXCEPT ![1] = "idle"] /\ Step(1) /\ UNCHANGED <<ready, buf, tmp>>

Next == TUValue \/ TUEmit \/ TUError \/ TUFlag \/ TUComplete \/ BWValue \/ BWComplete \/ \E s \in S : BWTake(s) \/ BWFlush(s)
Spec == Init /\ [][Next]_vars

(* --------------------------------- definition --------------------------------- *)
\* calls: <<source, kind, value>>; the sequential definition (MultiDef.tla restricted to these scripts) folded over an arrival order
Calls(s) == IF s = 1 THEN [i \in 1..NVals |-> <<1, "N", Val(i)>>] \o <<<<1, IF Op = "TakeUntil" THEN "E" ELSE "C", 0>>>>
            ELSE [i \in 1..NTicks |-> <<2, "N", 0>>]
RECURSIVE DefTU(_, _, _)
DefTU(calls, acc, fin) ==
  IF calls = <<>> \/ fin THEN acc
  ELSE LET c == Head(calls) IN
       IF c[1] = 1 THEN (IF c[2] = "N" THEN DefTU(Tail(calls), Append(acc, c[3]), FALSE) ELSE DefTU(Tail(calls), Append(acc, E), TRUE))
       ELSE DefTU(Tail(calls), Append(acc, C), TRUE)
RECURSIVE DefBW(_, _, _, _)
DefBW(calls, b, acc, fin) ==
  IF calls = <<>> \/ fin THEN acc
  ELSE LET c == Head(calls) IN
       IF c[1] = 1 THEN (IF c[2] = "N" THEN DefBW(Tail(calls), Append(b, c[3]), acc, FALSE) ELSE DefBW(Tail(calls), <<>>, acc \o <<b, <<C>>>>, TRUE))
       ELSE DefBW(Tail(calls), <<>>, Append(acc, b), FALSE)
RECURSIVE Merges(_, _)
Merges(a, b) == IF a = <<>> THEN {b} ELSE IF b = <<>> THEN {a}
                ELSE {<<Head(a)>> \o m : m \in Merges(Tail(a), b)} \cup {<<Head(b)>> \o m : m \in Merges(a, Tail(b))}
DefOut(o) == IF Op = "TakeUntil" THEN DefTU(o, <<>>, FALSE) ELSE DefBW(o, <<>>, <<>>, FALSE)

Quiet == \A s \in S : pc[s] = "idle" /\ idx[s] > Last(s)
Explained == Quiet => \E o \in Merges(Calls(1), Calls(2)) : DefOut(o) = out

\* nothing is invented: every value in the output was sent by the source (at most once for BufferWhen)
RECURSIVE Flat(_)
Flat(q) == IF q = <<>> THEN <<>> ELSE Head(q) \o Flat(Tail(q))
Sent == {Val(i) : i \in 1..NVals}
NoInvention == IF Op = "TakeUntil" THEN \A j \in 1..Len(out) : out[j] \in Sent \cup {E, C}
               ELSE LET f == Flat(out) IN \A j \in 1..Len(f) : f[j] \in Sent \cup {C} /\ \A k \in 1..Len(f) : (j # k /\ f[j] = f[k]) => f[j] = C
=============================================================================
