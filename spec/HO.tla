--------------------------------- MODULE HO ---------------------------------
(***************************************************************************)
(* Level 1 - reference semantics of the HIGHER-ORDER operators over an     *)
(* ASYNCHRONOUS outer source (C05 / C14 / C03 / C09):                      *)
(*    MergeAll, MergeMap          inner sources subscribed as they arrive  *)
(*    ConcatAll, FlatMap          one inner source at a time; the outer    *)
(*                                notification that introduced it does not *)
(*                                RETURN before that inner source is over  *)
(*    CombineLatestAll, ZipAll    inner sources collected, subscribed when *)
(*                                the outer source completes               *)
(* Source 1 is the outer source: its j-th value introduces inner source j  *)
(* (= source j + 1).  Inner source s emits 10*s + i.  As in Multi.tla one  *)
(* arrival is processed to quiescence; TLC enumerates every script of the  *)
(* outer and inner sources and every interleaving, plus an Unsubscribe at  *)
(* every position; each maximal behaviour is printed as a JSON case and    *)
(* replayed on the real operators over controllable sources (direction A). *)
(*                                                                         *)
(* What the forms of Multi.tla cannot reach: there the outer source is the *)
(* synchronous Just(a, b, ...), so the operator never sees a cut, an error *)
(* or an inner notification while the outer source is still open.          *)
(***************************************************************************)
EXTENDS MultiDef, Json

CONSTANTS HInsts,      \* set of operator instances [op, g]
          MaxInner,    \* inner sources (<= 2)
          MaxSteps, MaxPerSrc,
          Cuts,        \* BOOLEAN: also enumerate an Unsubscribe at every position
          SyncInner,   \* set of choices [j, k]: inner source j ends (k = "C" / "E") SYNCHRONOUSLY, inside its own subscription (j = 0: none)
          Tails        \* downstream stages placed after the operator: "none", "Take1", "Throw1" (MultiDef!TailCut)

Mark(s, j) == IF s = 1 THEN <<"i10", "i11", "i12", "i13">>[j + 1] ELSE IF s = 2 THEN <<"i20", "i21", "i22", "i23">>[j + 1] ELSE <<"i30", "i31", "i32", "i33">>[j + 1]
TMark(s) == <<"t", "t2", "t3">>[s]

Inner == 1..MaxInner
Src(j) == j + 1           \* source index of inner j

VARIABLES m, tail,
          sync, synced,   \* the inner source that ends synchronously while being subscribed / its end has been played
          phase, closed, unsub, log, h, sent,
          ost,        \* outer source: "live" | "ended" (by itself) | "torn" (released by the operator)
          octx,       \* context of the outer completion (MergeAll completes with it)
          intro,      \* number of inner sources introduced so far
          ist,        \* ist[j]: "none" | "held" (collected, not subscribed yet) | "live" | "ended" | "torn"
          nsub,       \* nsub[j]: subscriptions made to inner j
          last, q,    \* CombineLatestAll / ZipAll: latest value / queue per inner
          blk         \* 0, or the inner source whose introducing outer notification is still in flight (ConcatAll / FlatMap)

vars == <<m, tail, sync, synced, phase, closed, unsub, log, h, sent, ost, octx, intro, ist, nsub, last, q, blk>>

Concat == m.op = "ConcatAll"
Collecting == m.op \in {"CombineLatestAll", "ZipAll"}
Introduced == 1..intro
LiveIn == {j \in Inner : ist[j] = "live"}

Obs(d, cl, o2, i2, n2, b2) ==
  [log |-> d, closed |-> cl,
   subs |-> <<1>> \o [j \in Inner |-> n2[j]],
   torn |-> <<IF o2 \in {"ended", "torn"} THEN 1 ELSE 0>> \o [j \in Inner |-> IF i2[j] \in {"ended", "torn"} THEN 1 ELSE 0],
   blk |-> IF b2 = 0 THEN 0 ELSE 1]

Init ==
  /\ m \in HInsts /\ tail \in Tails /\ sync \in SyncInner /\ synced = FALSE
  /\ phase = "new" /\ closed = FALSE /\ unsub = FALSE /\ log = <<>> /\ h = <<>>
  /\ sent = [s \in 1..3 |-> 0]
  /\ ost = "live" /\ octx = SubCtx /\ intro = 0
  /\ ist = [j \in Inner |-> "none"] /\ nsub = [j \in Inner |-> 0]
  /\ last = [j \in Inner |-> <<>>] /\ q = [j \in Inner |-> <<>>]
  /\ blk = 0

Subscribe ==
  /\ phase = "new" /\ phase' = "run"
  /\ h' = Append(h, [do |-> "sub", src |-> 0, n |-> C({}), exp |-> Obs(<<>>, FALSE, ost, ist, nsub, 0)])
  /\ UNCHANGED <<m, tail, sync, synced, closed, unsub, log, sent, ost, octx, intro, ist, nsub, last, q, blk>>

\* the output terminates (or the subscriber leaves): everything still subscribed is released, a blocked outer notification returns
Release(o2, i2) == [o |-> IF o2 = "live" THEN "torn" ELSE o2, i |-> [j \in Inner |-> IF i2[j] = "live" THEN "torn" ELSE i2[j]]]

(* one arrival: r = [o, i, n, last, q, b, out, octx, intro] *)
Eff(o2, i2, n2, l2, q2, b2, out, c2, in2) == [o |-> o2, i |-> i2, n |-> n2, last |-> l2, q |-> q2, b |-> b2, out |-> out, octx |-> c2, intro |-> in2]
Same(out) == Eff(ost, ist, nsub, last, q, blk, out, octx, intro)

OuterStep(n) ==
  LET o1 == IF n.k = "N" THEN ost ELSE "ended" IN
  IF closed \/ ost # "live" THEN Eff(IF ost = "live" THEN o1 ELSE ost, ist, nsub, last, q, blk, <<>>, octx, intro)
  ELSE
  CASE n.k = "E" -> Eff(o1, ist, nsub, last, q, blk, <<n>>, octx, intro)
    [] n.k = "N" ->
         LET j == intro + 1 IN
         IF Collecting THEN Eff(ost, [ist EXCEPT ![j] = "held"], nsub, last, q, blk, <<>>, octx, j)
         ELSE Eff(ost, [ist EXCEPT ![j] = "live"], [nsub EXCEPT ![j] = 1], last, q, IF Concat THEN j ELSE 0, <<>>, octx, j)
    [] OTHER ->   \* the outer source completes
         CASE m.op = "MergeAll" -> Eff(o1, ist, nsub, last, q, blk, IF LiveIn = {} THEN <<C(n.c)>> ELSE <<>>, n.c, intro)
           [] Concat            -> Eff(o1, ist, nsub, last, q, blk, <<C(n.c)>>, n.c, intro)
           [] OTHER             -> \* CombineLatestAll / ZipAll: now the inner sources are subscribed (none: the output completes)
                IF intro = 0 THEN Eff(o1, ist, nsub, last, q, blk, <<C(n.c)>>, n.c, intro)
                ELSE Eff(o1, [j \in Inner |-> IF ist[j] = "held" THEN "live" ELSE ist[j]],
                         [j \in Inner |-> IF ist[j] = "held" THEN 1 ELSE nsub[j]], last, q, blk, <<>>, n.c, intro)

InnerStep(j, n) ==
  LET i1 == IF n.k = "N" THEN ist ELSE [ist EXCEPT ![j] = "ended"]
      b1 == IF n.k # "N" /\ blk = j THEN 0 ELSE blk      \* the inner source is over: the outer notification that introduced it returns
  IN
  IF closed \/ ist[j] # "live" THEN Eff(ost, IF ist[j] = "live" THEN i1 ELSE ist, nsub, last, q, b1, <<>>, octx, intro)
  ELSE
  CASE n.k = "E" -> Eff(ost, i1, nsub, last, q, b1, <<n>>, octx, intro)
    [] m.op = "MergeAll" ->
         IF n.k = "N" THEN Same(<<n>>)
         ELSE Eff(ost, i1, nsub, last, q, b1, IF ost = "ended" /\ LiveIn \ {j} = {} THEN <<C(octx)>> ELSE <<>>, octx, intro)
    [] Concat ->
         IF n.k = "N" THEN Same(<<n>>) ELSE Eff(ost, i1, nsub, last, q, b1, <<>>, octx, intro)
    [] m.op = "CombineLatestAll" ->
         IF n.k = "N"
           THEN LET l2 == [last EXCEPT ![j] = <<n.v>>] IN
                Eff(ost, ist, nsub, l2, q, blk, IF \A x \in Introduced : l2[x] # <<>> THEN <<N([x \in Introduced |-> l2[x][1]], n.c)>> ELSE <<>>, octx, intro)
           ELSE Eff(ost, i1, nsub, last, q, b1, IF \A x \in Introduced : i1[x] = "ended" THEN <<C(n.c)>> ELSE <<>>, octx, intro)
    [] OTHER ->   \* ZipAll
         IF n.k = "N"
           THEN LET q2 == [q EXCEPT ![j] = Append(@, n.v)] IN
                IF \A x \in Introduced : q2[x] # <<>>
                  THEN LET q3 == [x \in Inner |-> IF x \in Introduced THEN Tail(q2[x]) ELSE <<>>]
                           tup == N([x \in Introduced |-> q2[x][1]], n.c)
                       IN Eff(ost, ist, nsub, last, q3, blk,
                              IF \E x \in Introduced : ist[x] = "ended" /\ q3[x] = <<>> THEN <<tup, C(n.c)>> ELSE <<tup>>, octx, intro)
                  ELSE Eff(ost, ist, nsub, last, q2, blk, <<>>, octx, intro)
           ELSE Eff(ost, i1, nsub, last, q, b1, IF q[j] = <<>> THEN <<C(n.c)>> ELSE <<>>, octx, intro)

Apply(s, n, r) ==
  LET tc == TailCut(tail, r.out)
      term == HasTerminal(tc.out)
      rel == IF term THEN Release(r.o, r.i) ELSE [o |-> r.o, i |-> r.i]
      b2 == IF term THEN 0 ELSE r.b
      cl2 == closed \/ term
  IN /\ ost' = rel.o /\ ist' = rel.i /\ nsub' = r.n /\ last' = r.last /\ q' = r.q /\ blk' = b2 /\ octx' = r.octx /\ intro' = r.intro
     /\ closed' = cl2
     /\ log' = log \o tc.out
     /\ h' = Append(h, [do |-> "push", src |-> s, n |-> n, exp |-> Obs(tc.out, cl2, rel.o, rel.i, r.n, b2)])
     /\ sent' = [sent EXCEPT ![s] = @ + 1]
     /\ UNCHANGED <<m, tail, sync, synced, phase, unsub>>

\* The inner source `sync.j` ends inside its own subscription: its terminal is processed IN THE SAME harness step as the outer notification
\* that made the operator subscribe it (the last entry of h is amended, not extended).  While this is pending nothing else may happen.
SyncPending == sync.j # 0 /\ ~synced /\ nsub[sync.j] = 1
SyncNotif == LET s == Src(sync.j) IN IF sync.k = "E" THEN E(s, SubCtx \cup {TMark(s)}) ELSE C(SubCtx \cup {TMark(s)})
\* k = "U": not an end of the inner source - the DOWNSTREAM subscriber unsubscribes while inner source j is being subscribed (a cut in the
\* middle of the operator's subscription phase): everything is released, also what the operator subscribes later in the same phase.
SyncCut ==
  /\ SyncPending /\ sync.k = "U"
  /\ LET rel == Release(ost, ist)
         prev == h[Len(h)]
     IN /\ ost' = rel.o /\ ist' = rel.i /\ blk' = 0
        /\ h' = [h EXCEPT ![Len(h)] = [prev EXCEPT !.exp = Obs(prev.exp.log, TRUE, rel.o, rel.i, nsub, 0)]]
  /\ synced' = TRUE /\ unsub' = TRUE /\ closed' = TRUE
  /\ UNCHANGED <<m, tail, sync, phase, log, sent, octx, intro, nsub, last, q>>

SyncEnd ==
  /\ SyncPending /\ sync.k # "U"
  /\ LET r == InnerStep(sync.j, SyncNotif)
         tc == TailCut(tail, r.out)
         term == HasTerminal(tc.out)
         rel == IF term THEN Release(r.o, r.i) ELSE [o |-> r.o, i |-> r.i]
         b2 == IF term THEN 0 ELSE r.b
         cl2 == closed \/ term
         prev == h[Len(h)]
     IN /\ ost' = rel.o /\ ist' = rel.i /\ nsub' = r.n /\ last' = r.last /\ q' = r.q /\ blk' = b2 /\ octx' = r.octx /\ intro' = r.intro
        /\ closed' = cl2
        /\ log' = log \o tc.out
        /\ h' = [h EXCEPT ![Len(h)] = [prev EXCEPT !.exp = Obs(prev.exp.log \o tc.out, cl2, rel.o, rel.i, r.n, b2)]]
  /\ synced' = TRUE
  /\ sent' = [sent EXCEPT ![Src(sync.j)] = MaxPerSrc]       \* that source has said everything it had to say
  /\ UNCHANGED <<m, tail, sync, phase, unsub>>

PushOuter(n) ==
  /\ phase = "run" /\ ~SyncPending /\ Len(h) <= MaxSteps /\ ost # "ended" /\ sent[1] < MaxPerSrc
  /\ blk = 0                                  \* a producer whose notification has not returned cannot emit the next one
  /\ n.k = "N" => intro < MaxInner
  /\ Apply(1, n, OuterStep(n))

PushInner(j, n) ==
  /\ phase = "run" /\ ~SyncPending /\ Len(h) <= MaxSteps /\ ist[j] \in {"live", "torn"} /\ sent[Src(j)] < MaxPerSrc
  /\ Apply(Src(j), n, InnerStep(j, n))

Unsub ==
  /\ Cuts /\ phase = "run" /\ ~SyncPending /\ ~unsub /\ Len(h) <= MaxSteps
  /\ LET rel == Release(ost, ist) IN
     /\ ost' = rel.o /\ ist' = rel.i /\ blk' = 0
     /\ h' = Append(h, [do |-> "unsub", src |-> 0, n |-> C({}), exp |-> Obs(<<>>, TRUE, rel.o, rel.i, nsub, 0)])
  /\ unsub' = TRUE /\ closed' = TRUE
  /\ UNCHANGED <<m, tail, sync, synced, phase, log, sent, octx, intro, nsub, last, q>>

ONotifs == {N(intro + 1, SubCtx \cup {Mark(1, sent[1])}), E(1, SubCtx \cup {TMark(1)}), C(SubCtx \cup {TMark(1)})}
INotifs(j) == LET s == Src(j) IN {N(10 * s + sent[s], SubCtx \cup {Mark(s, sent[s])}), E(s, SubCtx \cup {TMark(s)}), C(SubCtx \cup {TMark(s)})}

Next == Subscribe \/ SyncEnd \/ SyncCut \/ Unsub \/ (\E n \in ONotifs : PushOuter(n)) \/ (\E j \in Inner : \E n \in INotifs(j) : PushInner(j, n))
Spec == Init /\ [][Next]_vars

NothingLeft == /\ ost = "ended" \/ sent[1] >= MaxPerSrc \/ blk # 0
               /\ \A j \in Inner : ist[j] \notin {"live", "torn"} \/ sent[Src(j)] >= MaxPerSrc
Done == phase = "run" /\ ~SyncPending /\ (Len(h) = MaxSteps + 1 \/ (NothingLeft /\ (~Cuts \/ unsub)))

(* ------------------------------ properties ----------------------------- *)
Grammar == \A x \in 1..Len(log) : x < Len(log) => log[x].k = "N"
\* closed output => nothing left subscribed and no producer left blocked inside the pipeline (C14)
ClosedReleasesAll == closed => (ost # "live" /\ LiveIn = {} /\ blk = 0)
\* ConcatAll / FlatMap: at most one inner source is subscribed at a time (C15)
ConcatOneAtATime == Concat => Cardinality(LiveIn) <= 1
\* collecting operators subscribe no inner source before the outer source completed
CollectFirst == (Collecting /\ ost = "live" /\ ~closed) => LiveIn = {}
TypeOK == blk \in 0..MaxInner /\ intro \in 0..MaxInner /\ (blk # 0 => ist[blk] = "live")

EmitCase == Done => PrintT(ToJson([m |-> m, steps |-> h, tail |-> tail, isync |-> sync]))
=============================================================================
