SPECIFICATION Spec
CONSTANTS
 Op = "TakeUntil"
 NVals = 2
 NTicks = 1
 Atomic = TRUE
INVARIANTS NoInvention Explained
CHECK_DEADLOCK FALSE
