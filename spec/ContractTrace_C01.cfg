SPECIFICATION Spec
CONSTANT Check = {"C01"}
CHECK_DEADLOCK FALSE
