SPECIFICATION Spec
CONSTANTS Vals = {0, 1, 2}
 MaxSteps = 3
 MaxIllegal = 1
 Cuts = TRUE
 ChainSetName = "single"
 SampleN = 0
INVARIANTS TypeOK Grammar ClosedImpliesTorn EmitCase
