SPECIFICATION Spec
CONSTANT Check = {"C07"}
CHECK_DEADLOCK FALSE
