SPECIFICATION Spec
CONSTANTS
 NT = 2
 Repaired = TRUE
INVARIANTS ReleasedWhenWaitReturns ExactlyOnce NonNegative
PROPERTIES Terminates
CHECK_DEADLOCK FALSE
