SPECIFICATION Spec
CONSTANTS Cap = 1
 Len0 = 4
 WithUnsub = FALSE
INVARIANTS FIFO TerminalLast RunAhead CloseOnce NoLoss NoSendOnClosed
