SPECIFICATION Spec
CONSTANTS
 Op = "Zip"
 NVals = 2
 Completes = {1, 2}
 Atomic = TRUE
INVARIANTS OnlySent ZipAligned PerSourceOrder Explained
CHECK_DEADLOCK FALSE
