SPECIFICATION Spec
CONSTANT Check = {"C02"}
CHECK_DEADLOCK FALSE
