---------------------------- MODULE CollectTrace ----------------------------
(***************************************************************************)
(* C06, Collect clause: Collect returns exactly the values the stream      *)
(* delivered, in order, together with its error, never earlier (not before *)
(* the terminal callback has run) and never hanging on a stream that has   *)
(* terminated.  A producer goroutine emits a script into a safe observable *)
(* while the harness blocks in ro.Collect (harness: roverif drive-collect).*)
(*   emit(k,v)     the producer is about to emit (values 1, 2, 3, ...)     *)
(*   emitE         that call returned                                      *)
(*   collected     Collect returned: i = number of values, v = checksum    *)
(*                 (sum of i-th value * i), k = "C" (nil error) | "E"      *)
(***************************************************************************)
EXTENDS Integers, Sequences, FiniteSets, TLC, Json

Trace == ndJsonDeserialize("trace.ndjson")
Starts == {i \in 1..Len(Trace) : Trace[i].e = "hdr"}
VARIABLES l, nvals, sum, term, termRet, done
vars == <<l, nvals, sum, term, termRet, done>>
Ev == Trace[l]
Is(e) == l <= Len(Trace) /\ Ev.e = e

Init == \E i \in Starts : l = i + 1 /\ nvals = 0 /\ sum = 0 /\ term = "none" /\ termRet = FALSE /\ done = FALSE

Step ==
  \/ /\ Is("emit") /\ ~done
     /\ IF Ev.k = "N" /\ term = "none" THEN nvals' = nvals + 1 /\ sum' = sum + Ev.v * (nvals + 1) /\ UNCHANGED term
        ELSE IF term = "none" THEN term' = Ev.k /\ UNCHANGED <<nvals, sum>> ELSE UNCHANGED <<nvals, sum, term>>
     /\ UNCHANGED <<termRet, done>>
  \/ /\ Is("emitE") /\ termRet' = (termRet \/ term # "none") /\ UNCHANGED <<nvals, sum, term, done>>
  \/ /\ Is("collected")
     /\ term # "none"                       \* never earlier: the stream has terminated
     /\ Ev.k = term                         \* together with its error
     /\ Ev.i = nvals /\ Ev.v = sum          \* exactly the values delivered, in order
     /\ done' = TRUE /\ UNCHANGED <<nvals, sum, term, termRet>>
  \/ /\ Is("end") /\ done                    \* never hanging on a stream that has terminated
     /\ PrintT(<<"ACCEPT", Ev.t>>) /\ UNCHANGED <<nvals, sum, term, termRet, done>>

Next == Step /\ l' = l + 1
Spec == Init /\ [][Next]_vars
=============================================================================
