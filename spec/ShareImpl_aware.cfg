SPECIFICATION SpecNoStuckCall
CONSTANTS
 Confs <- AllConfs
 P = {1, 2}
 MaxGen = 3
 MaxObs = 3
 MaxOps = 3
 Aware = {TRUE}
VIEW View
INVARIANTS OneLive NonNegative Grammar Released
CHECK_DEADLOCK TRUE
