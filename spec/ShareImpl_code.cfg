SPECIFICATION Spec
CONSTANTS
 Confs <- AllConfs
 P = {1, 2}
 MaxGen = 3
 MaxObs = 3
 MaxOps = 3
 Aware = {FALSE}
VIEW View
INVARIANTS OneLive NonNegative Grammar
CHECK_DEADLOCK FALSE
