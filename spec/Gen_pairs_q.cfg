SPECIFICATION Spec
CONSTANTS Vals = {0, 1, 2}
 MaxSteps = 3
 MaxIllegal = 1
 Cuts = FALSE
 ChainSetName = "pairs"
 SampleN = 0
INVARIANTS TypeOK Grammar ClosedImpliesTorn EmitCase
