------------------------------- MODULE ConnGen -------------------------------
(* Generator configurations of ConnSeq.tla (direction A, C11). *)
EXTENDS Integers, Sequences, FiniteSets, TLC
CONSTANTS MaxOps
Cf(k, b, rd) == [kind |-> k, buf |-> b, rd |-> rd]
CfgSet == {Cf(c[1], c[2], rd) : c \in {<<"publish", 0>>, <<"behavior", 0>>, <<"replay", 1>>, <<"replay", 2>>}, rd \in BOOLEAN}
VARIABLES cfg, status, mem, obs, conn, total, used, h
S == INSTANCE ConnSeq WITH Cfgs <- CfgSet, Ids <- 1..3
Spec == S!Spec
NothingBeforeConnect == S!NothingBeforeConnect
EmitCase == S!EmitCase
=============================================================================
