----------------------------- MODULE SubjectGen -----------------------------
(* Generator configurations of SubjectSeq.tla (direction A, C10). *)
EXTENDS Integers, Sequences, FiniteSets, TLC
CONSTANTS MaxOps, KindSetName
K(k, b) == [kind |-> k, buf |-> b]
AllKinds == {K("publish", 0), K("behavior", 0), K("replay", 0), K("replay", 1), K("replay", 2), K("replay", -1),
             K("async", 0), K("unicast", 0), K("unicast", 1), K("unicast", 2), K("unicast", -1)}
KindSet == CASE KindSetName = "all" -> AllKinds
             [] KindSetName = "broadcast" -> {k \in AllKinds : k.kind # "unicast"}
             [] OTHER -> {k \in AllKinds : k.kind = KindSetName}
VARIABLES cfg, status, mem, obs, used, selfUnsub, h
S == INSTANCE SubjectSeq WITH Kinds <- KindSet, Ids <- 1..3
Spec == S!Spec
ObserversDropped == S!ObserversDropped
UnicastSingle == S!UnicastSingle
TypeOK == S!TypeOK
EmitCase == S!EmitCase
=============================================================================
