SPECIFICATION TSpec
CONSTANTS
 Confs <- AllConfs
 P = {0, 1, 2, 3}
 MaxGen = 8
 MaxObs = 8
 MaxOps = 99
 Aware = {TRUE}
VIEW TView
CHECK_DEADLOCK FALSE
