-------------------------------- MODULE Prom --------------------------------
(***************************************************************************)
(* C19 - Prometheus instrumentation (ee/plugins/prometheus).  The same     *)
(* chain of catalogue operators is run three times over the same scripted  *)
(* source: plain with counting probes between the operators (mode "ref"),  *)
(* instrumented with the licence active ("on") and inactive ("off")        *)
(* (harness: roverif drive-prom).  The acceptor keeps the counters the     *)
(* definition names and, at the end, requires                              *)
(*   transparency: the observer of the instrumented pipeline saw exactly   *)
(*     what the observer of the plain pipeline saw (values, order,         *)
(*     terminal, context markers) and the source was released as often,    *)
(*     licence on or off;                                                  *)
(*   exact counters (licence on): subscriptions = Subscribe calls,         *)
(*     notifications-in = values emitted by the source, notifications-out  *)
(*     = values emitted by the chain, one lag observation per source       *)
(*     value, one processing-time observation per value leaving operator k;*)
(*   licence off: nothing is exported.                                     *)
(***************************************************************************)
EXTENDS Integers, Sequences, FiniteSets, TLC, Json

Trace == ndJsonDeserialize("trace.ndjson")
Starts == {i \in 1..Len(Trace) : Trace[i].e = "hdr"}
Modes == {"ref", "on", "off"}
Stages == 0..23      \* operator positions (PipeN up to N = 24)

VARIABLES l, subs, srcN, torn, obs, stageOut, metric, proc, nmetricOff
vars == <<l, subs, srcN, torn, obs, stageOut, metric, proc, nmetricOff>>
Ev == Trace[l]
Is(e) == l <= Len(Trace) /\ Ev.e = e

MetricNames == {"subs", "in", "out", "lag", "sa_sub", "sa_next", "sa_err", "sa_comp", "sa_lag"}     \* sa_*: the stand-alone operators
Init == \E i \in Starts : /\ l = i + 1
          /\ subs = [m \in Modes |-> 0] /\ srcN = [m \in Modes |-> 0] /\ torn = [m \in Modes |-> 0]
          /\ obs = [m \in Modes |-> <<>>] /\ stageOut = [k \in Stages |-> 0]
          /\ metric = [n \in MetricNames |-> -1] /\ proc = [k \in Stages |-> -1] /\ nmetricOff = 0

Step ==
  \/ /\ Is("sub") /\ subs' = [subs EXCEPT ![Ev.s] = @ + 1] /\ UNCHANGED <<srcN, torn, obs, stageOut, metric, proc, nmetricOff>>
  \/ /\ Is("src") /\ srcN' = [srcN EXCEPT ![Ev.s] = @ + 1] /\ UNCHANGED <<subs, torn, obs, stageOut, metric, proc, nmetricOff>>
  \/ /\ Is("torn") /\ torn' = [torn EXCEPT ![Ev.s] = @ + 1] /\ UNCHANGED <<subs, srcN, obs, stageOut, metric, proc, nmetricOff>>
  \/ /\ Is("obs") /\ obs' = [obs EXCEPT ![Ev.s] = Append(@, [k |-> Ev.k, v |-> Ev.v, c |-> Ev.i, sb |-> Ev.o])]
     /\ UNCHANGED <<subs, srcN, torn, stageOut, metric, proc, nmetricOff>>
  \/ /\ Is("stage") /\ stageOut' = [stageOut EXCEPT ![Ev.i] = @ + 1] /\ UNCHANGED <<subs, srcN, torn, obs, metric, proc, nmetricOff>>
  \/ /\ Is("metric") /\ Ev.s = "on"
     /\ IF Ev.k = "proc" THEN proc' = [proc EXCEPT ![Ev.i] = Ev.v] /\ UNCHANGED metric
                       ELSE metric' = [metric EXCEPT ![Ev.k] = Ev.v] /\ UNCHANGED proc
     /\ UNCHANGED <<subs, srcN, torn, obs, stageOut, nmetricOff>>
  \/ /\ Is("metric") /\ Ev.s = "off" /\ nmetricOff' = nmetricOff + 1 /\ UNCHANGED <<subs, srcN, torn, obs, stageOut, metric, proc>>
  \/ /\ Is("end")
     \* transparency, licence on and off
     /\ obs["on"] = obs["ref"] /\ obs["off"] = obs["ref"]
     /\ torn["on"] = torn["ref"] /\ torn["off"] = torn["ref"]
     /\ srcN["on"] = srcN["ref"] /\ srcN["off"] = srcN["ref"]
     \* exact counters, licence on (PipeN runs export subs / in / out / lag, stand-alone runs export the sa_* family)
     /\ (metric["sa_sub"] = -1) =>
           /\ metric["subs"] = subs["on"]
           /\ metric["in"] = srcN["on"]
           /\ metric["out"] = Cardinality({j \in 1..Len(obs["on"]) : obs["on"][j].k = "N"})
           /\ metric["lag"] = srcN["on"]
     /\ (metric["sa_sub"] # -1) =>
           /\ metric["sa_sub"] = subs["on"]
           /\ metric["sa_next"] = Cardinality({j \in 1..Len(obs["on"]) : obs["on"][j].k = "N"})
           /\ metric["sa_lag"] = metric["sa_next"]
           /\ metric["sa_err"] = Cardinality({j \in 1..Len(obs["on"]) : obs["on"][j].k = "E"})      \* Error(nil) is an Error
           /\ metric["sa_comp"] = Cardinality({j \in 1..Len(obs["on"]) : obs["on"][j].k = "C"})
     /\ (metric["sa_sub"] = -1) => \A k \in Stages : (stageOut[k] > 0 \/ proc[k] > 0) => proc[k] = stageOut[k]
     \* licence off: nothing is exported
     /\ nmetricOff = 0
     /\ PrintT(<<"ACCEPT", Ev.t>>)
     /\ UNCHANGED <<subs, srcN, torn, obs, stageOut, metric, proc, nmetricOff>>

Next == Step /\ l' = l + 1
Spec == Init /\ [][Next]_vars
=============================================================================
