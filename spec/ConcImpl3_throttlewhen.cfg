SPECIFICATION Spec
CONSTANTS
 Op = "ThrottleWhen"
 NVals = 3
 NTicks = 3
 SrcEnds = {"C", "E"}
 TickEnds = {"C", "E", "none"}
 Variant = "code"
INVARIANTS NoInvention InOrder AtMostOnce Explained
CHECK_DEADLOCK FALSE
