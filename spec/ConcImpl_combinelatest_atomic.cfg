SPECIFICATION Spec
CONSTANTS
 Op = "CombineLatest"
 NVals = 2
 Completes = {}
 Atomic = TRUE
INVARIANTS OnlySent PerSourceOrder Explained
CHECK_DEADLOCK FALSE
