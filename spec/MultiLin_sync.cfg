SPECIFICATION Spec
CONSTANT SyncRet = TRUE
CHECK_DEADLOCK FALSE
