------------------------------ MODULE SubjectLin ------------------------------
(***************************************************************************)
(* C10, concurrent clause: LINEARIZABILITY of the real subjects, decided   *)
(* by TLC.  A history recorded from the real subject (harness: roverif     *)
(* drive-subject) consists of                                              *)
(*    inv(p, op, arg)   thread p invokes Next/Error/Complete/Sub/Unsub     *)
(*    ret(p)            the call returns                                   *)
(*    recv(i, k, v)     subscriber i's callback receives a notification    *)
(* The trace specification consumes these events in order and, between the *)
(* inv and the ret of every call, takes one SILENT step Lin(p) that        *)
(* applies the operation atomically to the sequential definition (the same *)
(* semantics as SubjectSeq.tla).  Lin appends to want[i] what subscriber i *)
(* must receive; recv(i,..) is enabled only if it is the next element of   *)
(* want[i].  A history is accepted iff SOME placement of the Lin steps     *)
(* explains every subscriber's observations - TLC's search over the        *)
(* placements is the linearizability check.                                *)
(*                                                                         *)
(* Relaxation (DESIGN 6/C10): Unsubscribe(i) does not take the subject     *)
(* mutex, so a notification produced by a call that OVERLAPS an            *)
(* Unsubscribe(i) call may or may not reach subscriber i (C06 allows it).  *)
(* Such elements of want[i] are marked forgivable and may be skipped.      *)
(***************************************************************************)
EXTENDS Integers, Sequences, FiniteSets, TLC, Json

P == 0..5          \* threads
Ids == 0..5        \* subscriber ids (subscriber i is created by thread i)

Trace == ndJsonDeserialize("trace.ndjson")
Starts == {i \in 1..Len(Trace) : Trace[i].e = "hdr"}

VARIABLES l,        \* position in Trace
          kind, buf,
          status, mem, obs,
          want,     \* want[i]: sequence of [k, v, by, fg] subscriber i must receive (by = producing thread, fg = forgivable)
          gotn,     \* gotn[i]: how many elements of want[i] have been matched / skipped
          call      \* call[p]: [st |-> "idle"|"inv"|"lin", op, arg]

vars == <<l, kind, buf, status, mem, obs, want, gotn, call>>

Idle == [st |-> "idle", op |-> "", arg |-> 0]
Ev == Trace[l]
Is(e) == l <= Len(Trace) /\ Ev.e = e

Init == \E i \in Starts :
   /\ l = i + 1
   /\ kind = Trace[i].s /\ buf = Trace[i].v
   /\ status = "N"
   /\ mem = IF Trace[i].s = "behavior" THEN <<7>> ELSE <<>>
   /\ obs = {}
   /\ want = [x \in Ids |-> <<>>] /\ gotn = [x \in Ids |-> 0]
   /\ call = [p \in P |-> Idle]

Trim(s, n) == IF n < 0 \/ Len(s) <= n THEN s ELSE SubSeq(s, Len(s) - n + 1, Len(s))
El(k, v, by, fg) == [k |-> k, v |-> v, by |-> by, fg |-> fg]
Term(by) == IF status = "E" THEN <<El("E", 1, by, FALSE)>> ELSE IF status = "C" THEN <<El("C", 0, by, FALSE)>> ELSE <<>>
Vals(s, by) == [j \in 1..Len(s) |-> El("N", s[j], by, FALSE)]

\* an Unsubscribe(i) call is in flight
Unsubbing(i) == \E q \in P : call[q].st # "idle" /\ call[q].op = "unsub" /\ call[q].arg = i

Replay(by) ==
  CASE kind = "publish"  -> Term(by)
    [] kind = "behavior" -> IF status = "N" THEN Vals(mem, by) ELSE Term(by)
    [] kind = "replay"   -> Vals(mem, by) \o Term(by)
    [] kind = "async"    -> IF status = "C" THEN Vals(mem, by) \o Term(by) ELSE Term(by)
    [] OTHER             -> Term(by)      \* unicast: see the known finding (backlog after termination is lost); live backlog below

ToObs(els) == [i \in Ids |-> IF i \in obs THEN want[i] \o [j \in 1..Len(els) |-> [els[j] EXCEPT !.fg = Unsubbing(i)]] ELSE want[i]]

(* the atomic effect of thread p's pending operation *)
Lin(p) ==
  /\ call[p].st = "inv"
  /\ LET op == call[p].op  a == call[p].arg IN
     CASE op = "next" ->
            IF status # "N" THEN UNCHANGED <<status, mem, obs, want>>
            ELSE IF kind \in {"publish", "behavior", "replay"} THEN
                   /\ want' = ToObs(<<El("N", a, p, FALSE)>>)
                   /\ mem' = CASE kind = "behavior" -> <<a>> [] kind = "replay" -> Trim(Append(mem, a), buf) [] OTHER -> mem
                   /\ UNCHANGED <<status, obs>>
            ELSE IF kind = "async" THEN mem' = <<a>> /\ UNCHANGED <<status, obs, want>>
            ELSE \* unicast
                 IF obs # {} THEN want' = ToObs(<<El("N", a, p, FALSE)>>) /\ UNCHANGED <<status, mem, obs>>
                 ELSE mem' = Trim(Append(mem, a), buf) /\ UNCHANGED <<status, obs, want>>
       [] op \in {"error", "complete"} ->
            IF status # "N" THEN UNCHANGED <<status, mem, obs, want>>
            ELSE LET st == IF op = "error" THEN "E" ELSE "C"
                     last == IF kind = "async" /\ st = "C" THEN Vals(mem, p) ELSE <<>>
                     t == IF st = "E" THEN <<El("E", 1, p, FALSE)>> ELSE <<El("C", 0, p, FALSE)>>
                 IN /\ want' = ToObs(last \o t) /\ status' = st /\ obs' = {} /\ UNCHANGED mem
       [] op = "sub" ->
            LET busy == kind = "unicast" /\ obs # {} /\ status = "N"
                r == IF busy THEN <<El("E", 106, p, FALSE)>>
                     ELSE IF kind = "unicast" /\ status = "N" THEN Vals(mem, p) ELSE Replay(p)
            IN /\ want' = [want EXCEPT ![a] = @ \o r]
               /\ obs' = IF status = "N" /\ ~busy THEN obs \cup {a} ELSE obs
               /\ mem' = IF kind = "unicast" /\ ~busy /\ status = "N" THEN <<>> ELSE mem
               /\ UNCHANGED status
       [] op = "unsub" ->
            /\ obs' = obs \ {a} /\ UNCHANGED <<status, mem, want>>
       [] OTHER -> FALSE
  /\ call' = [call EXCEPT ![p].st = "lin"]
  /\ UNCHANGED <<l, kind, buf, gotn>>

Inv ==
  /\ Is("inv") /\ call[Ev.p].st = "idle"
  /\ call' = [call EXCEPT ![Ev.p] = [st |-> "inv", op |-> Ev.s, arg |-> Ev.v]]
  \* an Unsubscribe(i) that starts now overlaps every call still in flight: what those calls produced for i and i has not seen yet may be cut
  /\ want' = IF Ev.s = "unsub"
               THEN [want EXCEPT ![Ev.v] = [j \in 1..Len(@) |-> IF j > gotn[Ev.v] /\ call[@[j].by].st # "idle" THEN [@[j] EXCEPT !.fg = TRUE] ELSE @[j]]]
               ELSE want
  /\ l' = l + 1
  /\ UNCHANGED <<kind, buf, status, mem, obs, gotn>>

Ret ==
  /\ Is("ret") /\ call[Ev.p].st = "lin"
  /\ call' = [call EXCEPT ![Ev.p] = Idle]
  /\ l' = l + 1
  /\ UNCHANGED <<kind, buf, status, mem, obs, want, gotn>>

\* subscriber i observes (k, v): it is the next element of want[i], forgivable elements before it may have been cut
Recv ==
  /\ Is("recv")
  /\ LET i == Ev.o  w == want[i] IN
     \E j \in (gotn[i] + 1)..Len(w) :
        /\ w[j].k = Ev.k /\ w[j].v = Ev.v
        /\ \A j2 \in (gotn[i] + 1)..(j - 1) : w[j2].fg
        /\ gotn' = [gotn EXCEPT ![i] = j]
  /\ l' = l + 1
  /\ UNCHANGED <<kind, buf, status, mem, obs, want, call>>

End ==
  /\ Is("end")
  /\ \A p \in P : call[p].st = "idle"
  \* everything the definition delivered has been observed (except what an overlapping Unsubscribe may have cut)
  /\ \A i \in Ids : \A j \in (gotn[i] + 1)..Len(want[i]) : want[i][j].fg
  /\ PrintT(<<"ACCEPT", Ev.t>>)
  /\ l' = l + 1
  /\ UNCHANGED <<kind, buf, status, mem, obs, want, gotn, call>>

Next == Inv \/ Ret \/ Recv \/ End \/ \E p \in P : Lin(p)

Spec == Init /\ [][Next]_vars
=============================================================================
