----------------------------- MODULE ShareGauge -----------------------------
(***************************************************************************)
(* C11, concurrent clause: traces recorded from the real Share /           *)
(* ShareReplay / connectable observables used from several goroutines      *)
(* (harness: roverif drive-share, free-running with yield hooks and park   *)
(* mode).  The acceptor checks the clauses that need no linearization:     *)
(*   - at most ONE live subscription to the source at any time             *)
(*     (srcSub / srcTd events are logged by the instrumented source);      *)
(*   - every subscriber sees values, then at most one terminal;            *)
(*   - nothing flows before the first Connect of a connectable;            *)
(*   - Share with reset-on-refcount-zero: once every subscriber has        *)
(*     unsubscribed and all threads are joined, the source is released.    *)
(***************************************************************************)
EXTENDS Integers, Sequences, FiniteSets, TLC, Json

Ids == 0..7
Trace == ndJsonDeserialize("trace.ndjson")
Starts == {i \in 1..Len(Trace) : Trace[i].e = "hdr"}

VARIABLES l, mode, live, total, term, connects, released, active
vars == <<l, mode, live, total, term, connects, released, active>>

Ev == Trace[l]
Is(e) == l <= Len(Trace) /\ Ev.e = e

Init == \E i \in Starts : /\ l = i + 1 /\ mode = Trace[i].s
                          /\ live = {} /\ total = 0 /\ term = [x \in Ids |-> FALSE] /\ connects = 0 /\ released = Trace[i].b /\ active = 0

\* A source subscription stops being live when the source emits its own terminal (srcEnd, logged by the harness just before it
\* does) or when its teardown runs (srcTd).  Unsubscription is not atomic (IsClosed turns true before the teardowns run), so the
\* gauge is judged at QUIESCENT points only: whenever no harness call is in flight, at most one source subscription is live.
Step ==
  \/ /\ Is("srcSub")
     /\ (mode = "connectable" => connects > 0)       \* nothing is subscribed upstream before Connect
     /\ live' = live \cup {Ev.i} /\ total' = total + 1 /\ UNCHANGED <<term, connects, active>>
  \/ /\ (Is("srcTd") \/ Is("srcEnd")) /\ live' = live \ {Ev.i} /\ UNCHANGED <<total, term, connects, active>>
  \/ /\ Is("recv") /\ ~term[Ev.o]                    \* grammar per subscriber
     /\ term' = [term EXCEPT ![Ev.o] = Ev.k # "N"] /\ UNCHANGED <<live, total, connects, active>>
  \/ /\ Is("connectB") /\ connects' = connects + 1 /\ UNCHANGED <<live, total, term, active>>
  \/ /\ Is("connectE") /\ UNCHANGED <<live, total, term, connects, active>>
  \/ /\ Is("inv") /\ active' = active + 1 /\ UNCHANGED <<live, total, term, connects>>
  \/ /\ Is("ret") /\ active' = active - 1
     /\ (active' = 0 => Cardinality(live) <= 1)      \* C11: at most one live upstream subscription
     /\ UNCHANGED <<live, total, term, connects>>
  \/ /\ Is("end")
     /\ Cardinality(live) <= 1
     /\ (released => live = {})                      \* every subscriber left and reset-on-zero: upstream released
     /\ PrintT(<<"ACCEPT", Ev.t>>) /\ UNCHANGED <<live, total, term, connects, active>>

Next == Step /\ l' = l + 1 /\ UNCHANGED <<mode, released>>
Spec == Init /\ [][Next]_vars
TypeOK == active >= 0
=============================================================================
