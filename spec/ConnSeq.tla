------------------------------- MODULE ConnSeq -------------------------------
(***************************************************************************)
(* Level 1 - sequential definition of connectable observables (C11):       *)
(* Connectable / ConnectableWithConfig over ONE controllable cold source.   *)
(* Operations: Sub(i), Uns(i) (on the connectable), Connect, Disconnect    *)
(* (= Unsubscribe of the connection), source Next / Error / Complete.      *)
(* Nothing flows before Connect; Connect while connected does not          *)
(* subscribe the source again; disconnecting stops delivery; with          *)
(* ResetOnDisconnect a disconnection (or the end of the source) installs a *)
(* fresh connector subject for later subscribers.                          *)
(***************************************************************************)
EXTENDS Integers, Sequences, FiniteSets, TLC, Json

CONSTANTS Cfgs, MaxOps, Ids
VARIABLES cfg, status, mem, obs, conn, total, used, h
vars == <<cfg, status, mem, obs, conn, total, used, h>>

Nn(v) == [k |-> "N", v |-> v]
Ee(e) == [k |-> "E", v |-> e]
Cc    == [k |-> "C", v |-> 0]
Trim(s, n) == IF n < 0 \/ Len(s) <= n THEN s ELSE SubSeq(s, Len(s) - n + 1, Len(s))
Mem0 == IF cfg.kind = "behavior" THEN <<7>> ELSE <<>>
NoDeliv == [i \in Ids |-> <<>>]
Rec(op, arg, deliv, lv, tot) == [op |-> op, arg |-> arg, deliv |-> deliv, live |-> IF lv THEN 1 ELSE 0, total |-> tot]

Init == /\ cfg \in Cfgs /\ status = "N" /\ mem = Mem0 /\ obs = {} /\ conn = FALSE /\ total = 0 /\ used = {} /\ h = <<>>

Replay ==
  LET term == IF status = "E" THEN <<Ee(1)>> ELSE IF status = "C" THEN <<Cc>> ELSE <<>> IN
  CASE cfg.kind = "publish"  -> term
    [] cfg.kind = "behavior" -> IF status = "N" THEN <<Nn(mem[1])>> ELSE term
    [] OTHER                 -> [j \in 1..Len(mem) |-> Nn(mem[j])] \o term

Sub(i) ==
  /\ Len(h) < MaxOps /\ i \notin used
  /\ obs' = IF status = "N" THEN obs \cup {i} ELSE obs
  /\ h' = Append(h, Rec("sub", i, [x \in Ids |-> IF x = i THEN Replay ELSE <<>>], conn, total))
  /\ used' = used \cup {i}
  /\ UNCHANGED <<cfg, status, mem, conn, total>>

Uns(i) ==
  /\ Len(h) < MaxOps /\ i \in used
  /\ obs' = obs \ {i}
  /\ h' = Append(h, Rec("unsub", i, NoDeliv, conn, total))
  /\ UNCHANGED <<cfg, status, mem, conn, total, used>>

Connect ==
  /\ Len(h) < MaxOps
  /\ conn' = TRUE /\ total' = IF conn THEN total ELSE total + 1      \* Connect while connected does not subscribe again
  /\ h' = Append(h, Rec("connect", 0, NoDeliv, TRUE, total'))
  /\ UNCHANGED <<cfg, status, mem, obs, used>>

\* a fresh connector subject replaces the current one; observers of the old one stay where they are and receive nothing more
Fresh == status' = "N" /\ mem' = Mem0 /\ obs' = {}

Disconnect ==
  /\ Len(h) < MaxOps
  /\ conn' = FALSE
  /\ IF conn /\ cfg.rd THEN Fresh ELSE UNCHANGED <<status, mem, obs>>
  /\ h' = Append(h, Rec("disconnect", 0, NoDeliv, FALSE, total))
  /\ UNCHANGED <<cfg, total, used>>

SrcNext(v) ==
  /\ Len(h) < MaxOps
  /\ IF conn /\ status = "N"
       THEN /\ mem' = CASE cfg.kind = "behavior" -> <<v>> [] cfg.kind = "replay" -> Trim(Append(mem, v), cfg.buf) [] OTHER -> mem
            /\ h' = Append(h, Rec("next", v, [i \in Ids |-> IF i \in obs THEN <<Nn(v)>> ELSE <<>>], conn, total))
       ELSE /\ UNCHANGED mem /\ h' = Append(h, Rec("next", v, NoDeliv, conn, total))
  /\ UNCHANGED <<cfg, status, obs, conn, total, used>>

SrcTerm(st) ==
  /\ Len(h) < MaxOps
  /\ IF ~conn THEN /\ UNCHANGED <<status, mem, obs, conn>> /\ h' = Append(h, Rec(IF st = "E" THEN "error" ELSE "complete", 0, NoDeliv, conn, total))
     ELSE LET t == IF st = "E" THEN <<Ee(1)>> ELSE <<Cc>>
              d == IF status = "N" THEN [i \in Ids |-> IF i \in obs THEN t ELSE <<>>] ELSE NoDeliv
          IN /\ conn' = FALSE
             /\ IF cfg.rd THEN Fresh ELSE (status' = (IF status = "N" THEN st ELSE status) /\ obs' = {} /\ UNCHANGED mem)
             /\ h' = Append(h, Rec(IF st = "E" THEN "error" ELSE "complete", 0, d, FALSE, total))
  /\ UNCHANGED <<cfg, total, used>>

Next ==
  \/ \E i \in Ids : (i = 1 \/ (i - 1) \in used) /\ Sub(i)
  \/ \E i \in Ids : Uns(i)
  \/ Connect \/ Disconnect
  \/ \E v \in {1, 2} : SrcNext(v)
  \/ SrcTerm("E") \/ SrcTerm("C")
Spec == Init /\ [][Next]_vars

NothingBeforeConnect == (total = 0) => \A j \in 1..Len(h) : h[j].op \in {"sub", "unsub", "connect", "disconnect"} \/ h[j].deliv = NoDeliv
Done == Len(h) = MaxOps
EmitCase == Done => PrintT(ToJson([cfg |-> cfg, ops |-> h]))
=============================================================================
