----------------------------- MODULE DetachTrace -----------------------------
(***************************************************************************)
(* Direction B binding of Detach.tla (C08 hand-off clause, C17 channel     *)
(* bridges): traces recorded from the real ObserveOn / SubscribeOn /       *)
(* ToChannel / FromChannel (harness: roverif drive-detach).                *)
(*   prodB(i,k) / prodRet(i)  the producer invokes / returns from its i-th *)
(*                            notification (k = "N", or the terminal)      *)
(*   consB(k,v) / consE       the consumer side starts / ends handling a   *)
(*                            notification (callback, or channel read)     *)
(*   closeSeen                the consumer saw the channel closed          *)
(*   unsubB / unsubE, panic, end                                           *)
(***************************************************************************)
EXTENDS Integers, Sequences, FiniteSets, TLC, Json

Trace == ndJsonDeserialize("trace.ndjson")
Starts == {i \in 1..Len(Trace) : Trace[i].e = "hdr"}

VARIABLES l, op, cap, nvals, inProd, returned, consumed, consTerm, prodTerm, unsB, unsE, closeSeen, inCons
vars == <<l, op, cap, nvals, inProd, returned, consumed, consTerm, prodTerm, unsB, unsE, closeSeen, inCons>>
Ev == Trace[l]
Is(e) == l <= Len(Trace) /\ Ev.e = e

Init == \E i \in Starts : /\ l = i + 1 /\ op = Trace[i].s /\ cap = Trace[i].v /\ nvals = Trace[i].i
          \* "tochannelsync": ToChannel over a synchronous source - the whole script (nvals values, then the terminal Trace[i].k) has been
          \* emitted inside Subscribe; the observer must still get the channel and read all of it (C17)
          /\ inProd = 0 /\ returned = (IF Trace[i].s = "tochannelsync" THEN Trace[i].i ELSE 0) /\ consumed = 0 /\ consTerm = FALSE
          /\ prodTerm = (IF Trace[i].s = "tochannelsync" THEN Trace[i].k ELSE "none")
          /\ unsB = FALSE /\ unsE = FALSE /\ closeSeen = 0 /\ inCons = FALSE

Step ==
  \/ /\ Is("prodB") /\ inProd = 0 /\ Ev.i = returned + 1
     /\ inProd' = Ev.i /\ prodTerm' = IF Ev.k # "N" THEN Ev.k ELSE prodTerm
     /\ UNCHANGED <<returned, consumed, consTerm, unsB, unsE, closeSeen, inCons>>
  \/ /\ Is("prodRet") /\ inProd = Ev.i
     /\ inProd' = 0 /\ returned' = Ev.i
     \* C08: the producer never runs ahead of the consumer by more than the capacity plus the one value each side holds
     /\ (~unsB /\ ~consTerm) => (Ev.i - consumed <= cap + 2)
     /\ UNCHANGED <<consumed, consTerm, prodTerm, unsB, unsE, closeSeen, inCons>>
  \/ /\ Is("consB") /\ ~inCons /\ ~consTerm
     /\ (op \notin {"tochannel", "tochannelsync"}) => ~unsE              \* C06: nothing is delivered once Unsubscribe has returned (what already sits in a Go channel stays readable)
     /\ IF Ev.k = "N"
          THEN /\ Ev.v = consumed + 1             \* FIFO: in order, nothing lost, nothing duplicated
               /\ Ev.v <= returned + (IF inProd # 0 THEN 1 ELSE 0)   \* nothing invented: the value has been emitted
               /\ consumed' = consumed + 1 /\ UNCHANGED consTerm
          ELSE /\ prodTerm = Ev.k                 \* the terminal the producer sent
               /\ consumed = nvals                \* C08/C17: the terminal comes after every queued value
               /\ consTerm' = TRUE /\ UNCHANGED consumed
     /\ inCons' = TRUE
     /\ UNCHANGED <<inProd, returned, prodTerm, unsB, unsE, closeSeen>>
  \/ /\ Is("consE") /\ inCons /\ inCons' = FALSE
     /\ UNCHANGED <<inProd, returned, consumed, consTerm, prodTerm, unsB, unsE, closeSeen>>
  \/ /\ Is("closeSeen")
     \* C17: the channel is closed exactly once, after the terminal notification or on unsubscription
     /\ closeSeen = 0 /\ (consTerm \/ unsB)
     /\ closeSeen' = 1
     /\ UNCHANGED <<inProd, returned, consumed, consTerm, prodTerm, unsB, unsE, inCons>>
  \/ /\ Is("handout") /\ UNCHANGED <<inProd, returned, consumed, consTerm, prodTerm, unsB, unsE, closeSeen, inCons>>
  \/ /\ Is("unsubB") /\ unsB' = TRUE /\ UNCHANGED <<inProd, returned, consumed, consTerm, prodTerm, unsE, closeSeen, inCons>>
  \/ /\ Is("unsubE") /\ unsE' = TRUE /\ UNCHANGED <<inProd, returned, consumed, consTerm, prodTerm, unsB, closeSeen, inCons>>
  \/ /\ Is("end")
     \* without an unsubscription everything that was emitted has been handed over, terminal included
     /\ (~unsB /\ prodTerm # "none") => (consTerm /\ consumed = nvals)
     /\ (~unsB /\ prodTerm = "none") => consumed = returned
     /\ (op \in {"tochannel", "tochannelsync"} /\ (consTerm \/ unsB)) => closeSeen = 1
     /\ PrintT(<<"ACCEPT", Ev.t>>)
     /\ UNCHANGED <<inProd, returned, consumed, consTerm, prodTerm, unsB, unsE, closeSeen, inCons>>
  \* "panic" and "hang" events are explained by no action: a panic escaping to a harness goroutine or a call that never returns rejects the trace

Next == Step /\ l' = l + 1 /\ UNCHANGED <<op, cap, nvals>>
Spec == Init /\ [][Next]_vars
=============================================================================
