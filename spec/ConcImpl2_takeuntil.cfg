SPECIFICATION Spec
CONSTANTS
 Op = "TakeUntil"
 NVals = 2
 NTicks = 1
 Atomic = FALSE
INVARIANTS NoInvention Explained
CHECK_DEADLOCK FALSE
