-------------------------------- MODULE Lift --------------------------------
(***************************************************************************)
(* C18 - data plugins as faithful LIFTS of the functions they wrap.        *)
(* TLA+ is the wrong tool for the wrapped functions themselves (strconv,   *)
(* regexp, time, template, base64, JSON, gob, CSV, sort comparison): they  *)
(* are UNINTERPRETED here.  The harness (roverif drive-lift) calls the     *)
(* wrapped standard-library function directly on every input, interns      *)
(* values as integers (deep equality <=> same id) and logs the graph of    *)
(* the function; this acceptor decides the STREAM-LEVEL laws:              *)
(*   map / maperr : out = lift(f, in): N(f(x)) per input in order, the     *)
(*                  first failing input ends the stream with an Error      *)
(*   filter       : exactly the inputs with f(x) true, in order            *)
(*   sibling      : string and byte flavour agree (fs(x) = fb(x))          *)
(*   roundtrip    : dec(enc(x)) = x                                        *)
(*   sort         : a sorted permutation of the input, stable where said   *)
(*   reader       : the concatenation of the chunks is the input           *)
(*   writer       : a sink (io.Writer, csv.Writer) emits ONE count: the    *)
(*                  weight of the items accepted before the first refusal, *)
(*                  then the Error of the refused write / flush, else      *)
(*                  Complete; a write-through sink hands its writer the    *)
(*                  items up to the refused one and nothing afterwards     *)
(*   no mutation  : inputs and delivered values unchanged at the end       *)
(*   contract     : values, then one terminal; the source is released      *)
(* Events: in(i,v) fx(v -> i, b ok) out(k,v) after(i,v) outafter(i,v)      *)
(*         key(i,v) sib(v,i) rt(v,i) chunk(v len, i hash) src(v len,i hash)*)
(***************************************************************************)
EXTENDS Integers, Sequences, FiniteSets, TLC, Json

Trace == ndJsonDeserialize("trace.ndjson")
Starts == {i \in 1..Len(Trace) : Trace[i].e = "hdr"}

VARIABLES l, kind, stable, ins, fx, outs, keys, term, torn, clen, chash, slen, shash
vars == <<l, kind, stable, ins, fx, outs, keys, term, torn, clen, chash, slen, shash>>
Ev == Trace[l]
Is(e) == l <= Len(Trace) /\ Ev.e = e

Init == \E i \in Starts : /\ l = i + 1 /\ kind = Trace[i].k /\ stable = Trace[i].b
          /\ ins = <<>> /\ fx = <<>> /\ outs = <<>> /\ keys = <<>> /\ term = "none" /\ torn = 0
          /\ clen = 0 /\ chash = 0 /\ slen = -1 /\ shash = -1

F(j) == fx[j]          \* [out, ok] for input j (logged in input order)
\* expected output of a map-like lift: values until the first failure
RECURSIVE LiftOut(_)
LiftOut(j) == IF j > Len(ins) THEN <<>>
              ELSE IF ~F(j).ok THEN <<>> ELSE <<F(j).out>> \o LiftOut(j + 1)
FirstFail == IF \E j \in 1..Len(ins) : ~F(j).ok THEN CHOOSE j \in 1..Len(ins) : ~F(j).ok /\ \A j2 \in 1..(j - 1) : F(j2).ok ELSE 0
RECURSIVE FilterOut(_)
FilterOut(j) == IF j > Len(ins) THEN <<>> ELSE (IF F(j).ok THEN <<ins[j]>> ELSE <<>>) \o FilterOut(j + 1)

\* sinks: ins[j] = weight of item j (bytes of a chunk, 1 per CSV row, 0 for the final flush), fx[j].ok = the wrapped writer accepts it
RECURSIVE SumTo(_)
SumTo(j) == IF j <= 0 THEN 0 ELSE ins[j] + SumTo(j - 1)
Accepted == IF FirstFail = 0 THEN SumTo(Len(ins)) ELSE SumTo(FirstFail - 1)
Handed == IF FirstFail = 0 THEN SumTo(Len(ins)) ELSE SumTo(FirstFail)

IsPerm(a, b) == /\ Len(a) = Len(b)
                /\ \A x \in {a[j] : j \in 1..Len(a)} : Cardinality({j \in 1..Len(a) : a[j] = x}) = Cardinality({j \in 1..Len(b) : b[j] = x})
\* sort: items are identified by their input index (outs = sequence of input indices), keys[i] = rank of the key of input i
Sorted == \A j \in 1..(Len(outs) - 1) : keys[outs[j]] <= keys[outs[j + 1]]
Stable == \A j \in 1..(Len(outs) - 1) : keys[outs[j]] = keys[outs[j + 1]] => outs[j] < outs[j + 1]

Step ==
  \/ /\ Is("in") /\ ins' = Append(ins, Ev.v) /\ UNCHANGED <<fx, outs, keys, term, torn, clen, chash, slen, shash>>
  \/ /\ Is("fx") /\ fx' = Append(fx, [out |-> Ev.i, ok |-> Ev.b]) /\ UNCHANGED <<ins, outs, keys, term, torn, clen, chash, slen, shash>>
  \/ /\ Is("key") /\ keys' = Append(keys, Ev.v) /\ UNCHANGED <<ins, fx, outs, term, torn, clen, chash, slen, shash>>
  \/ /\ Is("out") /\ term = "none"                                                   \* grammar
     /\ IF Ev.k = "N" THEN outs' = Append(outs, Ev.v) /\ UNCHANGED term ELSE term' = Ev.k /\ UNCHANGED outs
     /\ UNCHANGED <<ins, fx, keys, torn, clen, chash, slen, shash>>
  \/ /\ Is("after") /\ ins[Ev.i] = Ev.v                                             \* the operator did not modify the value it was handed
     /\ UNCHANGED <<ins, fx, outs, keys, term, torn, clen, chash, slen, shash>>
  \/ /\ Is("outafter") /\ kind # "sort" /\ outs[Ev.i] = Ev.v                         \* ... nor a value it had already delivered
     /\ UNCHANGED <<ins, fx, outs, keys, term, torn, clen, chash, slen, shash>>
  \/ /\ Is("sib") /\ Ev.v = Ev.i                                                    \* string and byte flavour agree
     /\ UNCHANGED <<ins, fx, outs, keys, term, torn, clen, chash, slen, shash>>
  \/ /\ Is("rt") /\ Ev.v = Ev.i                                                     \* decode(encode(x)) = x
     /\ UNCHANGED <<ins, fx, outs, keys, term, torn, clen, chash, slen, shash>>
  \/ /\ Is("chunk") /\ clen' = clen + Ev.v /\ chash' = Ev.i /\ UNCHANGED <<ins, fx, outs, keys, term, torn, slen, shash>>
  \/ /\ Is("src") /\ slen' = Ev.v /\ shash' = Ev.i /\ UNCHANGED <<ins, fx, outs, keys, term, torn, clen, chash>>
  \* core contract, context: the callback that carried the previous `out` received a context with the marker attached at subscription
  \* and the marker the source attached to its notifications (the plugin operator passes contexts on like any core operator)
  \/ /\ Is("octx") /\ Ev.b /\ UNCHANGED <<ins, fx, outs, keys, term, torn, clen, chash, slen, shash>>
  \/ /\ Is("torn") /\ torn' = torn + 1 /\ UNCHANGED <<ins, fx, outs, keys, term, clen, chash, slen, shash>>
  \/ /\ Is("end")
     /\ torn = 1                                                                       \* the source was released, once
     /\ CASE kind \in {"map", "maperr"} -> /\ outs = LiftOut(1)
                                           /\ term = (IF FirstFail = 0 THEN "C" ELSE "E")
          [] kind = "filter" -> outs = FilterOut(1) /\ term = "C"
          [] kind = "sort"   -> /\ IsPerm(outs, [j \in 1..Len(ins) |-> j]) /\ Sorted /\ (stable => Stable) /\ term = "C"
          \* stable (hdr.b) here: the wrapped reader ends with an error of its own - every byte it handed out before (or together with) that error is delivered first
          [] kind = "reader" -> clen = slen /\ (clen = 0 \/ chash = shash) /\ term = (IF stable THEN "E" ELSE "C")
          [] kind = "writer" -> /\ outs = <<Accepted>>
                                /\ term = (IF FirstFail = 0 THEN "C" ELSE "E")
                                \* write-through sinks (hdr.b): the writer saw exactly the items up to the refused one, nothing after it
                                /\ stable => (clen = Handed /\ clen = slen /\ (clen = 0 \/ chash = shash))
          [] OTHER -> term # "none"
     /\ PrintT(<<"ACCEPT", Ev.t>>)
     /\ UNCHANGED <<ins, fx, outs, keys, term, torn, clen, chash, slen, shash>>

Next == Step /\ l' = l + 1 /\ UNCHANGED <<kind, stable>>
Spec == Init /\ [][Next]_vars
=============================================================================
