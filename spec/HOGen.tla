------------------------------- MODULE HOGen -------------------------------
(* Generator configurations of HO.tla (direction A). *)
EXTENDS Integers, Sequences, FiniteSets, TLC

CONSTANTS MaxInner, MaxSteps, MaxPerSrc, Cuts, InstSetName, TailSetName, SyncSetName

I(op, g) == [op |-> op, g |-> g]
Flat == {I("MergeAll", "MergeAll"), I("MergeAll", "MergeMap"), I("ConcatAll", "ConcatAll"), I("ConcatAll", "FlatMap")}
Coll == {I("CombineLatestAll", "CombineLatestAll"), I("ZipAll", "ZipAll")}
\* the remaining flavours of the projecting operators (index and / or context handed to the projection) and the []any alias of CombineLatestAll:
\* same definitions, each flavour its own entry point
Flavours == {I("MergeAll", "MergeMapI"), I("MergeAll", "MergeMapWithContext"), I("MergeAll", "MergeMapIWithContext"),
             I("ConcatAll", "FlatMapI"), I("ConcatAll", "FlatMapWithContext"), I("ConcatAll", "FlatMapIWithContext"),
             I("CombineLatestAll", "CombineLatestAllAny")}
InstSet == CASE InstSetName = "flat" -> Flat [] InstSetName = "collecting" -> Coll [] InstSetName = "flavours" -> Flavours [] OTHER -> Flat \cup Coll

TailSet == IF TailSetName = "cuts" THEN {"Take1", "Throw1"} ELSE {"none"}

NoSync == {[j |-> 0, k |-> "C"]}
SyncSet == IF SyncSetName = "ends" THEN {[j |-> x, k |-> kk] : x \in 1..MaxInner, kk \in {"C", "E", "U"}} ELSE NoSync

VARIABLES m, tail, sync, synced, phase, closed, unsub, log, h, sent, ost, octx, intro, ist, nsub, last, q, blk
M == INSTANCE HO WITH HInsts <- InstSet, Tails <- TailSet, SyncInner <- SyncSet
Spec == M!Spec
Grammar == M!Grammar
ClosedReleasesAll == M!ClosedReleasesAll
ConcatOneAtATime == M!ConcatOneAtATime
CollectFirst == M!CollectFirst
TypeOK == M!TypeOK
EmitCase == M!EmitCase
=============================================================================
