------------------------------ MODULE MultiLin ------------------------------
(***************************************************************************)
(* C05, concurrent clause: when the sources of a multi-source operator     *)
(* emit truly concurrently, the output must be the definition's output for *)
(* SOME arrival order compatible with each source's own order.             *)
(* A recorded run (harness: roverif drive-multilin, free-running and park  *)
(* mode) consists of  inv(s,k,v) / ret(s)  - the sequential producer of    *)
(* source s invokes / returns from one notification -  and  recv(k,v)  -   *)
(* the observer receives an output (tuples and buffers are encoded as      *)
(* integers, see Enc).  Between the inv and the ret of every call one      *)
(* SILENT step Arrive(s) applies the arrival atomically to the sequential  *)
(* definition (MultiDef!ArriveF) and appends its outputs to `want`; a recv  *)
(* must be the next element of want.  TLC's search over the placements of  *)
(* the Arrive steps decides whether some arrival order explains the run.   *)
(* An output produced by a call that overlaps an Unsubscribe may be cut.   *)
(* With SyncRet (MultiLin_sync.cfg, C08) the return of a call additionally *)
(* requires that the outputs of ITS arrival have been received: the        *)
(* operators deliver on the caller's goroutine, also under contention.     *)
(***************************************************************************)
EXTENDS MultiDef, Json

Trace == ndJsonDeserialize("trace.ndjson")
Starts == {i \in 1..Len(Trace) : Trace[i].e = "hdr"}
S == 1..3
CONSTANT SyncRet   \* TRUE: the C08 clause - when the call of a producer returns, the outputs its arrival gave rise to have been received

VARIABLES l, mm, st, closed, call, want, gotn, unsubbing
vars == <<l, mm, st, closed, call, want, gotn, unsubbing>>
Ev == Trace[l]
Is(e) == l <= Len(Trace) /\ Ev.e = e
Idle == [st |-> "idle", k |-> "N", v |-> 0]

Init == \E i \in Starts :
   /\ l = i + 1 /\ mm = [op |-> Trace[i].s, g |-> Trace[i].s, k |-> Trace[i].v]
   /\ st = [St0 EXCEPT !.live = 1..Trace[i].v, !.subs = 1..Trace[i].v, !.won = IF Trace[i].s = "WindowWhen" THEN 1 ELSE 0] /\ closed = FALSE
   /\ call = [s \in S |-> Idle] /\ gotn = 0
   /\ want = IF Trace[i].s = "WindowWhen" THEN <<[k |-> "N", v |-> 1001, fg |-> FALSE, p |-> 0]>> ELSE <<>>      \* the first window is handed out by Subscribe
   /\ unsubbing = FALSE

\* integer encoding of an output value (the harness uses the same): tuples / buffers of small integers
RECURSIVE Fold(_)
Fold(q) == IF q = <<>> THEN 0 ELSE q[1] + 100 * Fold(Tail(q))
TupleOut == mm.op \in {"CombineLatest", "Zip", "BufferWhen"}
Enc(val) == IF TupleOut THEN Len(val) + 10 * Fold(val) ELSE val

Inv == /\ Is("inv") /\ call[Ev.p].st = "idle"
       /\ call' = [call EXCEPT ![Ev.p] = [st |-> "inv", k |-> Ev.k, v |-> Ev.v]]
       /\ l' = l + 1 /\ UNCHANGED <<mm, st, closed, want, gotn, unsubbing>>

Arrive(s) ==
   /\ call[s].st = "inv"
   /\ LET n == [k |-> call[s].k, v |-> call[s].v, c |-> {}]
          a == ArriveF(mm, st, closed, s, n)
          outs == [j \in 1..Len(a.out) |-> [k |-> a.out[j].k, v |-> IF a.out[j].k = "N" THEN Enc(a.out[j].v) ELSE IF a.out[j].k \in {"I", "IC", "IE"} THEN a.out[j].v ELSE 0, fg |-> unsubbing, p |-> s]]
      IN /\ st' = a.st /\ closed' = a.closed /\ want' = want \o outs
   /\ call' = [call EXCEPT ![s].st = "lin"]
   /\ UNCHANGED <<l, mm, gotn, unsubbing>>

Ret == /\ Is("ret") /\ call[Ev.p].st = "lin"
       \* C08: Next returns after downstream is done - whatever output the notification gave rise to has been delivered by then
       /\ SyncRet => \A j \in (gotn + 1)..Len(want) : want[j].p = Ev.p => want[j].fg
       /\ call' = [call EXCEPT ![Ev.p] = Idle]
       /\ l' = l + 1 /\ UNCHANGED <<mm, st, closed, want, gotn, unsubbing>>

Recv == /\ Is("recv")
        /\ \E j \in (gotn + 1)..Len(want) :
              /\ want[j].k = Ev.k /\ (Ev.k \in {"N", "I", "IC", "IE"} => want[j].v = Ev.v)
              /\ \A j2 \in (gotn + 1)..(j - 1) : want[j2].fg
              /\ gotn' = j
        /\ l' = l + 1 /\ UNCHANGED <<mm, st, closed, call, want, unsubbing>>

\* Unsubscribe: from its invocation on, outputs may be cut; once it has taken effect nothing more is produced
UnsubB == /\ Is("unsubB") /\ unsubbing' = TRUE
          /\ want' = [j \in 1..Len(want) |-> IF j > gotn /\ \E s \in S : call[s].st # "idle" THEN [want[j] EXCEPT !.fg = TRUE] ELSE want[j]]
          /\ l' = l + 1 /\ UNCHANGED <<mm, st, closed, call, gotn>>
UnsubE == /\ Is("unsubE") /\ closed' = TRUE /\ st' = [st EXCEPT !.done = TRUE, !.live = {}]
          /\ l' = l + 1 /\ UNCHANGED <<mm, call, want, gotn, unsubbing>>

End == /\ Is("end")
       /\ \A s \in S : call[s].st = "idle"
       /\ \A j \in (gotn + 1)..Len(want) : want[j].fg           \* nothing the definition delivered is missing
       /\ PrintT(<<"ACCEPT", Ev.t>>)
       /\ l' = l + 1 /\ UNCHANGED <<mm, st, closed, call, want, gotn, unsubbing>>

Next == Inv \/ Ret \/ Recv \/ UnsubB \/ UnsubE \/ End \/ \E s \in S : Arrive(s)
Spec == Init /\ [][Next]_vars
=============================================================================
