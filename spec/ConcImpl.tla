------------------------------ MODULE ConcImpl ------------------------------
(***************************************************************************)
(* Level 2 - two multi-source operators at the grain of the code, driven   *)
(* by two concurrent sequential producers (operator_combining.go):         *)
(*                                                                         *)
(*   CombineLatest2  lock-free: Store the value in the source's atomic     *)
(*                   slot; Load the other slot; Emit the pair through the  *)
(*                   destination (whose own lock serialises the emissions) *)
(*   Zip2            Push: lock, append to the source's queue, unlock;     *)
(*                   Pop: lock, take one value of each queue, UNLOCK;      *)
(*                   Emit the tuple; Check: lock, complete if a completed  *)
(*                   source's queue is empty, unlock.  Complete(s): lock,  *)
(*                   mark, if the queue is empty unlock and complete       *)
(*                                                                         *)
(* Both follow the library's rule "never call downstream while holding the *)
(* operator's own lock".  C05 asks for the output of SOME arrival order of *)
(* the calls (each producer's own order kept): Explained.  TLC shows what  *)
(* the rule costs - these are the counterexamples behind the known         *)
(* findings combinelatest.stale-or-duplicate-pair and zip.completion-      *)
(* overtakes-emission, which MultiLin.tla reports on recorded runs of the  *)
(* real operators:                                                         *)
(*   ConcImpl_combinelatest.cfg  Explained violated: (11,20) after (11,21) *)
(*   ConcImpl_zip.cfg            Explained violated: a completion decided  *)
(*                               between Pop and Emit overtakes the tuple  *)
(* and that emitting inside the critical section (Atomic = TRUE) is what   *)
(* would restore it (ConcImpl_*_atomic.cfg: Explained and PerSourceOrder   *)
(* hold).  OnlySent and ZipAligned hold in every configuration.            *)
(***************************************************************************)
EXTENDS Integers, Sequences, FiniteSets, TLC

CONSTANTS Op,        \* "CombineLatest" | "Zip"
          NVals,     \* values per producer: producer s emits 10*s + 1 .. 10*s + NVals
          Completes, \* set of producers that complete after their values (Zip)
          Atomic     \* TRUE: the whole call is one critical section (emission included)

S == {1, 2}
Other(s) == 3 - s
Val(s, i) == 10 * s + i

VARIABLES pc, idx, slot, loaded, q, comp, mu, pend, out, done, order
\* pc[s]: where producer s is inside its current call; idx[s]: next value; slot: CombineLatest's atomic slots (0 = nil);
\* loaded[s]: the other slot as read by s; q: Zip's queues; comp: Zip's completed flags; mu: Zip's mutex holder (0 = free);
\* pend[s]: the tuple popped by s and not yet emitted; out: what the observer received; done: the stream was completed;
\* order: the calls in the order of their FIRST step (one candidate arrival order; Explained quantifies over all)
vars == <<pc, idx, slot, loaded, q, comp, mu, pend, out, done, order>>

Init == /\ pc = [s \in S |-> "idle"] /\ idx = [s \in S |-> 1] /\ slot = [s \in S |-> 0] /\ loaded = [s \in S |-> 0]
        /\ q = [s \in S |-> <<>>] /\ comp = [s \in S |-> FALSE] /\ mu = 0 /\ pend = [s \in S |-> <<>>]
        /\ out = <<>> /\ done = FALSE /\ order = <<>>

Emit(x) == IF done THEN out ELSE Append(out, x)          \* a closed destination drops

(* ------------------------------ CombineLatest2 ------------------------------ *)
Pair(s, mine, theirs) == IF s = 1 THEN <<mine, theirs>> ELSE <<theirs, mine>>
CLStore(s) == /\ Op = "CombineLatest" /\ pc[s] = "idle" /\ idx[s] <= NVals
              /\ slot' = [slot EXCEPT ![s] = Val(s, idx[s])] /\ order' = Append(order, <<s, "N", Val(s, idx[s])>>)
              /\ IF Atomic
                   THEN /\ out' = IF slot[Other(s)] # 0 THEN Emit(Pair(s, Val(s, idx[s]), slot[Other(s)])) ELSE out
                        /\ idx' = [idx EXCEPT ![s] = @ + 1] /\ UNCHANGED <<pc, loaded>>
                   ELSE /\ pc' = [pc EXCEPT ![s] = "load"] /\ UNCHANGED <<out, idx, loaded>>
              /\ UNCHANGED <<q, comp, mu, pend, done>>
CLLoad(s) == /\ pc[s] = "load" /\ loaded' = [loaded EXCEPT ![s] = slot[Other(s)]] /\ pc' = [pc EXCEPT ![s] = "emit"]
             /\ UNCHANGED <<idx, slot, q, comp, mu, pend, out, done, order>>
CLEmit(s) == /\ pc[s] = "emit" /\ Op = "CombineLatest"
             /\ out' = IF loaded[s] # 0 THEN Emit(Pair(s, Val(s, idx[s]), loaded[s])) ELSE out
             /\ pc' = [pc EXCEPT ![s] = "idle"] /\ idx' = [idx EXCEPT ![s] = @ + 1]
             /\ UNCHANGED <<slot, loaded, q, comp, mu, pend, done, order>>

(* ----------------------------------- Zip2 ----------------------------------- *)
ZDrained(qq, cc) == \E s \in S : cc[s] /\ qq[s] = <<>>
\* the whole call in one critical section (Atomic): push, pop + emit, completion check
ZAtomic(s) == /\ Op = "Zip" /\ Atomic /\ pc[s] = "idle" /\ idx[s] <= NVals /\ mu = 0
              /\ order' = Append(order, <<s, "N", Val(s, idx[s])>>)
              /\ LET q1 == [q EXCEPT ![s] = Append(@, Val(s, idx[s]))]
                     both == q1[1] # <<>> /\ q1[2] # <<>>
                     q2 == IF both THEN [t \in S |-> Tail(q1[t])] ELSE q1
                     o1 == IF both THEN Emit(<<Head(q1[1]), Head(q1[2])>>) ELSE out
                 IN /\ q' = q2 /\ out' = o1
                    /\ done' = (done \/ (both /\ ZDrained(q2, comp)))
              /\ idx' = [idx EXCEPT ![s] = @ + 1] /\ UNCHANGED <<pc, slot, loaded, comp, mu, pend>>
ZPush(s) == /\ Op = "Zip" /\ ~Atomic /\ pc[s] = "idle" /\ idx[s] <= NVals /\ mu = 0
            /\ q' = [q EXCEPT ![s] = Append(@, Val(s, idx[s]))] /\ order' = Append(order, <<s, "N", Val(s, idx[s])>>)
            /\ pc' = [pc EXCEPT ![s] = "pop"] /\ UNCHANGED <<idx, slot, loaded, comp, mu, pend, out, done>>
ZPop(s) == /\ pc[s] = "pop" /\ mu = 0
           /\ IF q[1] # <<>> /\ q[2] # <<>>
                THEN /\ pend' = [pend EXCEPT ![s] = <<Head(q[1]), Head(q[2])>>] /\ q' = [t \in S |-> Tail(q[t])]
                     /\ pc' = [pc EXCEPT ![s] = "emit"] /\ UNCHANGED idx
                ELSE /\ pc' = [pc EXCEPT ![s] = "idle"] /\ idx' = [idx EXCEPT ![s] = @ + 1] /\ UNCHANGED <<pend, q>>
           /\ UNCHANGED <<slot, loaded, comp, mu, out, done, order>>
ZEmit(s) == /\ pc[s] = "emit" /\ Op = "Zip"
            /\ out' = Emit(pend[s]) /\ pend' = [pend EXCEPT ![s] = <<>>] /\ pc' = [pc EXCEPT ![s] = "check"]
            /\ UNCHANGED <<idx, slot, loaded, q, comp, mu, done, order>>
ZCheck(s) == /\ pc[s] = "check" /\ mu = 0
             /\ done' = (done \/ ZDrained(q, comp))
             /\ pc' = [pc EXCEPT ![s] = "idle"] /\ idx' = [idx EXCEPT ![s] = @ + 1]
             /\ UNCHANGED <<slot, loaded, q, comp, mu, pend, out, order>>
ZComplete(s) == /\ Op = "Zip" /\ s \in Completes /\ pc[s] = "idle" /\ idx[s] = NVals + 1 /\ mu = 0
                /\ comp' = [comp EXCEPT ![s] = TRUE] /\ order' = Append(order, <<s, "C", 0>>)
                /\ done' = (done \/ q[s] = <<>>)
                /\ idx' = [idx EXCEPT ![s] = @ + 1]
                /\ UNCHANGED <<pc, slot, loaded, q, mu, pend, out>>

Next == \E s \in S : CLStore(s) \/ CLLoad(s) \/ CLEmit(s) \/ ZAtomic(s) \/ ZPush(s) \/ ZPop(s) \/ ZEmit(s) \/ ZCheck(s) \/ ZComplete(s)
Spec == Init /\ [][Next]_vars

(* --------------------------------- definition --------------------------------- *)
\* the sequential definition (MultiDef.tla, restricted to what is modelled here) folded over an arrival order
RECURSIVE DefCL(_, _, _)
DefCL(calls, last, acc) ==
  IF calls = <<>> THEN acc
  ELSE LET c == Head(calls)
           l2 == [last EXCEPT ![c[1]] = c[3]]
       IN DefCL(Tail(calls), l2, IF l2[1] # 0 /\ l2[2] # 0 THEN Append(acc, <<l2[1], l2[2]>>) ELSE acc)
RECURSIVE DefZip(_, _, _, _, _)
DefZip(calls, qq, cc, acc, fin) ==
  IF calls = <<>> \/ fin THEN [out |-> acc, done |-> fin]
  ELSE LET c == Head(calls) IN
       IF c[2] = "C"
         THEN DefZip(Tail(calls), qq, [cc EXCEPT ![c[1]] = TRUE], acc, qq[c[1]] = <<>>)
         ELSE LET q1 == [qq EXCEPT ![c[1]] = Append(@, c[3])]
                  both == q1[1] # <<>> /\ q1[2] # <<>>
                  q2 == IF both THEN [t \in S |-> Tail(q1[t])] ELSE q1
              IN DefZip(Tail(calls), q2, cc, IF both THEN Append(acc, <<Head(q1[1]), Head(q1[2])>>) ELSE acc, both /\ ZDrained(q2, cc))

\* every arrival order compatible with each producer's own order
Calls(s) == [i \in 1..NVals |-> <<s, "N", Val(s, i)>>] \o (IF Op = "Zip" /\ s \in Completes THEN <<<<s, "C", 0>>>> ELSE <<>>)
RECURSIVE Merges(_, _)
Merges(a, b) == IF a = <<>> THEN {b} ELSE IF b = <<>> THEN {a}
                ELSE {<<Head(a)>> \o m : m \in Merges(Tail(a), b)} \cup {<<Head(b)>> \o m : m \in Merges(a, Tail(b))}
Z0 == [s \in S |-> <<>>]
DefOut(o) == IF Op = "CombineLatest" THEN [out |-> DefCL(o, [s \in S |-> 0], <<>>), done |-> FALSE]
             ELSE DefZip(o, Z0, [s \in S |-> FALSE], <<>>, FALSE)

Quiet == \A s \in S : pc[s] = "idle" /\ idx[s] > NVals + (IF Op = "Zip" /\ s \in Completes THEN 1 ELSE 0)
\* C05, concurrent clause: at quiescence the output is the definition's output for SOME arrival order
Explained == Quiet => \E o \in Merges(Calls(1), Calls(2)) : DefOut(o).out = out /\ DefOut(o).done = done

\* what the code does keep, whatever the schedule
Sent(s) == {Val(s, i) : i \in 1..NVals}
PerSourceOrder == \A s \in S : \A i, j \in 1..Len(out) : i < j => out[i][s] <= out[j][s]
OnlySent == \A j \in 1..Len(out) : out[j][1] \in Sent(1) /\ out[j][2] \in Sent(2)
\* Zip never pairs a value twice, and pairs the k-th value of one source with the k-th of the other
ZipAligned == Op = "Zip" => \A j \in 1..Len(out) : out[j][1] % 10 = out[j][2] % 10
=============================================================================
