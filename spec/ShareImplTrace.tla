--------------------------- MODULE ShareImplTrace ---------------------------
(***************************************************************************)
(* Direction B binding for ShareImpl.tla (C11): a run recorded from the    *)
(* real Share used from several goroutines (harness: roverif drive-share   *)
(* -shareonly, free-running and park mode) must be a behaviour of the      *)
(* lock-grain model.  The harness logs only what is observable from        *)
(* outside - inv / ret of every call, srcSub / srcTd / srcEnd of the       *)
(* instrumented source, the terminal each observer receives - and TLC      *)
(* searches the placements of the internal steps (silent: the event        *)
(* register stays "none"); every step that emits an event must be the next *)
(* line of the trace.  A release of the source that the model does not     *)
(* produce, a missing one, a terminal delivered twice or to the wrong      *)
(* observer, a second live subscription: no placement explains the run.    *)
(* The cfg fixes Aware = {TRUE}: the counter per generation of the code    *)
(* (fix 75994e7); a run that only the former single counter explains is    *)
(* rejected.                                                               *)
(***************************************************************************)
EXTENDS ShareImpl, Json

Trace == ndJsonDeserialize("trace.ndjson")
Starts == {i \in 1..Len(Trace) : Trace[i].e = "hdr" /\ Trace[i].s = "share"}
VARIABLE l
tvars == <<vars, l>>
Line == Trace[l]

\* hdr.v = 4 * ResetOnError + 2 * ResetOnComplete + ResetOnRefCountZero
ConfOf(v) == [re |-> (v \div 4) % 2 = 1, rc |-> (v \div 2) % 2 = 1, rz |-> v % 2 = 1]

TInit == \E i \in Starts : l = i + 1 /\ Init /\ conf = ConfOf(Trace[i].v)

Match(e, ln) ==
  CASE e.e = "inv" -> ln.e = "inv" /\ ln.p = e.p /\ ln.s = e.k /\ (e.k = "sub" => ln.o + 1 = e.i)
    [] e.e = "ret" -> ln.e = "ret" /\ ln.p = e.p
    [] e.e \in {"srcSub", "srcTd", "srcEnd"} -> ln.e = e.e /\ ln.i + 1 = e.i
    [] e.e = "recv" -> ln.e = "recv" /\ ln.o + 1 = e.i /\ ln.k = e.k
    [] OTHER -> FALSE

\* the model's steps: the internal ones, and the calls the trace announces
ModelStep == \E p \in P : \/ Internal(p)
                          \/ StartUnsub(p) \/ StartTerm(p, "E") \/ StartTerm(p, "C") \/ StartNext(p)
                          \/ \E o \in Obs : StartSub(p, o)

TNext ==
  \/ /\ ModelStep /\ ev' = NoEv /\ l' = l                                   \* internal step, nothing observable
  \/ /\ l <= Len(Trace) /\ ModelStep /\ ev' # NoEv /\ Match(ev', Line) /\ l' = l + 1
  \/ /\ l <= Len(Trace) /\ Line.e = "recv" /\ Line.k = "N" /\ l' = l + 1 /\ UNCHANGED vars     \* values: the grammar is ShareGauge's business
  \/ /\ l <= Len(Trace) /\ Line.e = "end" /\ Quiet /\ PrintT(<<"ACCEPT", Line.t>>) /\ l' = l + 1 /\ UNCHANGED vars

TSpec == TInit /\ [][TNext]_tvars
TView == <<View, l>>
=============================================================================
