------------------------------ MODULE Catalog ------------------------------
(***************************************************************************)
(* The catalogue of operator instances the generators enumerate: for each  *)
(* machine of Ops.tla its flavours (plain / I / WithContext /              *)
(* IWithContext), aliases (g = name of the exported Go constructor) and    *)
(* boundary parameter values.  /verif/harness/internal/cat maps g to the   *)
(* real constructor; `roverif audit` lists exported constructors of        *)
(* package ro that are not in the catalogue.                               *)
(***************************************************************************)
EXTENDS Ops

Suffix(f) == CASE f = "" -> "" [] f = "I" -> "I" [] f = "C" -> "WithContext" [] OTHER -> "IWithContext"
Inst(op, g, f, p, q) == [op |-> op, g |-> g, f |-> f, p |-> p, q |-> q]
Plain(op, P)      == {Inst(op, op, "", p, 0) : p \in P}
Flav4(op, P)      == {Inst(op, op \o Suffix(f), f, p, 0) : f \in {"", "I", "C", "IC"}, p \in P}
Flav2(op, P)      == {Inst(op, op \o Suffix(f), f, p, 0) : f \in {"", "C"}, p \in P}
Alias(op, g, f, P) == {Inst(op, g, f, p, 0) : p \in P}

Transformations ==
  Flav4("Map", {0}) \cup Plain("MapTo", {5}) \cup Flav4("MapErr", {0}) \cup Flav4("Scan", {0, 3})
  \* the projecting higher-order operators over a projection that returns a synchronous one-value observable ARE Map (HO.tla decides them over
  \* asynchronous inner sources); every flavour is its own entry point: index handed to the projection (I), context returned by it (C)
  \cup Alias("Map", "MergeMap", "", {0}) \cup Alias("Map", "MergeMapI", "I", {0}) \cup Alias("Map", "MergeMapWithContext", "", {0}) \cup Alias("Map", "MergeMapIWithContext", "IC", {0})
  \cup Alias("Map", "FlatMap", "", {0}) \cup Alias("Map", "FlatMapI", "I", {0}) \cup Alias("Map", "FlatMapWithContext", "", {0}) \cup Alias("Map", "FlatMapIWithContext", "I", {0})
  \cup Plain("BufferWithCount", {1, 2, 3}) \cup Plain("Pairwise", {0}) \cup Plain("StartWith", {0, 1, 2}) \cup Plain("EndWith", {0, 1, 2})
Filters ==
  Flav4("Filter", {0}) \cup Plain("Distinct", {0}) \cup Flav2("DistinctBy", {0}) \cup Plain("IgnoreElements", {0})
  \cup Plain("Skip", {0, 1, 2, 3}) \cup Flav4("SkipWhile", {0}) \cup Plain("SkipLast", {1, 2, 3})
  \cup Plain("Take", {0, 1, 2, 3}) \cup Flav4("TakeWhile", {0}) \cup Plain("TakeLast", {0, 1, 2, 3})
  \cup Plain("Head", {0}) \cup Plain("Tail", {0}) \cup Flav4("First", {0}) \cup Flav4("Last", {0})
  \cup Plain("ElementAt", {0, 1, 2, 3}) \cup {Inst("ElementAtOrDefault", "ElementAtOrDefault", "", p, 9) : p \in {0, 1, 3}}
Conditionals ==
  Flav4("All", {0}) \cup Flav4("Contains", {0}) \cup Flav4("Find", {0}) \cup Plain("DefaultIfEmpty", {9})
Maths ==
  Plain("Count", {0}) \cup Plain("Sum", {0}) \cup Plain("Min", {0}) \cup Plain("Max", {0})
  \cup {Inst("Clamp", "Clamp", "", 1, 1), Inst("Clamp", "Clamp", "", 0, 1), Inst("Clamp", "Clamp", "", 1, 2)}
  \cup Flav4("Reduce", {0, 3})
  \cup Plain("Ceil", {0}) \cup Plain("Floor", {0}) \cup Plain("Round", {0}) \cup Plain("Trunc", {0}) \cup Plain("Abs", {0}) \cup Plain("Average", {0})
  \cup Plain("CeilP1", {0}) \cup Plain("FloorP1", {0}) \cup Plain("CeilBig", {0}) \cup Plain("FloorBig", {0})
Errors == Plain("OnErrorReturn", {9}) \cup Plain("ThrowIfEmpty", {0})
Utilities ==
  Flav2("Tap", {0}) \cup Flav2("TapOnNext", {0}) \cup Flav2("TapOnError", {0}) \cup Flav2("TapOnComplete", {0})
  \cup Alias("Tap", "Do", "", {0}) \cup Alias("Tap", "DoWithContext", "C", {0})
  \cup Alias("TapOnNext", "DoOnNext", "", {0}) \cup Alias("TapOnNext", "DoOnNextWithContext", "C", {0})
  \cup Alias("TapOnError", "DoOnError", "", {0}) \cup Alias("TapOnError", "DoOnErrorWithContext", "C", {0})
  \cup Alias("TapOnComplete", "DoOnComplete", "", {0}) \cup Alias("TapOnComplete", "DoOnCompleteWithContext", "C", {0})
  \cup Flav2("TapOnSubscribe", {0}) \cup Alias("TapOnSubscribe", "DoOnSubscribe", "", {0}) \cup Alias("TapOnSubscribe", "DoOnSubscribeWithContext", "C", {0})
  \cup Plain("TapOnFinalize", {0}) \cup Alias("TapOnFinalize", "DoOnFinalize", "", {0})
  \cup Plain("Materialize", {0}) \cup Plain("Serialize", {0}) \cup Plain("Cast", {0}) \cup Plain("TimeInterval", {0}) \cup Plain("Timestamp", {0})
Sinks == Plain("ToSlice", {0}) \cup Flav4("ToMap", {0})
Contexts == Plain("ContextWithValue", {0}) \cup Plain("ContextReset", {0}) \cup Plain("ContextMap", {0}) \cup Alias("ContextMap", "ContextMapI", "I", {0})
              \cup Plain("ContextWithTimeout", {0}) \cup Plain("ContextWithDeadline", {0})

AllInsts == Transformations \cup Filters \cup Conditionals \cup Maths \cup Errors \cup Utilities \cup Sinks \cup Contexts

\* operators that need a non-integer input are only reachable behind a producer of that type
SeqConsumers == Plain("Flatten", {0})
NotifConsumers == Plain("Dematerialize", {0})

Chains1 == {<<s>> : s \in AllInsts}
WellTyped2(a, b) == Accepts(b, TOut(a, "int"))
\* representative second stages (one instance per machine, plain flavour) to keep pairs tractable
Rep == {s \in AllInsts \cup SeqConsumers \cup NotifConsumers : s.f = "" /\ s.g = s.op /\ s.p = (CHOOSE p \in {x.p : x \in {y \in AllInsts \cup SeqConsumers \cup NotifConsumers : y.op = s.op /\ y.f = ""}} : TRUE)}
Chains2 == {<<a, b>> : a \in Rep, b \in Rep} 
Chains2T == {ch \in Chains2 : Accepts(ch[1], "int") /\ WellTyped2(ch[1], ch[2])}
=============================================================================
