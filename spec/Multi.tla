------------------------------- MODULE Multi -------------------------------
(***************************************************************************)
(* Level 1 - reference semantics of the MULTI-SOURCE operators (C05):      *)
(* one arrival from one source, processed to quiescence, gives the         *)
(* outputs and the control effects on the inputs (which sources are        *)
(* released).  TLC enumerates every tuple of source scripts and EVERY      *)
(* interleaving of them simply by the nondeterminism of Push(src, n); each *)
(* maximal behaviour is printed as a JSON case and replayed on the real    *)
(* operator over controllable sources (direction A).                       *)
(*                                                                         *)
(* An operator instance is  m = [op, g, k]  (g = Go constructor, k = number*)
(* of sources).  Source 1 is the "main" source of the operator forms       *)
(* (TakeUntil(sig)(src): 1 = src, 2 = sig / boundary / tick).              *)
(* Values are distinguishable per source (source s emits 10*s + j).        *)
(***************************************************************************)
EXTENDS MultiDef, Json

CONSTANTS Insts,       \* set of operator instances
          MaxSteps,    \* harness actions after Subscribe
          MaxPerSrc,   \* notifications per source (terminal included)
          Cuts,        \* BOOLEAN: also enumerate an Unsubscribe at every position
          SyncEnds,    \* set of choices [s, k] for a source that ends (k = "C" / "E") SYNCHRONOUSLY, inside its own subscription (s = 0: none):
                       \* the other sources must be handled as if the terminal had arrived right after Subscribe (C14: nothing is leaked)
          Tails,       \* set of downstream stages placed after the operator: "none", "Take1", "Throw1" (C14: an early-terminating downstream)
          PanicSrcs    \* set of choices for the source whose teardown panics (0 = none): C03, a panicking teardown does not stop the others

\* item marker of the j-th value of source s ("i<10*s+j>") and terminal marker of source s ("t", "t2", ...): the harness attaches the same
ItemDigits == <<"0", "1", "2", "3", "4", "5">>
SrcDigits == <<"1", "2", "3", "4", "5", "6">>
Mark(s, j) == "i" \o SrcDigits[s] \o ItemDigits[j + 1]
TMark(s) == IF s = 1 THEN "t" ELSE "t" \o SrcDigits[s]

VARIABLES m,        \* the operator instance
          st,       \* operator state (record below)
          phase, closed, unsub, log, h,
          sent,     \* sent[s]: notifications source s has emitted so far
          psrc,     \* the source whose teardown panics (0 = none); it changes nothing in what must be observed
          tail,     \* the downstream stage of this case
          sync      \* the source that ends synchronously while being subscribed ([s |-> 0] = none)

vars == <<m, st, phase, closed, unsub, log, h, sent, psrc, sync, tail>>
Srcs == 1..m.k

Obs(d, cl, s2) == [log |-> d, closed |-> cl,
                   subs |-> [x \in Srcs |-> IF x \in s2.subs THEN 1 ELSE 0],
                   torn |-> [x \in Srcs |-> IF x \in s2.torn \cup s2.ended THEN 1 ELSE 0]]

Init ==
  /\ m \in Insts
  /\ st = St0 /\ phase = "new" /\ closed = FALSE /\ unsub = FALSE /\ log = <<>> /\ h = <<>>
  /\ sent = [s \in 1..MaxK |-> 0]
  /\ psrc \in {x \in PanicSrcs : x <= m.k}
  /\ sync \in {x \in SyncEnds : x.s <= m.k /\ (x.k = "V" => (x.s >= 2 /\ m.op \in {"Merge", "CombineLatest", "Zip", "Race"}))}
  /\ tail \in (IF m.op \in {"WindowWhen", "GroupBy", "GroupByLeave", "GroupByCut"} THEN {"none"} ELSE Tails)

\* k = "V": while source sync.s is being subscribed, the FIRST source (already subscribed: these operators subscribe in order) emits its first value
SyncFrom == IF sync.k = "V" THEN 1 ELSE sync.s
SyncNotif == CASE sync.k = "E" -> E(sync.s, SubCtx \cup {TMark(sync.s)})
               [] sync.k = "V" -> N(10, SubCtx \cup {Mark(1, 0)})
               [] OTHER -> C(SubCtx \cup {TMark(sync.s)})

\* the downstream stage sees the outputs of one arrival; when it terminates the stream every source still live is released at once
Cut(a) ==
  LET t == TailCut(tail, a.out) IN
  IF ~t.cut THEN a
  ELSE [st |-> [a.st EXCEPT !.done = TRUE, !.torn = @ \cup (a.st.live \ a.st.ended), !.live = {}], out |-> t.out, closed |-> TRUE]

Subscribe ==
  /\ phase = "new"
  /\ LET s2 == SubStF(m, [st EXCEPT !.live = Srcs, !.subs = Srcs]) IN
     IF sync.s = 0
       THEN /\ st' = s2
            /\ log' = log \o SubOutF(m)
            /\ h' = Append(h, [do |-> "sub", src |-> 0, n |-> C({}), exp |-> Obs(SubOutF(m), FALSE, s2)])
            /\ UNCHANGED closed
       ELSE IF sync.k = "U"
       THEN \* the DOWNSTREAM subscriber unsubscribes while source sync.s is being subscribed (a cut in the middle of the operator's
            \* subscription phase): everything is released, also what the operator subscribes later in the same phase
            LET s3 == [s2 EXCEPT !.done = TRUE, !.torn = @ \cup (s2.live \ s2.ended), !.live = {}] IN
            /\ st' = s3
            /\ log' = log \o SubOutF(m)
            /\ closed' = TRUE
            /\ h' = Append(h, [do |-> "sub", src |-> sync.s, n |-> C({}), exp |-> Obs(SubOutF(m), TRUE, s3)])
       ELSE \* the terminal of the synchronous source is processed with every source subscribed (a source the operator no longer needs
            \* may also never be subscribed at all - the replayer accepts both; what it never accepts is a source left subscribed)
            LET a == Cut(ArriveF(m, s2, FALSE, SyncFrom, SyncNotif)) IN
            /\ st' = a.st
            /\ log' = log \o SubOutF(m) \o a.out
            /\ closed' = a.closed
            /\ h' = Append(h, [do |-> "sub", src |-> sync.s, n |-> SyncNotif, exp |-> Obs(SubOutF(m) \o a.out, a.closed, a.st)])
  /\ phase' = "run"
  /\ sent' = IF sync.k = "V" THEN [sent EXCEPT ![1] = 1] ELSE sent
  /\ UNCHANGED <<m, unsub, psrc, sync, tail>>

Push(s, n) ==
  /\ phase = "run" /\ Len(h) <= MaxSteps /\ s \in Srcs
  /\ s \notin st.ended /\ sent[s] < MaxPerSrc
  /\ LET a == Cut(ArriveF(m, st, closed, s, n))
     IN /\ st' = a.st
        /\ log' = log \o a.out
        /\ closed' = a.closed
        /\ h' = Append(h, [do |-> "push", src |-> s, n |-> n, exp |-> Obs(a.out, a.closed, a.st)])
  /\ sent' = [sent EXCEPT ![s] = @ + 1]
  /\ UNCHANGED <<m, phase, unsub, psrc, sync, tail>>

Unsub ==
  /\ Cuts /\ phase = "run" /\ ~unsub /\ sync.k # "U" /\ Len(h) <= MaxSteps
  /\ LET s2 == [st EXCEPT !.done = TRUE, !.torn = @ \cup (st.live \ st.ended), !.live = {}] IN
     /\ st' = s2
     /\ h' = Append(h, [do |-> "unsub", src |-> 0, n |-> C({}), exp |-> Obs(IF closed THEN <<>> ELSE UnsubOutF(m, st), TRUE, s2)])
     /\ log' = log \o (IF closed THEN <<>> ELSE UnsubOutF(m, st))
  /\ unsub' = TRUE /\ closed' = TRUE
  /\ UNCHANGED <<m, phase, sent, psrc, sync, tail>>

Notifs(s) == {N(10 * s + sent[s], SubCtx \cup {Mark(s, sent[s])}), E(s, SubCtx \cup {TMark(s)}), C(SubCtx \cup {TMark(s)})}

Next == Subscribe \/ Unsub \/ \E s \in Srcs : \E n \in Notifs(s) : Push(s, n)
Spec == Init /\ [][Next]_vars

Done == phase = "run" /\ (Len(h) = MaxSteps + 1 \/ ((\A s \in Srcs : s \in st.ended \/ sent[s] >= MaxPerSrc) /\ (~Cuts \/ unsub \/ sync.k = "U")))

(* ------------------------------ properties ----------------------------- *)
\* (inner deliveries of higher-order outputs, kinds "I" / "IC", are not part of the outer grammar)
Outer == SelectSeq(log, LAMBDA x : x.k \in {"N", "E", "C"})
Grammar == \A j \in 1..Len(Outer) : j < Len(Outer) => Outer[j].k = "N"
\* closed output => every source released
ClosedReleasesAll == closed => st.live = {}
TypeOK == st.live \cap st.torn = {} /\ st.live \cap st.ended = {}

EmitCase == Done => PrintT(ToJson([m |-> m, steps |-> h, panic |-> psrc, sync |-> sync.s, synck |-> sync.k, tail |-> tail]))
=============================================================================
