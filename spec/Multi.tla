------------------------------- MODULE Multi -------------------------------
(***************************************************************************)
(* Level 1 - reference semantics of the MULTI-SOURCE operators (C05):      *)
(* one arrival from one source, processed to quiescence, gives the         *)
(* outputs and the control effects on the inputs (which sources are        *)
(* released).  TLC enumerates every tuple of source scripts and EVERY      *)
(* interleaving of them simply by the nondeterminism of Push(src, n); each *)
(* maximal behaviour is printed as a JSON case and replayed on the real    *)
(* operator over controllable sources (direction A).                       *)
(*                                                                         *)
(* An operator instance is  m = [op, g, k]  (g = Go constructor, k = number*)
(* of sources).  Source 1 is the "main" source of the operator forms       *)
(* (TakeUntil(sig)(src): 1 = src, 2 = sig / boundary / tick).              *)
(* Values are distinguishable per source (source s emits 10*s + j).        *)
(***************************************************************************)
EXTENDS Integers, Sequences, FiniteSets, TLC, Json

CONSTANTS Insts,       \* set of operator instances
          MaxSteps,    \* harness actions after Subscribe
          MaxPerSrc,   \* notifications per source (terminal included)
          Cuts         \* BOOLEAN: also enumerate an Unsubscribe at every position

N(v, c) == [k |-> "N", v |-> v, c |-> c]
E(e, c) == [k |-> "E", v |-> e, c |-> c]
C(c)    == [k |-> "C", v |-> 0, c |-> c]
SubCtx == {"sub"}
Mark(s, j) == IF s = 1 THEN <<"i10", "i11", "i12", "i13">>[j + 1] ELSE IF s = 2 THEN <<"i20", "i21", "i22", "i23">>[j + 1] ELSE <<"i30", "i31", "i32", "i33">>[j + 1]
TMark(s) == <<"t", "t2", "t3">>[s]

VARIABLES m,        \* the operator instance
          st,       \* operator state (record below)
          phase, closed, unsub, log, h,
          sent      \* sent[s]: notifications source s has emitted so far

vars == <<m, st, phase, closed, unsub, log, h, sent>>
Srcs == 1..m.k

\* live: subscribed and neither ended by itself nor released by the operator
St0 == [live |-> {}, ended |-> {}, torn |-> {}, subs |-> {}, done |-> FALSE,
        last |-> [s \in 1..3 |-> <<>>],   \* CombineLatest / SampleWhen: latest notification per source (<<>> = none)
        q |-> [s \in 1..3 |-> <<>>],      \* Zip: queue per source
        won |-> 0, flag |-> FALSE, buf |-> <<>>]

R(s, out) == [st |-> s, out |-> out]
Others(s) == Srcs \ {s}
AllEnded(s2) == s2.ended = Srcs

(* one arrival n from source s, for an operator that has not terminated *)
MStep(s, n) ==
  LET c == n.c  v == n.v
      ended1 == [st EXCEPT !.ended = @ \cup {s}]          \* the source ended by itself
  IN
  CASE m.op = "Merge" ->
         CASE n.k = "N" -> R(st, <<n>>)
           [] n.k = "E" -> R(ended1, <<n>>)
           [] OTHER     -> IF AllEnded(ended1) THEN R(ended1, <<C(SubCtx)>>) ELSE R(ended1, <<>>)   \* completion carries the outer completion context
    [] m.op = "CombineLatest" ->
         CASE n.k = "N" -> LET l2 == [st.last EXCEPT ![s] = <<n>>] s2 == [st EXCEPT !.last = l2] IN
                           IF \A x \in Srcs : l2[x] # <<>> THEN R(s2, <<N([x \in Srcs |-> l2[x][1].v], c)>>) ELSE R(s2, <<>>)
           [] n.k = "E" -> R(ended1, <<n>>)
           [] OTHER     -> IF AllEnded(ended1) THEN R(ended1, <<C(c)>>) ELSE R(ended1, <<>>)
    [] m.op = "Zip" ->
         CASE n.k = "N" -> LET q2 == [st.q EXCEPT ![s] = Append(@, v)] IN
                           IF \A x \in Srcs : q2[x] # <<>>
                             THEN LET q3 == [x \in 1..3 |-> IF x \in Srcs THEN Tail(q2[x]) ELSE <<>>]
                                      tup == N([x \in Srcs |-> q2[x][1]], c)
                                  \* completes once a finished source's queue is drained
                                  IN IF \E x \in Srcs : x \in st.ended /\ q3[x] = <<>>
                                       THEN R([st EXCEPT !.q = q3], <<tup, C(c)>>) ELSE R([st EXCEPT !.q = q3], <<tup>>)
                             ELSE R([st EXCEPT !.q = q2], <<>>)
           [] n.k = "E" -> R(ended1, <<n>>)
           [] OTHER     -> IF st.q[s] = <<>> THEN R(ended1, <<C(c)>>) ELSE R(ended1, <<>>)
    [] m.op = "Race" ->
         IF st.won = 0
           THEN R([(IF n.k = "N" THEN st ELSE ended1) EXCEPT !.won = s, !.torn = @ \cup (st.live \ {s}), !.live = @ \cap {s}], <<n>>)
           ELSE R(IF n.k = "N" THEN st ELSE ended1, <<n>>)            \* only the winner is still live
    [] m.op = "TakeUntil" ->
         IF s = 1 THEN R(IF n.k = "N" THEN st ELSE ended1, <<n>>)
         ELSE IF n.k = "N" THEN R(st, <<C(c)>>) ELSE R(ended1, <<>>)   \* the notifier's own terminal is ignored (pinned)
    [] m.op = "SkipUntil" ->
         IF s = 1 THEN IF n.k = "N" THEN (IF st.flag THEN R(st, <<n>>) ELSE R(st, <<>>)) ELSE R(ended1, <<n>>)
         ELSE IF n.k = "N" THEN R([st EXCEPT !.flag = TRUE], <<>>) ELSE R(ended1, <<>>)
    [] m.op = "BufferWhen" ->
         CASE n.k = "E" -> R(ended1, <<n>>)
           [] n.k = "C" -> R(ended1, <<N(st.buf, c), C(c)>>)                 \* source or boundary completion flushes the rest (pinned)
           [] s = 1     -> R([st EXCEPT !.buf = Append(@, v)], <<>>)
           [] OTHER     -> R([st EXCEPT !.buf = <<>>], <<N(st.buf, c)>>)      \* boundary: emit the (possibly empty) buffer
    [] m.op = "SampleWhen" ->
         CASE n.k = "E" -> R(ended1, <<n>>)
           [] n.k = "C" -> R(ended1, <<n>>)                                  \* a pending sample is dropped (pinned)
           [] s = 1     -> R([st EXCEPT !.last[1] = <<n>>], <<>>)
           [] OTHER     -> IF st.last[1] # <<>> THEN R([st EXCEPT !.last[1] = <<>>], st.last[1]) ELSE R(st, <<>>)
    [] m.op = "ThrottleWhen" ->
         CASE n.k = "E" -> R(ended1, <<n>>)
           [] n.k = "C" -> R(ended1, <<n>>)
           [] s = 1     -> IF st.flag THEN R([st EXCEPT !.flag = FALSE], <<n>>) ELSE R(st, <<>>)
           [] OTHER     -> R([st EXCEPT !.flag = TRUE], <<>>)
    [] OTHER -> Assert(FALSE, <<"Multi: unknown operator", m.op>>)

HasTerminal(out) == \E j \in 1..Len(out) : out[j].k \in {"E", "C"}

Obs(d, cl, s2) == [log |-> d, closed |-> cl,
                   subs |-> [x \in Srcs |-> IF x \in s2.subs THEN 1 ELSE 0],
                   torn |-> [x \in Srcs |-> IF x \in s2.torn \cup s2.ended THEN 1 ELSE 0]]

Init ==
  /\ m \in Insts
  /\ st = St0 /\ phase = "new" /\ closed = FALSE /\ unsub = FALSE /\ log = <<>> /\ h = <<>>
  /\ sent = [s \in 1..3 |-> 0]

Subscribe ==
  /\ phase = "new"
  /\ LET s2 == [st EXCEPT !.live = Srcs, !.subs = Srcs] IN
     /\ st' = s2
     /\ h' = Append(h, [do |-> "sub", src |-> 0, n |-> C({}), exp |-> Obs(<<>>, FALSE, s2)])
  /\ phase' = "run"
  /\ UNCHANGED <<m, closed, unsub, log, sent>>

Push(s, n) ==
  /\ phase = "run" /\ Len(h) <= MaxSteps /\ s \in Srcs
  /\ s \notin st.ended /\ sent[s] < MaxPerSrc
  /\ LET active == s \in st.live /\ ~st.done
         r == IF active THEN MStep(s, n) ELSE R(IF n.k = "N" THEN st ELSE [st EXCEPT !.ended = @ \cup {s}], <<>>)
         d == IF closed THEN <<>> ELSE r.out
         term == HasTerminal(d)
         \* an error or a completion of the output releases every other source at once (C05 / C14)
         s2 == IF term THEN [r.st EXCEPT !.done = TRUE, !.torn = @ \cup (r.st.live \ r.st.ended), !.live = {}]
                       ELSE [r.st EXCEPT !.live = @ \ r.st.ended]
     IN /\ st' = s2
        /\ log' = log \o d
        /\ closed' = (closed \/ term)
        /\ h' = Append(h, [do |-> "push", src |-> s, n |-> n, exp |-> Obs(d, closed \/ term, s2)])
  /\ sent' = [sent EXCEPT ![s] = @ + 1]
  /\ UNCHANGED <<m, phase, unsub>>

Unsub ==
  /\ Cuts /\ phase = "run" /\ ~unsub /\ Len(h) <= MaxSteps
  /\ LET s2 == [st EXCEPT !.done = TRUE, !.torn = @ \cup (st.live \ st.ended), !.live = {}] IN
     /\ st' = s2
     /\ h' = Append(h, [do |-> "unsub", src |-> 0, n |-> C({}), exp |-> Obs(<<>>, TRUE, s2)])
  /\ unsub' = TRUE /\ closed' = TRUE
  /\ UNCHANGED <<m, phase, log, sent>>

Notifs(s) == {N(10 * s + sent[s], SubCtx \cup {Mark(s, sent[s])}), E(s, SubCtx \cup {TMark(s)}), C(SubCtx \cup {TMark(s)})}

Next == Subscribe \/ Unsub \/ \E s \in Srcs : \E n \in Notifs(s) : Push(s, n)
Spec == Init /\ [][Next]_vars

Done == phase = "run" /\ (Len(h) = MaxSteps + 1 \/ ((\A s \in Srcs : s \in st.ended \/ sent[s] >= MaxPerSrc) /\ (~Cuts \/ unsub)))

(* ------------------------------ properties ----------------------------- *)
Grammar == \A j \in 1..Len(log) : j < Len(log) => log[j].k = "N"
\* closed output => every source released
ClosedReleasesAll == closed => st.live = {}
TypeOK == st.live \cap st.torn = {} /\ st.live \cap st.ended = {}

EmitCase == Done => PrintT(ToJson([m |-> m, steps |-> h]))
=============================================================================
