SPECIFICATION Spec
CONSTANT Check = {"C03"}
CHECK_DEADLOCK FALSE
