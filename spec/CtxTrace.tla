------------------------------ MODULE CtxTrace ------------------------------
(***************************************************************************)
(* C09 clause for the operators that STORE or HAND OFF notifications and   *)
(* are driven by the free-running drivers (direction B): ObserveOn,        *)
(* SubscribeOn, ToChannel, FromChannel (drive-detach) and Delay, DelayEach,*)
(* Timeout, ThrottleTime, SampleTime, BufferWithTime(OrCount), Interval,   *)
(* Timer (drive-timed).                                                    *)
(*                                                                         *)
(* The harness subscribes with a context that carries the subscription     *)
(* marker and emits value i with a context that additionally carries the   *)
(* item marker i.  Every callback event of the recorded trace (consB,      *)
(* recv, handout) has the field b = "the context this callback received    *)
(* carries the subscription marker, and - for a value that passes through  *)
(* unchanged - the item marker of that very value".  The acceptor consumes *)
(* the trace event by event and has no step for a callback with b = FALSE. *)
(***************************************************************************)
EXTENDS Integers, Sequences, TLC, Json

Trace == ndJsonDeserialize("trace.ndjson")
Starts == {i \in 1..Len(Trace) : Trace[i].e = "hdr"}
Callbacks == {"consB", "recv", "handout"}

VARIABLES l, ncb
vars == <<l, ncb>>
Ev == Trace[l]

Init == \E i \in Starts : l = i + 1 /\ ncb = 0

Next ==
  /\ l <= Len(Trace) /\ Ev.e # "hdr"
  /\ IF Ev.e \in Callbacks THEN Ev.b /\ ncb' = ncb + 1 ELSE UNCHANGED ncb
  /\ (Ev.e = "end") => PrintT(<<"ACCEPT", Ev.t>>)
  /\ l' = l + 1

Spec == Init /\ [][Next]_vars
=============================================================================
