SPECIFICATION Spec
CONSTANT Check = {"C06"}
CHECK_DEADLOCK FALSE
