------------------------------ MODULE Creation ------------------------------
(***************************************************************************)
(* Level 1 - the SYNCHRONOUS CREATION operators (C04, C09, C12):           *)
(*   Of / Just(values...), Range(a, b), RangeWithStep(a, b, step),         *)
(*   Repeat(item, count), FromSlice(collections...), Empty, Throw(err),    *)
(*   Start(cb), Defer(factory), Future(factory)                            *)
(* as functions from their parameters to the script they emit.  A case is  *)
(* an instance, an optional downstream Take(n) (n = -1: none) and the      *)
(* number of times the same observable value is subscribed; the expected   *)
(* observation of EVERY subscription is the same script (a creation        *)
(* operator is a recipe: nothing carries over), cut after n values by      *)
(* Take(n), and the user function of Start / Defer / Future is called      *)
(* exactly once per subscription.                                          *)
(*                                                                         *)
(* Floats: RangeWithStep works in HALVES (a, b integers; step2 = 2 * step; *)
(* emitted values are printed doubled), so that TLC's integers suffice.    *)
(***************************************************************************)
EXTENDS Integers, Sequences, FiniteSets, TLC, Json

CONSTANTS MaxTake,      \* Take(n) for n in -1..MaxTake
          MaxSubs

\* every notification of a creation operator carries the subscription context (C09)
Nn(v) == [k |-> "N", v |-> v, c |-> {"sub"}]
Ee(e) == [k |-> "E", v |-> e, c |-> {"sub"}]
Cc    == [k |-> "C", v |-> 0, c |-> {"sub"}]

Abs(x) == IF x < 0 THEN -x ELSE x
Sign(a, b) == IF a > b THEN -1 ELSE 1

\* [a : b) with step st (all in the same unit), ascending or descending; empty when a = b
RECURSIVE Steps(_, _, _, _)
Steps(cur, b, st, sg) == IF cur * sg < b * sg THEN <<cur>> \o Steps(cur + st * sg, b, st, sg) ELSE <<>>

Vals(s) == [j \in 1..Len(s) |-> Nn(s[j])]
RECURSIVE Flat(_)
Flat(cs) == IF cs = <<>> THEN <<>> ELSE Head(cs) \o Flat(Tail(cs))

SmallSeqs == {<<>>, <<1>>, <<2, 1>>, <<1, 1, 2>>}
Collections == {<<>>, <<<<>>>>, <<<<1>>>>, <<<<1, 2>>, <<>>, <<2>>>>, <<<<>>, <<2, 1>>>>}

\* an instance: operator, integer arguments a, slice arguments cs (FromSlice only)
I(op, a) == [op |-> op, a |-> a, cs |-> <<>>]
Insts ==
       {I("Of", s) : s \in SmallSeqs} \cup {I("Just", s) : s \in SmallSeqs}
  \cup {I("Range", <<x, y>>) : x \in -2..3, y \in -2..3}
  \cup {I("RangeWithStep", <<x, y, st2>>) : x \in -2..2, y \in -2..2, st2 \in {1, 2, 3, 4, 6}}
  \cup {I("Repeat", <<7, c>>) : c \in 0..3}
  \cup {[op |-> "FromSlice", a |-> <<>>, cs |-> cs] : cs \in Collections}
  \cup {I("Empty", <<>>), I("Throw", <<1>>), I("Start", <<7>>), I("Defer", <<1, 2>>), I("DeferThrow", <<1>>), I("Future", <<7>>), I("FutureErr", <<1>>),
        \* C07: a synchronous source whose teardown / whose TapOnFinalize callback PANICS, subscribed directly (nothing around it that
        \* could absorb the panic): the observer sees the whole script and the panic does not escape into the Subscribe call
        I("SyncPanickingTeardown", <<1, 2>>), I("OfPanickingFinalizer", <<1, 2>>)}

\* the script of one subscription
Script(i) ==
  CASE i.op \in {"Of", "Just"} -> Vals(i.a) \o <<Cc>>
    [] i.op = "Range"          -> Vals(Steps(i.a[1], i.a[2], 1, Sign(i.a[1], i.a[2]))) \o <<Cc>>
    [] i.op = "RangeWithStep"  -> Vals(Steps(2 * i.a[1], 2 * i.a[2], i.a[3], Sign(i.a[1], i.a[2]))) \o <<Cc>>      \* doubled values
    [] i.op = "Repeat"         -> Vals([j \in 1..i.a[2] |-> i.a[1]]) \o <<Cc>>
    [] i.op = "FromSlice"      -> Vals(Flat(i.cs)) \o <<Cc>>
    [] i.op = "Empty"          -> <<Cc>>
    [] i.op = "Throw"          -> <<Ee(i.a[1])>>
    [] i.op = "Start"          -> <<Nn(i.a[1]), Cc>>
    [] i.op \in {"Defer", "SyncPanickingTeardown", "OfPanickingFinalizer"} -> Vals(i.a) \o <<Cc>>
    [] i.op = "DeferThrow"     -> <<Ee(i.a[1])>>
    [] i.op = "Future"         -> <<Nn(i.a[1]), Cc>>
    [] OTHER                   -> <<Ee(i.a[1])>>                     \* FutureErr

\* user function invocations per subscription (Start: cb; Defer*: factory; Future*: factory; the panicking teardown / finalizer: once)
Calls(i) == IF i.op \in {"Start", "Defer", "DeferThrow", "Future", "FutureErr", "SyncPanickingTeardown", "OfPanickingFinalizer"} THEN 1 ELSE 0

\* what the observer sees behind Take(n)
NVals(s) == Cardinality({j \in 1..Len(s) : s[j].k = "N"})
Cut(s, n) ==
  IF n < 0 THEN s
  ELSE IF n = 0 THEN <<Cc>>                                          \* Take(0) completes without subscribing
  ELSE IF NVals(s) >= n THEN SubSeq(s, 1, n) \o <<Cc>>               \* the n-th value is followed by the completion at once
  ELSE s

VARIABLES inst, take, nsubs
vars == <<inst, take, nsubs>>
Init == inst \in Insts /\ take \in -1..MaxTake /\ nsubs \in 1..MaxSubs
Next == UNCHANGED vars
Spec == Init /\ [][Next]_vars

(* ------------------------------ properties ----------------------------- *)
\* the grammar of every script (C01) and the range laws (C04): [a:b) never contains b, contains a unless empty, is strictly monotone
Grammar == \A i \in Insts : LET s == Script(i) IN /\ s[Len(s)].k \in {"E", "C"} /\ \A j \in 1..(Len(s) - 1) : s[j].k = "N"
RangeLaws == \A i \in {x \in Insts : x.op = "Range"} :
               LET s == Script(i)  a == i.a[1]  b == i.a[2] IN
               /\ NVals(s) = Abs(b - a)
               /\ (a # b) => s[1].v = a
               /\ \A j \in 1..NVals(s) : s[j].v # b
StepLaws == \A i \in {x \in Insts : x.op = "RangeWithStep"} :
               LET s == Script(i)  a == 2 * i.a[1]  b == 2 * i.a[2]  st == i.a[3] IN
               /\ (a # b) => s[1].v = a
               /\ \A j \in 1..NVals(s) : (s[j].v - b) * Sign(a, b) < 0                      \* strictly before b
               /\ (a # b) => Abs(b - s[NVals(s)].v) <= st                                   \* nothing is missing at the end
               /\ \A j \in 1..(NVals(s) - 1) : s[j + 1].v - s[j].v = st * Sign(a, b)

EmitCase == PrintT(ToJson([inst |-> inst, take |-> take, nsubs |-> nsubs, exp |-> Cut(Script(inst), take),
                           calls |-> IF take = 0 THEN 0 ELSE Calls(inst)]))
=============================================================================
