----------------------------- MODULE KernelImpl -----------------------------
(***************************************************************************)
(* Level 2 - subscriber.go + subscription.go at lock / CAS grain.          *)
(*                                                                         *)
(* One subscriberImpl (status word, producer mutex `mu`, destination) with *)
(* its embedded subscriptionImpl (mutex `smu`, `done`, finalizer list).    *)
(* Processes: producers (each runs a script over N/E/C, possibly illegal), *)
(* one external unsubscriber (calls Unsubscribe twice), one adder (Add).   *)
(* One action per critical section of the Go code; action names follow the *)
(* hook points compiled into the library with -tags verif                  *)
(* (subscriber:NextWithContext:lock#0, ...:unlocked#0, subscriber:         *)
(* Unsubscribe:cas, subscription:Unsubscribe:unlocked#2, ...).             *)
(*                                                                         *)
(* Mode: "safe" (mutex), "unsafe" (no mutex; one producer), "evsafe"       *)
(* (Next uses TryLock and drops when contended).                           *)
(***************************************************************************)
EXTENDS Integers, Sequences, FiniteSets, TLC

CONSTANTS NProd,     \* number of producers
          MaxLen,    \* producers run every script over {"N","E","C"} of length 1..MaxLen (illegal suffixes included)
          Mode,      \* "safe" | "unsafe" | "evsafe"
          WithUnsub, \* BOOLEAN: an external goroutine calls Unsubscribe (twice)
          WithAdd    \* BOOLEAN: an external goroutine calls Add(td 1)

Prod == 1..NProd
RECURSIVE SeqsUpTo(_)
SeqsUpTo(n) == IF n = 0 THEN {<<>>} ELSE LET S == SeqsUpTo(n - 1) IN S \cup {Append(x, k) : x \in {y \in S : Len(y) = n - 1}, k \in {"N", "E", "C"}}
ScriptSet == SeqsUpTo(MaxLen) \ {<<>>}
U == 100   \* unsubscriber process id
A == 101   \* adder process id
Procs == Prod \cup (IF WithUnsub THEN {U} ELSE {}) \cup (IF WithAdd THEN {A} ELSE {})
TDs == IF WithAdd THEN {0, 1} ELSE {0}      \* teardown 0 = the one returned by the subscribe function

VARIABLES Scripts,  \* Scripts[p]: the script of producer p (chosen in Init, constant afterwards)
          pc,       \* pc[q] : control point of process q
          idx,      \* idx[p]: position in the script (producers), call counter (U)
          status,   \* subscriber status word: 0 next, 1 error, 2 complete/unsubscribed
          mu,       \* holder of the producer mutex (0 = free)
          smu,      \* holder of the subscription mutex (0 = free)
          done,     \* subscriptionImpl.done
          fins,     \* finalizer list (set of teardown ids; order is irrelevant for the properties)
          mine,     \* mine[q]: finalizers swapped out by q's Unsubscribe and not yet run
          ran,      \* ran[i]: how often teardown i ran
          \* ---- history / observation variables (what the harness sees) ----
          inside,   \* callbacks of the observer in flight
          log,      \* kinds delivered to the observer so far
          dropped,  \* number of notifications reported to the dropped-notification hook
          unsRet,   \* an Unsubscribe call has returned
          late      \* late[p]: p's current call was invoked after an Unsubscribe returned

vars == <<Scripts, pc, idx, status, mu, smu, done, fins, mine, ran, inside, log, dropped, unsRet, late>>

Init ==
  /\ Scripts \in [Prod -> ScriptSet]
  /\ pc = [q \in Procs |-> "idle"]
  /\ idx = [q \in Procs |-> 1]
  /\ status = 0 /\ mu = 0 /\ smu = 0 /\ done = FALSE
  /\ fins = {0} /\ mine = [q \in Procs |-> {}]
  /\ ran = [i \in TDs |-> 0]
  /\ inside = 0 /\ log = <<>> /\ dropped = 0 /\ unsRet = FALSE
  /\ late = [q \in Procs |-> FALSE]

Cur(p) == Scripts[p][idx[p]]
Goto(q, l) == pc' = [pc EXCEPT ![q] = l]
Locks == Mode # "unsafe"

(* ------------------------- producer: NextWithContext ------------------- *)
PStart(p) ==           \* the harness invokes the next notification of the script
  /\ pc[p] = "idle" /\ idx[p] <= Len(Scripts[p])
  /\ late' = [late EXCEPT ![p] = unsRet]
  /\ Goto(p, IF Cur(p) = "N" THEN "n.lock" ELSE "t.lock")
  /\ UNCHANGED <<Scripts, idx, status, mu, smu, done, fins, mine, ran, inside, log, dropped, unsRet>>

NLock(p) ==            \* subscriber:NextWithContext:lock#0  (TryLock in evsafe mode)
  /\ pc[p] = "n.lock"
  /\ IF ~Locks THEN Goto(p, "n.check") /\ UNCHANGED <<mu, dropped>>
     ELSE IF mu = 0 THEN mu' = p /\ Goto(p, "n.check") /\ UNCHANGED dropped
     ELSE IF Mode = "evsafe" THEN dropped' = dropped + 1 /\ Goto(p, "ret") /\ UNCHANGED mu
     ELSE FALSE        \* blocked
  /\ UNCHANGED <<Scripts, idx, status, smu, done, fins, mine, ran, inside, log, unsRet, late>>

NCheck(p) ==           \* atomic.LoadInt32(&s.status) == 0 ? deliver : drop
  /\ pc[p] = "n.check"
  /\ IF status = 0
       THEN inside' = inside + 1 /\ log' = Append(log, [k |-> "N", late |-> late[p]]) /\ Goto(p, "n.cb") /\ UNCHANGED dropped
       ELSE dropped' = dropped + 1 /\ Goto(p, "n.unlock") /\ UNCHANGED <<inside, log>>
  /\ UNCHANGED <<Scripts, idx, status, mu, smu, done, fins, mine, ran, unsRet, late>>

NCbEnd(p) ==           \* the observer's callback returns
  /\ pc[p] = "n.cb"
  /\ inside' = inside - 1 /\ Goto(p, "n.unlock")
  /\ UNCHANGED <<Scripts, idx, status, mu, smu, done, fins, mine, ran, log, dropped, unsRet, late>>

NUnlock(p) ==          \* subscriber:NextWithContext:unlocked#0
  /\ pc[p] = "n.unlock"
  /\ mu' = IF Locks THEN 0 ELSE mu
  /\ Goto(p, "ret")
  /\ UNCHANGED <<Scripts, idx, status, smu, done, fins, mine, ran, inside, log, dropped, unsRet, late>>

(* ------------------ producer: ErrorWithContext / CompleteWithContext --- *)
TLock(p) ==            \* subscriber:{Error,Complete}WithContext:lock#0
  /\ pc[p] = "t.lock"
  /\ IF Locks THEN mu = 0 /\ mu' = p ELSE UNCHANGED mu
  /\ Goto(p, "t.cas")
  /\ UNCHANGED <<Scripts, idx, status, smu, done, fins, mine, ran, inside, log, dropped, unsRet, late>>

TCas(p) ==             \* CompareAndSwap(status, 0, kind) ? deliver : drop
  /\ pc[p] = "t.cas"
  /\ IF status = 0
       THEN /\ status' = IF Cur(p) = "E" THEN 1 ELSE 2
            /\ inside' = inside + 1 /\ log' = Append(log, [k |-> Cur(p), late |-> late[p]])
            /\ Goto(p, "t.cb") /\ UNCHANGED dropped
       ELSE dropped' = dropped + 1 /\ Goto(p, "t.unlock") /\ UNCHANGED <<Scripts, status, inside, log>>
  /\ UNCHANGED <<Scripts, idx, mu, smu, done, fins, mine, ran, unsRet, late>>

TCbEnd(p) ==
  /\ pc[p] = "t.cb"
  /\ inside' = inside - 1 /\ Goto(p, "t.unlock")
  /\ UNCHANGED <<Scripts, idx, status, mu, smu, done, fins, mine, ran, log, dropped, unsRet, late>>

TUnlock(p) ==          \* subscriber:...:unlocked#0, then s.unsubscribe()
  /\ pc[p] = "t.unlock"
  /\ mu' = IF Locks THEN 0 ELSE mu
  /\ Goto(p, "s.lock")
  /\ UNCHANGED <<Scripts, idx, status, smu, done, fins, mine, ran, inside, log, dropped, unsRet, late>>

(* ------------------------ subscriptionImpl.Unsubscribe ------------------ *)
SLock(q) ==            \* subscription:Unsubscribe:lock#0 ... done = true; swap the finalizer list
  /\ pc[q] = "s.lock" /\ smu = 0
  /\ IF done THEN Goto(q, "s.ret") /\ UNCHANGED <<smu, done, fins, mine>>
     ELSE /\ done' = TRUE /\ mine' = [mine EXCEPT ![q] = fins] /\ fins' = {}
          /\ Goto(q, "s.run") /\ UNCHANGED smu     \* lock + unlock collapsed: nothing else happens under smu
  /\ UNCHANGED <<Scripts, idx, status, mu, ran, inside, log, dropped, unsRet, late>>

SRun(q) ==             \* subscription:Unsubscribe:unlocked#2 ... the finalizer loop, one finalizer per step
  /\ pc[q] = "s.run"
  /\ IF mine[q] = {} THEN Goto(q, "s.ret") /\ UNCHANGED <<mine, ran>>
     ELSE \E i \in mine[q] : /\ ran' = [ran EXCEPT ![i] = @ + 1]
                             /\ mine' = [mine EXCEPT ![q] = @ \ {i}]
                             /\ UNCHANGED pc
  /\ UNCHANGED <<Scripts, idx, status, mu, smu, done, fins, inside, log, dropped, unsRet, late>>

SRet(q) ==
  /\ pc[q] = "s.ret"
  /\ IF q = U THEN unsRet' = TRUE ELSE UNCHANGED unsRet
  /\ Goto(q, "ret")
  /\ UNCHANGED <<Scripts, idx, status, mu, smu, done, fins, mine, ran, inside, log, dropped, late>>

Ret(q) ==              \* the call returns to the harness
  /\ pc[q] = "ret"
  /\ idx' = [idx EXCEPT ![q] = @ + 1]
  /\ Goto(q, "idle")
  /\ UNCHANGED <<Scripts, status, mu, smu, done, fins, mine, ran, inside, log, dropped, unsRet, late>>

(* ----------------------------- external Unsubscribe --------------------- *)
UStart ==              \* subscriber:Unsubscribe: CAS(status, 0, 2) ? unsubscribe() : return
  /\ WithUnsub /\ pc[U] = "idle" /\ idx[U] <= 2
  /\ IF status = 0 THEN status' = 2 /\ Goto(U, "s.lock") /\ UNCHANGED unsRet
                   ELSE UNCHANGED status /\ Goto(U, "ret") /\ unsRet' = TRUE
  /\ UNCHANGED <<Scripts, idx, mu, smu, done, fins, mine, ran, inside, log, dropped, late>>

(* ------------------------------------ Add ------------------------------- *)
AAdd ==                \* subscription:Add: under smu, run at once when done, else append
  /\ WithAdd /\ pc[A] = "idle" /\ idx[A] = 1 /\ smu = 0
  /\ IF done THEN ran' = [ran EXCEPT ![1] = @ + 1] /\ UNCHANGED fins
             ELSE fins' = fins \cup {1} /\ UNCHANGED ran
  /\ Goto(A, "ret")
  /\ UNCHANGED <<Scripts, idx, status, mu, smu, done, mine, inside, log, dropped, unsRet, late>>

Finished == \A q \in Procs : pc[q] = "idle" /\
              idx[q] > (IF q \in Prod THEN Len(Scripts[q]) ELSE IF q = U THEN 2 ELSE 1)

Next ==
  \/ \E p \in Prod : PStart(p) \/ NLock(p) \/ NCheck(p) \/ NCbEnd(p) \/ NUnlock(p)
                     \/ TLock(p) \/ TCas(p) \/ TCbEnd(p) \/ TUnlock(p)
  \/ \E q \in Procs : SLock(q) \/ SRun(q) \/ SRet(q) \/ Ret(q)
  \/ UStart \/ AAdd
  \/ (Finished /\ UNCHANGED vars)

Spec == Init /\ [][Next]_vars /\ WF_vars(Next)

(* ------------------------------ properties ----------------------------- *)
\* C01: values, then at most one terminal, then silence
Grammar == \A i \in 1..Len(log) : i < Len(log) => log[i].k = "N"
\* C02: callbacks never overlap (whenever serialisation is promised)
NoOverlap == Locks => inside <= 1
\* C03: teardown at most once, ever; exactly once at the end when closed, never when open
TeardownAtMostOnce == \A i \in TDs : ran[i] <= 1
Closed == status # 0
TeardownAtEnd == Finished =>
   \A i \in TDs : (i = 0 \/ WithAdd) => (IF Closed THEN ran[i] = 1 ELSE ran[i] = 0)
\* C06: nothing whose emission began after Unsubscribe returned is delivered
CutsDelivery == \A i \in 1..Len(log) : ~log[i].late
\* every notification is delivered or reported as dropped
Accounted == Finished => Len(log) + dropped = (LET RECURSIVE S(_) S(ps) == IF ps = {} THEN 0 ELSE LET p == CHOOSE x \in ps : TRUE IN Len(Scripts[p]) + S(ps \ {p}) IN S(Prod))
\* no lock is left held
LocksReleased == Finished => (mu = 0 /\ smu = 0)
\* liveness: every run finishes (no deadlock / livelock): Wait would return
Terminates == <>Finished
=============================================================================
