--------------------------- MODULE ContractTrace ---------------------------
(***************************************************************************)
(* Direction B binding for Contract.tla: validates NDJSON traces recorded  *)
(* from the real library (harness: roverif drive-kernel / drive-ops).      *)
(* Every trace starts with a "hdr" event and ends with an "end" event;     *)
(* there is one initial state per trace, so a rejected trace does not hide *)
(* the others.  Accepted traces are reported with PrintT(<<"ACCEPT", t>>). *)
(* All events are fully logged: validation is linear in the trace length.  *)
(*                                                                         *)
(* Event schema (uniform): t trace id, e event, p thread, o observer,      *)
(* k kind "N"/"E"/"C", v value, i teardown id, b boolean, s string.        *)
(***************************************************************************)
EXTENDS Integers, Sequences, FiniteSets, TLC, Json

O == 0..3
P == 0..15
TD == 0..7
CONSTANT Check

VARIABLES kind, safe, call, inside, termB, termE, unsB, unsE, tdRan, tdOf, tdSt, tdLate, unsAct, disposed, objTerm, waiting, quiet, gsnap
VARIABLE l
VARIABLE srcLive    \* operator-level traces: controllable sources that are subscribed and whose teardown has not run yet (C14)

C == INSTANCE Contract

Trace == ndJsonDeserialize("trace.ndjson")

Starts == {i \in 1..Len(Trace) : Trace[i].e = "hdr"}

cv == <<kind, safe, call, inside, termB, termE, unsB, unsE, tdRan, tdOf, tdSt, tdLate, unsAct, disposed, objTerm, waiting, quiet, gsnap>>
vars == <<kind, safe, call, inside, termB, termE, unsB, unsE, tdRan, tdOf, tdSt, tdLate, unsAct, disposed, objTerm, waiting, quiet, gsnap, l, srcLive>>

Init == \E i \in Starts : /\ l = i + 1 /\ srcLive = {}
                           /\ C!CInit(Trace[i].s, Trace[i].b)

Ev == Trace[l]
Is(e) == l <= Len(Trace) /\ Ev.e = e

CStep ==
  \/ Is("callB")  /\ C!CallB(Ev.p, Ev.k, Ev.v, Ev.i)
  \/ Is("callE")  /\ C!CallE(Ev.p)
  \/ Is("drop")   /\ C!Drop(Ev.p)
  \/ Is("cbB")    /\ C!CbB(Ev.o, Ev.p, Ev.k, Ev.v, Ev.i)
  \/ Is("cbE")    /\ C!CbE(Ev.o, Ev.k)
  \/ Is("unsubB") /\ C!UnsubB(Ev.o)
  \/ Is("unsubE") /\ C!UnsubE(Ev.o)
  \/ Is("addB")   /\ C!AddB(Ev.i, Ev.o)
  \/ Is("addE")   /\ C!AddE(Ev.i)
  \/ Is("td")     /\ C!Td(Ev.i)
  \/ Is("panic")  /\ C!Panic(Ev.p, Ev.o)
  \/ Is("panicAdd") /\ C!PanicAdd(Ev.i)
  \/ Is("waitB")  /\ C!WaitB(Ev.p, Ev.o)
  \/ Is("waitE")  /\ C!WaitE(Ev.p)
  \/ Is("getB")   /\ C!GetB(Ev.p, Ev.o)
  \/ Is("getE")   /\ C!GetE(Ev.p, Ev.o, Ev.b)
  \* C14: once every harness thread has been joined, a stream that terminated or was unsubscribed holds no source any more
  \/ Is("quiesce") /\ C!Quiesce /\ (("C14" \in Check /\ \E o \in O : termE[o] \/ unsE[o]) => srcLive = {})
  \/ Is("end")    /\ C!End /\ PrintT(<<"ACCEPT", Ev.t>>)

Step ==
  \/ CStep /\ UNCHANGED srcLive
  \/ Is("srcSub") /\ srcLive' = srcLive \cup {Ev.i} /\ UNCHANGED cv
  \/ Is("srcTd")  /\ srcLive' = srcLive \ {Ev.i} /\ UNCHANGED cv

Next == Step /\ l' = l + 1

Spec == Init /\ [][Next]_vars

\* Invariants evaluated at every event of every real trace
NoOverlap == C!NoOverlap
Grammar == C!Grammar
=============================================================================
