SPECIFICATION Spec
CONSTANTS
 Buf = 0
 Producers = {1, 2}
 NVals = 2
 Completer = 1
 Observers = {1, 2}
 Leavers = {2}
 LockedBroadcast = TRUE
 LockedReplay = TRUE
INVARIANTS SameOrder NoGap ReplayExact TerminalLast LockFree
CHECK_DEADLOCK FALSE
