------------------------------ MODULE MultiDef ------------------------------
(***************************************************************************)
(* Pure definitions of the multi-source operators (no variables): one      *)
(* arrival processed to quiescence.  Shared by Multi.tla (sequential       *)
(* clause: every arrival order, direction A) and MultiLin.tla (concurrent  *)
(* clause: some arrival order explains a recorded concurrent run).         *)
(***************************************************************************)
EXTENDS Integers, Sequences, FiniteSets, TLC

N(v, c) == [k |-> "N", v |-> v, c |-> c]
E(e, c) == [k |-> "E", v |-> e, c |-> c]
C(c)    == [k |-> "C", v |-> 0, c |-> c]
SubCtx == {"sub"}
MaxK == 6       \* largest number of sources of an instance (the typed families go up to CombineLatest5 / Zip6 / MergeWith5)

\* live: subscribed and neither ended by itself nor released by the operator
St0 == [live |-> {}, ended |-> {}, torn |-> {}, subs |-> {}, done |-> FALSE,
        last |-> [s \in 1..MaxK |-> <<>>],   \* CombineLatest / SampleWhen: latest notification per source (<<>> = none)
        q |-> [s \in 1..MaxK |-> <<>>],      \* Zip: queue per source
        won |-> 0, flag |-> FALSE, buf |-> <<>>]

R(s, out) == [st |-> s, out |-> out]
SrcsOf(mm) == 1..mm.k
AllEndedF(mm, s2) == s2.ended = SrcsOf(mm)

\* SequenceEqual compares the k-th values of its two sources by a key: the digit of the value, except that source 2's second value never matches
SeqKeyEq(t) == (t[1] % 10) = (IF t[2] % 10 = 1 THEN 9 ELSE t[2] % 10)

(* one arrival n from source s, for operator mm in state ss (not terminated): PURE function, shared with MultiLin.tla *)
RECURSIVE MStepF(_, _, _, _)
MStepF(mm, ss, s, n) ==
  LET c == n.c  v == n.v
      ended1 == [ss EXCEPT !.ended = @ \cup {s}]          \* the source ended by itself
  IN
  CASE mm.op = "Merge" ->
         CASE n.k = "N" -> R(ss, <<n>>)
           [] n.k = "E" -> R(ended1, <<n>>)
           [] OTHER     -> IF AllEndedF(mm, ended1) THEN R(ended1, <<C(SubCtx)>>) ELSE R(ended1, <<>>)   \* completion carries the outer completion context
    [] mm.op = "CombineLatest" ->
         CASE n.k = "N" -> LET l2 == [ss.last EXCEPT ![s] = <<n>>] s2 == [ss EXCEPT !.last = l2] IN
                           IF \A x \in SrcsOf(mm) : l2[x] # <<>> THEN R(s2, <<N([x \in SrcsOf(mm) |-> l2[x][1].v], c)>>) ELSE R(s2, <<>>)
           [] n.k = "E" -> R(ended1, <<n>>)
           [] OTHER     -> IF AllEndedF(mm, ended1) THEN R(ended1, <<C(c)>>) ELSE R(ended1, <<>>)
    [] mm.op = "Zip" ->
         CASE n.k = "N" -> LET q2 == [ss.q EXCEPT ![s] = Append(@, v)] IN
                           IF \A x \in SrcsOf(mm) : q2[x] # <<>>
                             THEN LET q3 == [x \in 1..MaxK |-> IF x \in SrcsOf(mm) THEN Tail(q2[x]) ELSE <<>>]
                                      tup == N([x \in SrcsOf(mm) |-> q2[x][1]], c)
                                  \* completes once a finished source's queue is drained
                                  IN IF \E x \in SrcsOf(mm) : x \in ss.ended /\ q3[x] = <<>>
                                       THEN R([ss EXCEPT !.q = q3], <<tup, C(c)>>) ELSE R([ss EXCEPT !.q = q3], <<tup>>)
                             ELSE R([ss EXCEPT !.q = q2], <<>>)
           [] n.k = "E" -> R(ended1, <<n>>)
           [] OTHER     -> IF ss.q[s] = <<>> THEN R(ended1, <<C(c)>>) ELSE R(ended1, <<>>)
    [] mm.op = "SequenceEqual" ->
         \* built on Zip2 (pinned): the pairs are compared instead of emitted; the first unequal pair ends the stream with FALSE (0), the
         \* completion of the zip - a source completed and its queue is drained, whatever the other one still holds - with TRUE (1)
         LET z == MStepF([mm EXCEPT !.op = "Zip"], ss, s, n)
             o == z.out
             verdict(b, cc) == <<N(b, cc), C(cc)>>
             out2 == IF o = <<>> THEN <<>>
                     ELSE IF o[1].k = "N"
                            THEN (IF ~SeqKeyEq(o[1].v) THEN verdict(0, o[1].c) ELSE IF Len(o) = 2 THEN verdict(1, o[2].c) ELSE <<>>)
                            ELSE IF o[1].k = "C" THEN verdict(1, o[1].c) ELSE o
         IN R(z.st, out2)
    [] mm.op = "Race" ->
         IF ss.won = 0
           THEN R([(IF n.k = "N" THEN ss ELSE ended1) EXCEPT !.won = s, !.torn = @ \cup (ss.live \ {s}), !.live = @ \cap {s}], <<n>>)
           ELSE R(IF n.k = "N" THEN ss ELSE ended1, <<n>>)            \* only the winner is still live
    [] mm.op = "TakeUntil" ->
         IF s = 1 THEN R(IF n.k = "N" THEN ss ELSE ended1, <<n>>)
         ELSE IF n.k = "N" THEN R(ss, <<C(c)>>) ELSE R(ended1, <<>>)   \* the notifier's own terminal is ignored (pinned)
    [] mm.op = "SkipUntil" ->
         IF s = 1 THEN IF n.k = "N" THEN (IF ss.flag THEN R(ss, <<n>>) ELSE R(ss, <<>>)) ELSE R(ended1, <<n>>)
         ELSE IF n.k = "N" THEN R([ss EXCEPT !.flag = TRUE], <<>>) ELSE R(ended1, <<>>)
    [] mm.op = "BufferWhen" ->
         CASE n.k = "E" -> R(ended1, <<n>>)
           [] n.k = "C" -> R(ended1, <<N(ss.buf, c), C(c)>>)                 \* source or boundary completion flushes the rest (pinned)
           [] s = 1     -> R([ss EXCEPT !.buf = Append(@, v)], <<>>)
           [] OTHER     -> R([ss EXCEPT !.buf = <<>>], <<N(ss.buf, c)>>)      \* boundary: emit the (possibly empty) buffer
    [] mm.op = "SampleWhen" ->
         CASE n.k = "E" -> R(ended1, <<n>>)
           [] n.k = "C" -> R(ended1, <<n>>)                                  \* a pending sample is dropped (pinned)
           [] s = 1     -> R([ss EXCEPT !.last[1] = <<n>>], <<>>)
           [] OTHER     -> IF ss.last[1] # <<>> THEN R([ss EXCEPT !.last[1] = <<>>], ss.last[1]) ELSE R(ss, <<>>)
    [] mm.op = "WindowWhen" ->
         \* higher-order output, flattened: N(1000 + j) = window j handed to the observer, I(100 * j + v) = value v delivered to window j,
         \* IC(j) = window j completed.  The current window is ss.won (1 after subscription).
         CASE n.k = "N" /\ s = 1 -> R(ss, <<[k |-> "I", v |-> 100 * ss.won + v, c |-> c]>>)
           [] n.k = "N"           -> R([ss EXCEPT !.won = @ + 1], <<[k |-> "IC", v |-> ss.won, c |-> c], N(1000 + ss.won + 1, c)>>)
           \* an error or a completion of the source or of the boundary completes the current window, then ends the output (pinned)
           [] OTHER               -> R(ended1, <<[k |-> "IC", v |-> ss.won, c |-> c], n>>)
    [] mm.op \in {"GroupBy", "GroupByLeave", "GroupByCut"} ->
         \* single source, higher-order output flattened like WindowWhen: key = v % 2, group g = position of the key in ss.buf (creation order).
         \* A new group is handed to the observer with its first value already inside; both terminals reach the output first, then every
         \* group (IE(g) / IC(g)); the order among the groups is not fixed by the code (the replayer sorts it).
         \* "GroupByLeave": the observer unsubscribes from every group after the first value it received from it: later values of that key
         \* stay inside the group (nobody listens) - they never open a second group for the same key - and a group that was left gets no terminal.
         LET key == v % 2
             \* the WithContext flavours: the key selector returns a context of its own (marker "cb"), which every item delivered to a group carries
             gc == IF mm.g \in {"GroupByWithContext", "GroupByIWithContext"} THEN n.c \cup {"cb"} ELSE n.c
             left == mm.op = "GroupByLeave"
             has == \E g \in 1..Len(ss.buf) : ss.buf[g] = key
             gi == IF has THEN CHOOSE g \in 1..Len(ss.buf) : ss.buf[g] = key ELSE Len(ss.buf) + 1
             groups(kk) == IF left THEN <<>> ELSE [g \in 1..Len(ss.buf) |-> [k |-> kk, v |-> g, c |-> c]]
             \* "GroupByCut": the observer unsubscribes from the OUTER stream inside the callback that hands it the second group (after it
             \* subscribed that group): the value that opened the group is already inside and is delivered, then both groups are completed
             cutNow == mm.op = "GroupByCut" /\ ~has /\ gi = 2
         IN CASE n.k = "N" /\ cutNow ->
                   R([ss EXCEPT !.buf = Append(@, key)], <<N(1002, gc), [k |-> "I", v |-> 200 + v, c |-> gc],
                                                          [k |-> "IC", v |-> 1, c |-> SubCtx], [k |-> "IC", v |-> 2, c |-> SubCtx]>>)
              [] n.k = "N" -> IF has THEN R(ss, IF left THEN <<>> ELSE <<[k |-> "I", v |-> 100 * gi + v, c |-> gc]>>)
                              ELSE R([ss EXCEPT !.buf = Append(@, key)], <<N(1000 + gi, gc), [k |-> "I", v |-> 100 * gi + v, c |-> gc]>>)
              [] n.k = "E" -> R(ended1, <<n>> \o groups("IE"))
              [] OTHER     -> R(ended1, <<n>> \o groups("IC"))
    [] mm.op = "ThrottleWhen" ->
         CASE n.k = "E" -> R(ended1, <<n>>)
           [] n.k = "C" -> R(ended1, <<n>>)
           [] s = 1     -> IF ss.flag THEN R([ss EXCEPT !.flag = FALSE], <<n>>) ELSE R(ss, <<>>)
           [] OTHER     -> R([ss EXCEPT !.flag = TRUE], <<>>)
    [] OTHER -> Assert(FALSE, <<"Multi: unknown operator", mm.op>>)

\* what an operator emits when it is subscribed, before its sources are (WindowWhen hands out its first window)
SubOutF(mm) == IF mm.op = "WindowWhen" THEN <<N(1001, SubCtx)>> ELSE <<>>
SubStF(mm, ss) == IF mm.op = "WindowWhen" THEN [ss EXCEPT !.won = 1] ELSE ss

\* what the observer still receives when the subscriber leaves: GroupBy completes the groups it handed out
UnsubOutF(mm, ss) == IF mm.op \in {"GroupBy", "GroupByCut"} /\ ~ss.done THEN [g \in 1..Len(ss.buf) |-> [k |-> "IC", v |-> g, c |-> SubCtx]] ELSE <<>>

HasTerminal(out) == \E j \in 1..Len(out) : out[j].k \in {"E", "C"}

\* one arrival processed to quiescence, including the release of the other sources when the output terminates (PURE)
ArriveF(mm, ss, cl, s, n) ==
  LET active == s \in ss.live /\ ~ss.done
      r == IF active THEN MStepF(mm, ss, s, n) ELSE R(IF n.k = "N" THEN ss ELSE [ss EXCEPT !.ended = @ \cup {s}], <<>>)
      d == IF cl THEN <<>> ELSE r.out
      term == HasTerminal(d) \/ (mm.op = "GroupByCut" /\ \E j \in 1..Len(d) : d[j].k = "N" /\ d[j].v = 1002)      \* ... or the observer left
      \* an error or a completion of the output releases every other source at once (C05 / C14)
      s2 == IF term THEN [r.st EXCEPT !.done = TRUE, !.torn = @ \cup (r.st.live \ r.st.ended), !.live = {}]
                    ELSE [r.st EXCEPT !.live = @ \ r.st.ended]
  IN [st |-> s2, out |-> d, closed |-> (cl \/ term)]

(* an early-terminating DOWNSTREAM stage placed after the operator (C14): "Take1" completes on the first value, "Throw1" is a callback
   that fails on the first value (cause 11).  TailCut(out) is what the final observer sees of one batch of outputs and whether the
   downstream stage terminated the stream in it. *)
FirstN(out) == IF \E j \in 1..Len(out) : out[j].k = "N" THEN CHOOSE j \in 1..Len(out) : out[j].k = "N" /\ \A j2 \in 1..(j - 1) : out[j2].k # "N" ELSE 0
TailCut(tail, out) ==
  LET f == FirstN(out) IN
  IF tail = "none" \/ f = 0 THEN [out |-> out, cut |-> FALSE]
  ELSE IF tail = "Take1" THEN [out |-> SubSeq(out, 1, f) \o <<C(out[f].c)>>, cut |-> TRUE]
  ELSE [out |-> SubSeq(out, 1, f - 1) \o <<E(11, out[f].c)>>, cut |-> TRUE]
=============================================================================
