SPECIFICATION Spec
CONSTANTS
 NT = 2
 Repaired = FALSE
INVARIANTS ReleasedWhenWaitReturns ExactlyOnce NonNegative
PROPERTIES Terminates
CHECK_DEADLOCK FALSE
