------------------------------ MODULE ShareSeq ------------------------------
(***************************************************************************)
(* Level 1 - sequential definition of Share / ShareWithConfig / ShareReplay *)
(* (C11): one shared observable over ONE controllable cold source.          *)
(*                                                                         *)
(* Configuration: connector kind (publish, behavior(7), replay n) and the  *)
(* three reset flags (on error, on completion, on reference count zero).   *)
(* Operations: Sub(i), Uns(i), source Next(v) / Error / Complete (delivered *)
(* to the live source subscription, if any).                               *)
(* State: the attached execution (the connector subject: status, memory,   *)
(* observers), the reference count, whether the source subscription is     *)
(* live, the flags "already terminated without reset".                     *)
(* Observable after every operation: the deliveries per subscriber, the    *)
(* number of LIVE source subscriptions (must be <= 1) and the total number *)
(* of source subscriptions ever made.                                      *)
(***************************************************************************)
EXTENDS Integers, Sequences, FiniteSets, TLC, Json

CONSTANTS Cfgs, MaxOps, Ids

VARIABLES cfg,
          att,       \* an execution (subject) is attached
          status, mem, obs,     \* the attached subject (status "N"/"E"/"C"; memory; registered observers)
          refs,      \* reference count
          live,      \* the source subscription of the attached execution is live
          total,     \* source subscriptions ever made
          flagE, flagC,   \* the attached execution ended by error / completion WITHOUT being reset
          resub,     \* observers that subscribe a NEW observer (id + 3) from inside their terminal callback (re-entrant use)
          used, h

vars == <<cfg, att, status, mem, obs, refs, live, total, flagE, flagC, resub, used, h>>

Nn(v) == [k |-> "N", v |-> v]
Ee(e) == [k |-> "E", v |-> e]
Cc    == [k |-> "C", v |-> 0]
Trim(s, n) == IF n < 0 \/ Len(s) <= n THEN s ELSE SubSeq(s, Len(s) - n + 1, Len(s))
Mem0 == IF cfg.kind = "behavior" THEN <<7>> ELSE <<>>
NoDeliv == [i \in Ids |-> <<>>]

Rec(op, arg, deliv, lv, tot) == [op |-> op, arg |-> arg, deliv |-> deliv, live |-> IF lv THEN 1 ELSE 0, total |-> tot]

Init ==
  /\ cfg \in Cfgs
  /\ att = FALSE /\ status = "N" /\ mem = <<>> /\ obs = {}
  /\ refs = 0 /\ live = FALSE /\ total = 0 /\ flagE = FALSE /\ flagC = FALSE
  /\ resub = {} /\ used = {} /\ h = <<>>

\* what a subscriber joining the attached subject receives at once
ReplayOf(st, m) ==
  LET term == IF st = "E" THEN <<Ee(1)>> ELSE IF st = "C" THEN <<Cc>> ELSE <<>> IN
  CASE cfg.kind = "publish"  -> term
    [] cfg.kind = "behavior" -> IF st = "N" THEN <<Nn(m[1])>> ELSE term
    [] OTHER                 -> [j \in 1..Len(m) |-> Nn(m[j])] \o term

\* a subscriber leaves (unsubscribed, or it received a terminal): reference count and reset-on-zero
Leave(n, r, a, lv) ==   \* n subscribers leave at once; returns [refs, att, live]
  LET r2 == r - n IN
  IF cfg.rz /\ r2 = 0 /\ ~flagE' /\ ~flagC' /\ a THEN [refs |-> r2, att |-> FALSE, live |-> FALSE] ELSE [refs |-> r2, att |-> a, live |-> lv]

Sub(i, re) ==
  /\ Len(h) < MaxOps /\ i \notin used
  \* the re-entrant subscriber is only enumerated where the finished execution is reset before the terminal is broadcast
  \* (otherwise the new subscriber would join the subject that is broadcasting, which holds its own mutex)
  /\ re => (cfg.re /\ cfg.rc /\ resub = {})
  /\ resub' = IF re THEN resub \cup {i} ELSE resub
  /\ LET create == ~att
         st == IF create THEN "N" ELSE status
         m == IF create THEN Mem0 ELSE mem
         r == ReplayOf(st, m)
         joins == st = "N"
         tot == IF create THEN total + 1 ELSE total
     IN /\ total' = tot
        /\ att' = TRUE /\ status' = st /\ mem' = m
        /\ flagE' = (IF create THEN FALSE ELSE flagE) /\ flagC' = (IF create THEN FALSE ELSE flagC)
        /\ obs' = (IF create THEN {} ELSE obs) \cup (IF joins THEN {i} ELSE {})
        \* a subscriber that is served a terminal at once leaves at once (its reference is dropped again)
        /\ refs' = IF joins THEN refs + 1 ELSE refs
        /\ live' = IF create THEN TRUE ELSE live
        /\ h' = Append(h, Rec(IF re THEN "subR" ELSE "sub", i, [x \in Ids |-> IF x = i THEN r ELSE <<>>], live', tot))
  /\ used' = used \cup {i}
  /\ UNCHANGED cfg

Uns(i) ==
  /\ Len(h) < MaxOps /\ i \in used
  /\ IF i \in obs
       THEN /\ obs' = obs \ {i}
            /\ flagE' = flagE /\ flagC' = flagC
            /\ LET lv == Leave(1, refs, att, live) IN
               /\ refs' = lv.refs /\ att' = lv.att /\ live' = lv.live
               /\ h' = Append(h, Rec("unsub", i, NoDeliv, lv.live, total))
            /\ UNCHANGED <<status, mem>>
       ELSE /\ UNCHANGED <<obs, flagE, flagC, refs, att, live, status, mem>>
            /\ h' = Append(h, Rec("unsub", i, NoDeliv, live, total))
  /\ UNCHANGED <<cfg, total, used, resub>>

SrcNext(v) ==
  /\ Len(h) < MaxOps
  /\ IF live
       THEN /\ mem' = CASE cfg.kind = "behavior" -> <<v>> [] cfg.kind = "replay" -> Trim(Append(mem, v), cfg.buf) [] OTHER -> mem
            /\ h' = Append(h, Rec("next", v, [i \in Ids |-> IF i \in obs THEN <<Nn(v)>> ELSE <<>>], live, total))
       ELSE /\ UNCHANGED mem
            /\ h' = Append(h, Rec("next", v, NoDeliv, live, total))
  /\ UNCHANGED <<cfg, att, status, obs, refs, live, total, flagE, flagC, used, resub>>

SrcTerm(st) ==
  /\ Len(h) < MaxOps
  /\ IF ~live THEN /\ UNCHANGED <<att, status, mem, obs, refs, live, flagE, flagC, total, resub>>
                   /\ h' = Append(h, Rec(IF st = "E" THEN "error" ELSE "complete", 0, NoDeliv, live, total))
     ELSE LET rst == IF st = "E" THEN cfg.re ELSE cfg.rc
              t == IF st = "E" THEN <<Ee(1)>> ELSE <<Cc>>
              \* a subscriber that re-subscribes from inside its terminal callback finds the finished execution already detached:
              \* it starts a FRESH execution (new upstream subscription), it does not join the dead one
              again == resub \cap obs
              deliv == [i \in Ids |-> IF i \in obs THEN t ELSE <<>>]
          IN /\ flagE' = (flagE \/ (st = "E" /\ ~rst)) /\ flagC' = (flagC \/ (st = "C" /\ ~rst))
             /\ resub' = resub \ obs
             /\ IF again # {}
                  THEN /\ status' = "N" /\ mem' = Mem0 /\ att' = TRUE /\ live' = TRUE /\ total' = total + 1
                       /\ obs' = {i + 3 : i \in again} /\ refs' = 1
                       \* the fresh execution replays its initial state to the new observer (behavior: the initial value)
                       /\ h' = Append(h, Rec(IF st = "E" THEN "error" ELSE "complete", 0,
                                            [i \in Ids |-> IF i \in obs THEN t ELSE IF i - 3 \in again THEN ReplayOf("N", Mem0) ELSE <<>>], TRUE, total + 1))
                  ELSE /\ status' = st /\ obs' = {} /\ live' = FALSE /\ att' = ~rst /\ refs' = refs - Cardinality(obs)
                       /\ UNCHANGED <<mem, total>>
                       /\ h' = Append(h, Rec(IF st = "E" THEN "error" ELSE "complete", 0, deliv, FALSE, total))
  \* the observers subscribed from inside a terminal callback exist from now on (they can be unsubscribed like any other)
  /\ used' = IF live THEN used \cup {i + 3 : i \in (resub \cap obs)} ELSE used
  /\ UNCHANGED cfg

Next ==
  \/ \E i \in 1..3 : (i = 1 \/ (i - 1) \in used) /\ (Sub(i, FALSE) \/ Sub(i, TRUE))
  \/ \E i \in Ids : Uns(i)
  \/ \E v \in {1, 2} : SrcNext(v)
  \/ SrcTerm("E") \/ SrcTerm("C")

Spec == Init /\ [][Next]_vars

(* ------------------------------ properties ----------------------------- *)
\* at most one live upstream subscription (by construction: `live` is a boolean); upstream only while an execution is attached
LiveImpliesAttached == live => att
RefsMatchObservers == refs = Cardinality(obs)
\* Share (reset on reference count zero): nobody subscribed => no live upstream
NoOrphanUpstream == (cfg.rz /\ refs = 0 /\ ~flagE /\ ~flagC) => ~live
Done == Len(h) = MaxOps
EmitCase == Done => PrintT(ToJson([cfg |-> cfg, ops |-> h]))
=============================================================================
