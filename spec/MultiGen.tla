------------------------------ MODULE MultiGen ------------------------------
(* Generator configurations of Multi.tla (direction A, C05). *)
EXTENDS Integers, Sequences, FiniteSets, TLC

CONSTANTS MaxSteps, MaxPerSrc, Cuts, InstSetName, PanicSrcs, SyncSetName, TailSetName

I(op, g, k) == [op |-> op, g |-> g, k |-> k]
Two == {I("Merge", "Merge", 2), I("Merge", "MergeWith", 2), I("Merge", "MergeWith1", 2), I("Merge", "MergeAll", 2),
        I("CombineLatest", "CombineLatest2", 2), I("CombineLatest", "CombineLatestWith", 2), I("CombineLatest", "CombineLatestWith1", 2),
        I("CombineLatest", "CombineLatestAny", 2),
        I("Zip", "Zip2", 2), I("Zip", "ZipWith", 2), I("Zip", "ZipWith1", 2), I("Zip", "Zip", 2),
        I("Race", "Race", 2), I("Race", "RaceWith", 2), I("Race", "Amb", 2),
        I("TakeUntil", "TakeUntil", 2), I("SkipUntil", "SkipUntil", 2), I("SequenceEqual", "SequenceEqual", 2),
        I("BufferWhen", "BufferWhen", 2), I("SampleWhen", "SampleWhen", 2), I("ThrottleWhen", "ThrottleWhen", 2), I("WindowWhen", "WindowWhen", 2)}
Three == {I("Merge", "Merge", 3), I("Merge", "MergeWith2", 3), I("CombineLatest", "CombineLatest3", 3), I("Zip", "Zip3", 3), I("Race", "Race", 3)}
One == {I("GroupBy", "GroupBy", 1), I("GroupBy", "GroupByI", 1), I("GroupBy", "GroupByWithContext", 1), I("GroupBy", "GroupByIWithContext", 1), I("GroupByLeave", "GroupBy", 1), I("GroupByCut", "GroupBy", 1)}
InstSet == CASE InstSetName = "two" -> Two [] InstSetName = "three" -> Three [] InstSetName = "one" -> One []
             \* the higher arities of the typed families (each arity is its own copy of the code)
             InstSetName = "high" -> {I("Merge", "Merge", 4), I("Merge", "MergeWith3", 4), I("Merge", "MergeWith4", 5), I("Merge", "MergeWith5", 6),
                                      I("CombineLatest", "CombineLatest4", 4), I("CombineLatest", "CombineLatest5", 5),
                                      I("CombineLatest", "CombineLatestWith2", 3), I("CombineLatest", "CombineLatestWith3", 4), I("CombineLatest", "CombineLatestWith4", 5),
                                      I("Zip", "Zip4", 4), I("Zip", "Zip5", 5), I("Zip", "Zip6", 6),
                                      I("Zip", "ZipWith3", 4), I("Zip", "ZipWith4", 5), I("Zip", "ZipWith5", 6), I("Race", "Race", 4)} [] InstSetName = "ticks" -> {I("ThrottleWhen", "ThrottleWhen", 2), I("SampleWhen", "SampleWhen", 2), I("BufferWhen", "BufferWhen", 2), I("WindowWhen", "WindowWhen", 2)} [] InstSetName = "zip3" -> {I("Zip", "Zip3", 3), I("Zip", "ZipWith2", 3)} [] OTHER -> Two \cup Three

NoSync == {[s |-> 0, k |-> "C"]}
SyncSet == IF SyncSetName = "ends" THEN {[s |-> x, k |-> kk] : x \in 1..6, kk \in {"C", "E", "U", "V"}} ELSE NoSync

TailSet == IF TailSetName = "cuts" THEN {"Take1", "Throw1"} ELSE {"none"}

VARIABLES m, st, phase, closed, unsub, log, h, sent, psrc, sync, tail
M == INSTANCE Multi WITH Insts <- InstSet, SyncEnds <- SyncSet, Tails <- TailSet
Spec == M!Spec
Grammar == M!Grammar
ClosedReleasesAll == M!ClosedReleasesAll
TypeOK == M!TypeOK
EmitCase == M!EmitCase
=============================================================================
