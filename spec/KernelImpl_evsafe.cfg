SPECIFICATION Spec
CONSTANTS NProd = 2
 MaxLen = 2
 Mode = "evsafe"
 WithUnsub = TRUE
 WithAdd = FALSE
INVARIANTS Grammar NoOverlap TeardownAtMostOnce TeardownAtEnd CutsDelivery Accounted LocksReleased
PROPERTY Terminates
