------------------------------ MODULE WaitImpl ------------------------------
(***************************************************************************)
(* Level 2 - subscription.go Add / Unsubscribe / Wait at the grain of the  *)
(* code, for the question the re-subscribing operators depend on (C15,     *)
(* C03): when `sub.Wait()` returns, has the attempt been RELEASED, i.e.    *)
(* have the teardowns of the subscription finished running?                *)
(*                                                                         *)
(*   Unsubscribe (disposer thread - a source terminating on its own        *)
(*     goroutine): lock; done := TRUE; take the finalizers;                *)
(*     [Repaired: running := running + 1]; unlock; run the finalizers one  *)
(*     by one OUTSIDE the lock; [Repaired: running := running - 1]         *)
(*   Add(f): lock; if done then run f at once (under the lock) else        *)
(*     append; unlock                                                      *)
(*   Wait (the operator's thread): Add(signal); block until signalled;     *)
(*     [Repaired: block until running = 0]; return                         *)
(*                                                                         *)
(* The subscribe call registers NT teardowns (Add, one step each) and then *)
(* waits, as the operators do: `sub := source.Subscribe(...)` (the         *)
(* observable adds the source's teardown) followed by `sub.Wait()`.  The   *)
(* disposer may start at any moment.                                       *)
(*                                                                         *)
(* WaitImpl_former.cfg  Repaired = FALSE: TLC finds the run behind fix     *)
(*   b531a22 - the disposer sets done and is still inside a teardown when  *)
(*   Wait's Add finds done = TRUE, signals itself and returns              *)
(*   (ReleasedWhenWaitReturns violated: expected).                         *)
(* WaitImpl_repaired.cfg Repaired = TRUE: ReleasedWhenWaitReturns,         *)
(*   ExactlyOnce and termination (every thread finishes: no deadlock       *)
(*   introduced by waiting for the batch) hold.                            *)
(***************************************************************************)
EXTENDS Integers, Sequences, FiniteSets, TLC

CONSTANTS NT,        \* teardowns registered by the subscribe call before it waits
          Repaired

VARIABLES mu,        \* holder of the subscription mutex: "none" | "sub" | "disp"
          done, fins, \* the done flag, the list of registered finalizers (teardown ids 1..NT, 0 = Wait's signal)
          running,   \* the counter introduced by the repair
          ran,       \* ran[t]: how many times teardown t has run
          inTd,      \* a teardown is executing right now (on the disposer thread)
          signalled, \* Wait's channel has been signalled
          pcS, nAdd, \* the subscribing thread: "add" (registering teardown nAdd) | "waitadd" | "blocked" | "batch" | "returned"
          pcD, batch \* the disposer: "idle" | "locked" | "run" | "finish" | "end"; the finalizers it took
vars == <<mu, done, fins, running, ran, inTd, signalled, pcS, nAdd, pcD, batch>>

Init == /\ mu = "none" /\ done = FALSE /\ fins = <<>> /\ running = 0 /\ ran = [t \in 1..NT |-> 0] /\ inTd = FALSE
        /\ signalled = FALSE /\ pcS = "add" /\ nAdd = 1 /\ pcD = "idle" /\ batch = <<>>

(* ------------------------------ the subscribing / waiting thread ------------------------------ *)
\* Add(teardown nAdd): one critical section (a teardown added after disposal runs at once, under the lock)
SAdd == /\ pcS = "add" /\ nAdd <= NT /\ mu = "none"
        /\ IF done THEN ran' = [ran EXCEPT ![nAdd] = @ + 1] /\ UNCHANGED fins
                   ELSE fins' = Append(fins, nAdd) /\ UNCHANGED ran
        /\ nAdd' = nAdd + 1 /\ pcS' = (IF nAdd = NT THEN "waitadd" ELSE "add")
        /\ UNCHANGED <<mu, done, running, inTd, signalled, pcD, batch>>
SSkip == /\ pcS = "add" /\ nAdd > NT /\ pcS' = "waitadd"      \* NT = 0
         /\ UNCHANGED <<mu, done, fins, running, ran, inTd, signalled, nAdd, pcD, batch>>
\* Wait, first half: Add(signal)
SWaitAdd == /\ pcS = "waitadd" /\ mu = "none"
            /\ IF done THEN signalled' = TRUE /\ UNCHANGED fins ELSE fins' = Append(fins, 0) /\ UNCHANGED signalled
            /\ pcS' = "blocked" /\ UNCHANGED <<mu, done, running, ran, inTd, nAdd, pcD, batch>>
\* Wait, second half: <-ch, then (repaired) running.Wait()
SWake == /\ pcS = "blocked" /\ signalled
         /\ pcS' = (IF Repaired THEN "batch" ELSE "returned")
         /\ UNCHANGED <<mu, done, fins, running, ran, inTd, signalled, nAdd, pcD, batch>>
SBatch == /\ pcS = "batch" /\ running = 0 /\ pcS' = "returned"
          /\ UNCHANGED <<mu, done, fins, running, ran, inTd, signalled, nAdd, pcD, batch>>

(* --------------------------------------- the disposer --------------------------------------- *)
DLock == /\ pcD = "idle" /\ mu = "none" /\ mu' = "disp" /\ pcD' = "locked"
         /\ UNCHANGED <<done, fins, running, ran, inTd, signalled, pcS, nAdd, batch>>
DTake == /\ pcD = "locked"                      \* done := TRUE; take the list; (repaired) running.Add(1); unlock
         /\ done' = TRUE /\ batch' = fins /\ fins' = <<>> /\ mu' = "none"
         /\ running' = (IF Repaired /\ fins # <<>> THEN running + 1 ELSE running)
         /\ pcD' = (IF fins = <<>> THEN "end" ELSE "run")
         /\ UNCHANGED <<ran, inTd, signalled, pcS, nAdd>>
DBegin == /\ pcD = "run" /\ batch # <<>> /\ ~inTd   \* a finalizer starts ...
          /\ IF Head(batch) = 0 THEN signalled' = TRUE /\ batch' = Tail(batch) /\ UNCHANGED inTd   \* Wait's signal is instantaneous
                                ELSE inTd' = TRUE /\ UNCHANGED <<signalled, batch>>
          /\ UNCHANGED <<mu, done, fins, running, ran, pcS, nAdd, pcD>>
DEndTd == /\ pcD = "run" /\ inTd                    \* ... and returns: only now has the teardown RUN
          /\ ran' = [ran EXCEPT ![Head(batch)] = @ + 1] /\ batch' = Tail(batch) /\ inTd' = FALSE
          /\ UNCHANGED <<mu, done, fins, running, signalled, pcS, nAdd, pcD>>
DFinish == /\ pcD = "run" /\ batch = <<>> /\ ~inTd
           /\ running' = (IF Repaired THEN running - 1 ELSE running) /\ pcD' = "end"
           /\ UNCHANGED <<mu, done, fins, ran, inTd, signalled, pcS, nAdd, batch>>

Next == SAdd \/ SSkip \/ SWaitAdd \/ SWake \/ SBatch \/ DLock \/ DTake \/ DBegin \/ DEndTd \/ DFinish
Spec == Init /\ [][Next]_vars /\ WF_vars(Next)

(* ---------------------------------------- properties ---------------------------------------- *)
\* C15 / C03: when Wait has returned, every teardown registered before it has finished running - the attempt is released
ReleasedWhenWaitReturns == pcS = "returned" => \A t \in 1..NT : ran[t] = 1
\* C03: no teardown runs twice, and at the end each has run exactly once
ExactlyOnce == /\ \A t \in 1..NT : ran[t] <= 1
               /\ (pcS = "returned" /\ pcD = "end") => \A t \in 1..NT : ran[t] = 1
NonNegative == running >= 0
\* the repair introduces no deadlock: Wait returns and the disposer finishes in every fair run
Terminates == <>(pcS = "returned" /\ pcD = "end")
=============================================================================
