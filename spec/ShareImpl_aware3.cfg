SPECIFICATION SpecNoStuckCall
CONSTANTS
 Confs <- OneConf
 P = {1, 2, 3}
 MaxGen = 3
 MaxObs = 3
 MaxOps = 2
 Aware = {TRUE}
VIEW View
INVARIANTS OneLive NonNegative Grammar Released
CHECK_DEADLOCK TRUE
