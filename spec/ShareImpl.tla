------------------------------ MODULE ShareImpl ------------------------------
(***************************************************************************)
(* Level 2 - Share / ShareWithConfig at the grain of the code              *)
(* (operator_connectable.go ShareWithConfig, subscriber.go,                *)
(* subscription.go): one action per critical section or atomic operation.  *)
(*                                                                         *)
(*   Subscribe(o)   S1  lock; refCount++; get or create the generation     *)
(*                      (subject + sourceSubscription); unlock             *)
(*                  S2  subject.Subscribe(o)  (a terminated subject        *)
(*                      terminates o at once)                              *)
(*                  S3a creator only: the two reset flags are cleared      *)
(*                  S3b source.Subscribe(proxy)          -> event srcSub   *)
(*                  S3c the source's teardown is added to the proxy (runs  *)
(*                      at once when the proxy is done)  -> maybe srcTd    *)
(*                  S3d the proxy is added to the sourceSubscription (is   *)
(*                      unsubscribed at once when that one is done)        *)
(*                  S4  the teardown T2 is added to o's subscription (runs *)
(*                      at once, on this thread, when o is done)           *)
(*   Unsubscribe(o) U1  CAS of o's status; T2                              *)
(*   T2(o)              lock; refCount--; reset-on-zero; unlock            *)
(*   terminal(k)    E1  CAS of the proxy's status (a closed proxy drops)   *)
(*                  E2  reset under the lock, or the reset flag            *)
(*                  E3  the subject terminates: under the SUBJECT's lock   *)
(*                      every registered observer gets the terminal (event *)
(*                      recv) and runs its T2 on this thread               *)
(*                  E4  the proxy unsubscribes itself    -> maybe srcTd    *)
(*                                                                         *)
(* The reference counter and the two "kept after termination" flags belong *)
(* to the generation (fixes 75994e7 and the one that followed).  Before     *)
(* the fix refCount was ONE counter for all generations: a reference taken *)
(* on a generation that had been reset meanwhile was given back to the     *)
(* counter of the NEXT generation (finding share.stale-refcount-after-     *)
(* reset-leaks-upstream).  TLC shows it at this level: Released is         *)
(* violated with Aware = {FALSE} (ShareImpl_known.cfg, the former code)    *)
(* and holds for a counter per generation, Aware = {TRUE}                  *)
(* (ShareImpl_aware.cfg, the code now); OneLive, Grammar and NonNegative   *)
(* hold for both.  ShareImplTrace.tla binds the real code to this model:   *)
(* every recorded run must be a behaviour of it with Aware = {TRUE}.       *)
(***************************************************************************)
EXTENDS Integers, Sequences, FiniteSets, TLC

CONSTANTS Confs,          \* set of ShareConfig records [re, rc, rz]: ResetOnError, ResetOnComplete, ResetOnRefCountZero
          P,              \* threads
          MaxGen, MaxObs, \* bounds on generations / observers
          MaxOps,         \* model-checking mode: operations per thread
          Aware           \* set of booleans: TRUE = one counter per generation (the code since 75994e7), FALSE = one counter for all (the former code)

VARIABLES conf, mu, cur, ngen, rc, hasE, hasC, aware,
          G,        \* per generation: [ssDone, srcAdded, pstatus, pdone, tdReg, k, sterm, sobs, slock]
          O,        \* per observer:   [st, done, reg, g]
          used, nsrc, torn, genOfK,
          th,       \* per thread: [pc, o, g, created, kind, todo, after, mine, ops]
          ev        \* the observable event of the last step ([e |-> "none"] = silent)

vars == <<conf, mu, cur, ngen, rc, hasE, hasC, aware, G, O, used, nsrc, torn, genOfK, th, ev>>
Re == conf.re
Rc == conf.rc
Rz == conf.rz

Gens == 1..MaxGen
Obs == 1..MaxObs
NoEv == [e |-> "none", p |-> 0, i |-> 0, k |-> "N"]
Event(e, p, i, k) == [e |-> e, p |-> p, i |-> i, k |-> k]

G0 == [ssDone |-> FALSE, srcAdded |-> FALSE, pstatus |-> 0, pdone |-> FALSE, tdReg |-> FALSE, k |-> 0, sterm |-> "N", sobs |-> {}, slock |-> FALSE]
O0 == [st |-> 0, done |-> FALSE, reg |-> FALSE, g |-> 0]
T0 == [pc |-> "idle", o |-> 0, g |-> 0, created |-> FALSE, kind |-> "N", todo |-> {}, after |-> "idle", after2 |-> "idle", tdg |-> 0, mine |-> 0, ops |-> 0]

Init ==
  /\ conf \in Confs /\ mu = 0 /\ cur = 0 /\ ngen = 0 /\ rc = [g \in 0..MaxGen |-> 0] /\ hasE = [g \in 0..MaxGen |-> FALSE] /\ hasC = [g \in 0..MaxGen |-> FALSE] /\ aware \in Aware
  /\ G = [g \in Gens |-> G0] /\ O = [o \in Obs |-> O0] /\ used = {} /\ nsrc = 0 /\ torn = {} /\ genOfK = [k \in Gens |-> 0]
  /\ th = [p \in P |-> T0] /\ ev = NoEv

Idx(g) == IF aware THEN g ELSE 0

(* ---------------- the subscription objects (subscription.go / subscriber.go) ---------------- *)
\* Subscription.Unsubscribe of the proxy: done is set under the subscription's lock; the finalizers - the source's teardown - are run
\* afterwards, by the caller, as a step of its own ("td"): run = the caller has to do that
ProxySubUnsub(GG, g) ==
  IF GG[g].pdone THEN [G |-> GG, run |-> FALSE]
  ELSE [G |-> [GG EXCEPT ![g].pdone = TRUE], run |-> GG[g].tdReg]
\* Subscriber.Unsubscribe of the proxy: only when its status is still 0
ProxyUnsub(GG, g) ==
  IF GG[g].pstatus = 0 THEN ProxySubUnsub([GG EXCEPT ![g].pstatus = 2], g) ELSE [G |-> GG, run |-> FALSE]
\* reset(): sourceSubscription.Unsubscribe()
ResetG(GG, g) ==
  IF GG[g].ssDone THEN [G |-> GG, run |-> FALSE]
  ELSE IF GG[g].srcAdded THEN ProxyUnsub([GG EXCEPT ![g].ssDone = TRUE], g)
  ELSE [G |-> [GG EXCEPT ![g].ssDone = TRUE], run |-> FALSE]
\* where a thread goes after a step that may have claimed the source's teardown of generation g
Then(t, run, g, after) == IF run THEN [t EXCEPT !.pc = "td", !.tdg = g, !.after2 = after] ELSE [t EXCEPT !.pc = after]

(* ---------------------------------- Subscribe ---------------------------------- *)
StartSub(p, o) ==
  /\ th[p].pc = "idle" /\ th[p].mine = 0 /\ o \notin used
  /\ used' = used \cup {o}
  /\ th' = [th EXCEPT ![p] = [@ EXCEPT !.pc = "s1", !.o = o, !.ops = @ + 1]]
  /\ ev' = Event("inv", p, o, "sub")
  /\ UNCHANGED <<conf, mu, cur, ngen, rc, hasE, hasC, aware, G, O, nsrc, torn, genOfK>>

S1(p) ==
  /\ th[p].pc = "s1" /\ mu = 0
  /\ LET create == cur = 0
         g == IF create THEN ngen + 1 ELSE cur
     IN /\ g <= MaxGen
        /\ rc' = [rc EXCEPT ![Idx(g)] = @ + 1]
        /\ cur' = g /\ ngen' = IF create THEN g ELSE ngen
        /\ th' = [th EXCEPT ![p] = [@ EXCEPT !.pc = "s2", !.g = g, !.created = create]]
        /\ O' = [O EXCEPT ![th[p].o].g = g]
  /\ ev' = NoEv /\ UNCHANGED <<conf, mu, hasE, hasC, aware, G, used, nsrc, torn, genOfK>>

S2(p) ==
  /\ th[p].pc = "s2"
  /\ LET g == th[p].g
         o == th[p].o
     IN /\ ~G[g].slock
        /\ IF G[g].sterm = "N"
             THEN /\ G' = [G EXCEPT ![g].sobs = @ \cup {o}] /\ O' = O /\ ev' = NoEv
             ELSE /\ O' = [O EXCEPT ![o].st = 1, ![o].done = TRUE] /\ G' = G /\ ev' = Event("recv", 0, o, G[g].sterm)
  /\ th' = [th EXCEPT ![p].pc = IF th[p].created THEN "s3a" ELSE "s4"]
  /\ UNCHANGED <<conf, mu, cur, ngen, rc, hasE, hasC, aware, used, nsrc, torn, genOfK>>

S3a(p) ==
  /\ th[p].pc = "s3a" /\ hasE' = [hasE EXCEPT ![Idx(th[p].g)] = FALSE] /\ hasC' = [hasC EXCEPT ![Idx(th[p].g)] = FALSE]
  /\ th' = [th EXCEPT ![p].pc = "s3b"] /\ ev' = NoEv
  /\ UNCHANGED <<conf, mu, cur, ngen, rc, aware, G, O, used, nsrc, torn, genOfK>>

S3b(p) ==
  /\ th[p].pc = "s3b" /\ nsrc < MaxGen
  /\ nsrc' = nsrc + 1 /\ genOfK' = [genOfK EXCEPT ![nsrc + 1] = th[p].g]
  /\ G' = [G EXCEPT ![th[p].g].k = nsrc + 1]
  /\ th' = [th EXCEPT ![p].pc = "s3c"] /\ ev' = Event("srcSub", 0, nsrc + 1, "N")
  /\ UNCHANGED <<conf, mu, cur, ngen, rc, hasE, hasC, aware, O, used, torn>>

S3c(p) ==
  /\ th[p].pc = "s3c"
  /\ LET g == th[p].g IN
       IF G[g].pdone THEN /\ ev' = Event("srcTd", 0, G[g].k, "N") /\ torn' = torn \cup {G[g].k} /\ G' = G
                     ELSE /\ ev' = NoEv /\ torn' = torn /\ G' = [G EXCEPT ![g].tdReg = TRUE]
  /\ th' = [th EXCEPT ![p].pc = "s3d"]
  /\ UNCHANGED <<conf, mu, cur, ngen, rc, hasE, hasC, aware, O, used, nsrc, genOfK>>

S3d(p) ==
  /\ th[p].pc = "s3d"
  /\ LET g == th[p].g
         r == IF G[g].ssDone THEN ProxyUnsub(G, g) ELSE [G |-> [G EXCEPT ![g].srcAdded = TRUE], run |-> FALSE]
     IN G' = r.G /\ th' = [th EXCEPT ![p] = Then(@, r.run, g, "s4")]
  /\ ev' = NoEv
  /\ UNCHANGED <<conf, mu, cur, ngen, rc, hasE, hasC, aware, O, used, nsrc, torn, genOfK>>

\* the source's teardown runs (claimed by this thread when it set the proxy's subscription done); a section of Share's mutex ends here
TD(p) ==
  /\ th[p].pc = "td"
  /\ ev' = Event("srcTd", 0, G[th[p].tdg].k, "N") /\ torn' = torn \cup {G[th[p].tdg].k}
  /\ mu' = IF mu = p THEN 0 ELSE mu
  /\ th' = [th EXCEPT ![p].pc = th[p].after2]
  /\ UNCHANGED <<conf, cur, ngen, rc, hasE, hasC, aware, G, O, used, nsrc, genOfK>>

S4(p) ==
  /\ th[p].pc = "s4"
  /\ LET o == th[p].o IN
       IF O[o].done THEN /\ th' = [th EXCEPT ![p] = [@ EXCEPT !.pc = "t2", !.after = "ret", !.mine = o]] /\ O' = O       \* o is done: its teardown runs now, on this thread
                    ELSE /\ th' = [th EXCEPT ![p] = [@ EXCEPT !.pc = "ret", !.mine = o]] /\ O' = [O EXCEPT ![o].reg = TRUE]
  /\ ev' = NoEv /\ UNCHANGED <<conf, mu, cur, ngen, rc, hasE, hasC, aware, G, used, nsrc, torn, genOfK>>

(* ---------------------------- the teardown of an observer ---------------------------- *)
T2(p) ==
  /\ th[p].pc = "t2" /\ mu = 0
  /\ LET o == th[p].o
         g == O[o].g
         n == rc[Idx(g)] - 1
         doReset == Rz /\ n = 0 /\ ~hasE[Idx(g)] /\ ~hasC[Idx(g)]
         r == IF doReset THEN ResetG(G, g) ELSE [G |-> G, run |-> FALSE]
     IN /\ rc' = [rc EXCEPT ![Idx(g)] = n]
        /\ G' = r.G
        /\ cur' = IF doReset /\ cur = g THEN 0 ELSE cur
        /\ mu' = IF r.run THEN p ELSE 0                  \* the source's teardown runs inside the critical section
        /\ th' = [th EXCEPT ![p] = Then(@, r.run, g, th[p].after)]
  /\ ev' = NoEv
  /\ UNCHANGED <<conf, ngen, hasE, hasC, aware, O, used, nsrc, torn, genOfK>>

(* --------------------------------- Unsubscribe --------------------------------- *)
StartUnsub(p) ==
  /\ th[p].pc = "idle" /\ th[p].mine # 0
  /\ th' = [th EXCEPT ![p] = [@ EXCEPT !.pc = "u1", !.o = th[p].mine, !.mine = 0, !.ops = @ + 1]]
  /\ ev' = Event("inv", p, 0, "unsub")
  /\ UNCHANGED <<conf, mu, cur, ngen, rc, hasE, hasC, aware, G, O, used, nsrc, torn, genOfK>>

U1(p) ==
  /\ th[p].pc = "u1"
  /\ LET o == th[p].o IN
       IF O[o].st = 0 THEN /\ O' = [O EXCEPT ![o].st = 2, ![o].done = TRUE]
                           /\ th' = [th EXCEPT ![p] = [@ EXCEPT !.pc = "t2", !.after = "ret"]]
                      ELSE /\ O' = O /\ th' = [th EXCEPT ![p].pc = "ret"]          \* a terminal got there first: its thread runs the teardown
  /\ ev' = NoEv /\ UNCHANGED <<conf, mu, cur, ngen, rc, hasE, hasC, aware, G, used, nsrc, torn, genOfK>>

(* ------------------------- the source terminates (harness thread) ------------------------- *)
LiveK == {k \in 1..nsrc : k \notin torn}
Max(S) == CHOOSE x \in S : \A y \in S : y <= x

StartTerm(p, kind) ==
  /\ th[p].pc = "idle"
  /\ th' = [th EXCEPT ![p] = [@ EXCEPT !.pc = "e0", !.kind = kind, !.ops = @ + 1]]
  /\ ev' = Event("inv", p, 0, IF kind = "E" THEN "error" ELSE "complete")
  /\ UNCHANGED <<conf, mu, cur, ngen, rc, hasE, hasC, aware, G, O, used, nsrc, torn, genOfK>>

\* the harness picks the most recent source subscription that is neither torn down nor ended (serialised by its emit mutex)
E0(p) ==
  /\ th[p].pc = "e0" /\ ~(\E q \in P \ {p} : th[q].pc \in {"e1", "e2", "e3a", "e3b", "e3c", "e3d", "e4"} \/ (th[q].pc = "t2" /\ th[q].after = "e3b")
                                       \/ (th[q].pc = "td" /\ (th[q].after2 \in {"e3a", "e3b", "ret"} /\ th[q].kind # "N")))
  /\ IF LiveK = {} THEN /\ th' = [th EXCEPT ![p].pc = "ret"] /\ ev' = NoEv /\ torn' = torn
     ELSE LET k == Max(LiveK) IN
          /\ th' = [th EXCEPT ![p] = [@ EXCEPT !.pc = "e1", !.g = genOfK[k]]]
          /\ ev' = Event("srcEnd", 0, k, "N") /\ torn' = torn \cup {k}
  /\ UNCHANGED <<conf, mu, cur, ngen, rc, hasE, hasC, aware, G, O, used, nsrc, genOfK>>

E1(p) ==
  /\ th[p].pc = "e1"
  /\ LET g == th[p].g IN
       IF G[g].pstatus = 0 THEN /\ G' = [G EXCEPT ![g].pstatus = 1] /\ th' = [th EXCEPT ![p].pc = "e2"]
                           ELSE /\ G' = G /\ th' = [th EXCEPT ![p].pc = "e4"]                      \* dropped by the closed proxy
  /\ ev' = NoEv /\ UNCHANGED <<conf, mu, cur, ngen, rc, hasE, hasC, aware, O, used, nsrc, torn, genOfK>>

E2(p) ==
  /\ th[p].pc = "e2"
  /\ LET g == th[p].g
         rs == (th[p].kind = "E" /\ Re) \/ (th[p].kind = "C" /\ Rc)
         r == IF rs THEN ResetG(G, g) ELSE [G |-> G, run |-> FALSE]
     IN /\ rs => mu = 0
        /\ G' = r.G
        /\ cur' = IF rs /\ cur = g THEN 0 ELSE cur
        /\ hasE' = IF ~rs /\ th[p].kind = "E" THEN [hasE EXCEPT ![Idx(g)] = TRUE] ELSE hasE
        /\ hasC' = IF ~rs /\ th[p].kind = "C" THEN [hasC EXCEPT ![Idx(g)] = TRUE] ELSE hasC
        /\ mu' = IF r.run THEN p ELSE mu
        /\ th' = [th EXCEPT ![p] = Then(@, r.run, g, "e3a")]
  /\ ev' = NoEv
  /\ UNCHANGED <<conf, ngen, rc, aware, O, used, nsrc, torn, genOfK>>

E3a(p) ==
  /\ th[p].pc = "e3a" /\ ~G[th[p].g].slock
  /\ G' = [G EXCEPT ![th[p].g].slock = TRUE, ![th[p].g].sterm = th[p].kind]
  /\ th' = [th EXCEPT ![p] = [@ EXCEPT !.pc = "e3b", !.todo = G[th[p].g].sobs]]
  /\ ev' = NoEv /\ UNCHANGED <<conf, mu, cur, ngen, rc, hasE, hasC, aware, O, used, nsrc, torn, genOfK>>

E3b(p) ==
  /\ th[p].pc = "e3b"
  /\ IF th[p].todo = {}
       THEN /\ G' = [G EXCEPT ![th[p].g].slock = FALSE, ![th[p].g].sobs = {}]
            /\ th' = [th EXCEPT ![p].pc = "e4"] /\ O' = O /\ ev' = NoEv
       ELSE \E o \in th[p].todo :
            /\ G' = G
            /\ IF O[o].st = 0
                 THEN /\ O' = [O EXCEPT ![o].st = 1] /\ ev' = NoEv                               \* the CAS of the observer's status ...
                      /\ th' = [th EXCEPT ![p] = [@ EXCEPT !.todo = @ \ {o}, !.o = o, !.pc = "e3c"]]
                 ELSE /\ O' = O /\ ev' = NoEv /\ th' = [th EXCEPT ![p].todo = @ \ {o}]       \* closed meanwhile: dropped
  /\ UNCHANGED <<conf, mu, cur, ngen, rc, hasE, hasC, aware, used, nsrc, torn, genOfK>>

\* ... then its terminal callback
E3c(p) ==
  /\ th[p].pc = "e3c"
  /\ ev' = Event("recv", 0, th[p].o, th[p].kind) /\ th' = [th EXCEPT ![p].pc = "e3d"]
  /\ UNCHANGED <<conf, mu, cur, ngen, rc, hasE, hasC, aware, G, O, used, nsrc, torn, genOfK>>

\* the observer's subscriber unsubscribes itself after its terminal callback: its teardown runs here if it is registered already
E3d(p) ==
  /\ th[p].pc = "e3d"
  /\ LET o == th[p].o IN
       /\ O' = [O EXCEPT ![o].done = TRUE]
       /\ th' = [th EXCEPT ![p] = IF O[o].reg THEN [@ EXCEPT !.pc = "t2", !.after = "e3b"] ELSE [@ EXCEPT !.pc = "e3b"]]
  /\ ev' = NoEv /\ UNCHANGED <<conf, mu, cur, ngen, rc, hasE, hasC, aware, G, used, nsrc, torn, genOfK>>

E4(p) ==
  /\ th[p].pc = "e4"
  /\ LET r == ProxySubUnsub(G, th[p].g) IN G' = r.G /\ th' = [th EXCEPT ![p] = Then(@, r.run, th[p].g, "ret")]
  /\ ev' = NoEv
  /\ UNCHANGED <<conf, mu, cur, ngen, rc, hasE, hasC, aware, O, used, nsrc, torn, genOfK>>

Ret(p) ==
  /\ th[p].pc = "ret"
  /\ th' = [th EXCEPT ![p] = [@ EXCEPT !.pc = "idle", !.kind = "N"]] /\ ev' = Event("ret", p, 0, "N")
  /\ UNCHANGED <<conf, mu, cur, ngen, rc, hasE, hasC, aware, G, O, used, nsrc, torn, genOfK>>

Internal(p) == S1(p) \/ S2(p) \/ S3a(p) \/ S3b(p) \/ S3c(p) \/ S3d(p) \/ S4(p) \/ T2(p) \/ TD(p) \/ U1(p) \/ E0(p) \/ E1(p) \/ E2(p) \/ E3a(p) \/ E3b(p) \/ E3c(p) \/ E3d(p) \/ E4(p) \/ Ret(p)
\* a value of the source: no effect on the reference counting (trace mode only)
StartNext(p) ==
  /\ th[p].pc = "idle" /\ th' = [th EXCEPT ![p].pc = "ret"] /\ ev' = Event("inv", p, 0, "next")
  /\ UNCHANGED <<conf, mu, cur, ngen, rc, hasE, hasC, aware, G, O, used, nsrc, torn, genOfK>>
Min(S) == CHOOSE x \in S : \A y \in S : x <= y
Start(p) == th[p].ops < MaxOps /\ ((Obs \ used # {} /\ StartSub(p, Min(Obs \ used))) \/ StartUnsub(p) \/ StartTerm(p, "E") \/ StartTerm(p, "C"))
Next == \E p \in P : Internal(p) \/ Start(p)
Spec == Init /\ [][Next]_vars
\* model-checking mode with deadlock detection: the only state without a successor is the one in which every thread has used its operations and is
\* idle again; any other is a call that can never return (a mutex left held, a subject lock never released)
Finished == (\A p \in P : th[p].pc = "idle" /\ th[p].ops = MaxOps) /\ UNCHANGED vars
SpecNoStuckCall == Init /\ [][Next \/ Finished]_vars

View == <<conf, mu, cur, ngen, rc, hasE, hasC, aware, G, O, used, nsrc, torn, genOfK, th>>      \* everything but the event register

AllConfs == {[re |-> a, rc |-> b, rz |-> c] : a \in BOOLEAN, b \in BOOLEAN, c \in BOOLEAN}
OneConf == {[re |-> TRUE, rc |-> TRUE, rz |-> TRUE]}
FlagConf == {[re |-> FALSE, rc |-> FALSE, rz |-> TRUE], [re |-> FALSE, rc |-> TRUE, rz |-> TRUE], [re |-> TRUE, rc |-> FALSE, rz |-> TRUE]}

(* ---------------------------------- properties ---------------------------------- *)
Quiet == \A p \in P : th[p].pc = "idle"
\* C11: at most one live subscription to the source whenever no call is in flight
OneLive == Quiet => Cardinality(LiveK) <= 1
\* C11: reset-on-refcount-zero - once every subscriber has left (unsubscribed or terminated) and no call is in flight, the source is released
AllLeft == \A o \in used : O[o].st # 0
Released == (Quiet /\ Rz /\ AllLeft) => LiveK = {}
NonNegative == \A i \in 0..MaxGen : rc[i] >= 0
\* an observer is registered in at most one subject, and only while it is open
Grammar == \A o \in used : O[o].done => O[o].st # 0
=============================================================================
