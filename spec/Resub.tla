-------------------------------- MODULE Resub --------------------------------
(***************************************************************************)
(* Level 1 - the operators that subscribe to a source REPEATEDLY (C15):    *)
(* Retry / RetryWithConfig, RepeatWith, DoWhile, While, Catch,             *)
(* OnErrorResumeNextWith, Concat / ConcatWith.                             *)
(*                                                                         *)
(* A case fixes the operator configuration, the OUTCOME of every attempt   *)
(* (attempt a emits nv values 10*a+1 .. 10*a+nv and then completes or      *)
(* errors with cause a), the truth sequence of the loop condition and      *)
(* optionally the attempt during which the subscription context is         *)
(* cancelled.  The definition says which attempts are subscribed (strictly *)
(* one after another: the previous one is over and released before the     *)
(* next one starts), what is forwarded and how the stream ends.            *)
(* The state machine runs attempt by attempt so that TLC also checks the   *)
(* invariants (at most one live attempt, attempts in order); the finished  *)
(* run is printed as a JSON case for the Go replayer (direction A).        *)
(***************************************************************************)
EXTENDS Integers, Sequences, FiniteSets, TLC, Json

CONSTANTS Ops,        \* set of operator configurations [op, g, m, r]  (m = count / max retries, r = reset-on-success flag)
          MaxAttempts,
          MaxVals

ErrCancelled == 107

VARIABLES o, outs, conds, cancelAt,    \* the case: operator, outcomes [nv, end], condition values, attempt during which the context is cancelled (0 = never)
          a,          \* attempt being run (0 = before the first)
          retries, out, nsubs, live, state   \* state: "run" | "done"

vars == <<o, outs, conds, cancelAt, a, retries, out, nsubs, live, state>>

Nn(v) == [k |-> "N", v |-> v]
Ee(e) == [k |-> "E", v |-> e]
Cc    == [k |-> "C", v |-> 0]

Outcomes == [nv : 0..MaxVals, end : {"C", "E"}]
\* C14: ONE attempt that emits a value and then NEVER ENDS, below a downstream Take(1): the stream completes on that value, the attempt is
\* released and the Subscribe call that was waiting for the attempt inside the pipeline returns
NeverEnding == <<[nv |-> 1, end |-> "O"]>>
Open == outs # <<>> /\ outs[1].end = "O"
\* an attempt beyond the scripted ones completes empty
Out(i) == IF i <= Len(outs) THEN outs[i] ELSE [nv |-> 0, end |-> "C"]
ValsOf(i) == [j \in 1..Out(i).nv |-> Nn(10 * i + j)]
Cond(i) == IF i + 1 <= Len(conds) THEN conds[i + 1] ELSE FALSE      \* condition for index i (0-based)

NeedsConds == o.op \in {"DoWhile", "While"}
IsRetry == o.op = "Retry"

Init ==
  /\ o \in Ops
  /\ outs \in UNION {[1..n -> Outcomes] : n \in 0..MaxAttempts} \cup (IF o.op = "While" THEN {} ELSE {NeverEnding})
  /\ conds \in (IF o.op \in {"DoWhile", "While"} /\ ~(outs # <<>> /\ outs[1].end = "O") THEN UNION {[1..n -> BOOLEAN] : n \in 1..MaxAttempts} ELSE {<<>>})
  /\ cancelAt \in (IF o.op = "Retry" /\ ~(outs # <<>> /\ outs[1].end = "O") THEN 0..Len(outs) ELSE {0})
  /\ a = 0 /\ retries = 0 /\ out = <<>> /\ nsubs = 0 /\ live = 0 /\ state = "run"

Finish(extra) == out' = out \o extra /\ state' = "done" /\ live' = 0 /\ UNCHANGED <<a, retries, nsubs>>

\* decide whether another attempt starts, BEFORE subscribing (only called with live = 0: the previous attempt is over and released)
Start ==
  /\ state = "run" /\ live = 0
  /\ LET n == a + 1 IN
     CASE o.op = "Retry" ->
            \* Retry stops as soon as the subscription context is cancelled
            IF cancelAt # 0 /\ a >= cancelAt THEN Finish(<<Ee(ErrCancelled)>>)
            ELSE a' = n /\ nsubs' = nsubs + 1 /\ live' = 1 /\ UNCHANGED <<retries, out, state>>
       [] o.op = "RepeatWith" ->
            IF a >= o.m THEN Finish(<<Cc>>) ELSE a' = n /\ nsubs' = nsubs + 1 /\ live' = 1 /\ UNCHANGED <<retries, out, state>>
       [] o.op = "While" ->
            IF Cond(a) THEN a' = n /\ nsubs' = nsubs + 1 /\ live' = 1 /\ UNCHANGED <<retries, out, state>> ELSE Finish(<<Cc>>)
       [] o.op = "DoWhile" ->
            IF a = 0 \/ Cond(a - 1) THEN a' = n /\ nsubs' = nsubs + 1 /\ live' = 1 /\ UNCHANGED <<retries, out, state>> ELSE Finish(<<Cc>>)
       [] o.op \in {"Concat", "OnErrorResumeNext"} ->
            IF a >= o.m THEN Finish(<<>>) ELSE a' = n /\ nsubs' = nsubs + 1 /\ live' = 1 /\ UNCHANGED <<retries, out, state>>
       [] OTHER -> \* Catch: the source, then at most one fallback
            IF a >= 2 THEN Finish(<<>>) ELSE a' = n /\ nsubs' = nsubs + 1 /\ live' = 1 /\ UNCHANGED <<retries, out, state>>
  /\ UNCHANGED <<o, outs, conds, cancelAt>>

\* the running attempt plays its outcome and ends
RunAttempt ==
  /\ state = "run" /\ live = 1
  /\ LET oc == Out(a)  vs == ValsOf(a)  failed == oc.end = "E" IN
     CASE oc.end = "O" ->    \* the never-ending attempt under Take(1): first value, completion, everything released
            /\ out' = out \o <<vs[1], Cc>> /\ state' = "done" /\ live' = 0 /\ UNCHANGED retries
       [] o.op = "Retry" ->
            LET r1 == IF o.r /\ oc.nv > 0 THEN 0 ELSE retries          \* every delivered value resets the count when so configured
                r2 == IF failed THEN r1 + 1 ELSE r1
            IN IF ~failed THEN /\ out' = out \o vs \o <<Cc>> /\ state' = "done" /\ live' = 0 /\ retries' = r2
               ELSE IF o.m = 0 \/ r2 <= o.m THEN /\ out' = out \o vs /\ live' = 0 /\ retries' = r2 /\ UNCHANGED state
               ELSE /\ out' = out \o vs \o <<Ee(a)>> /\ state' = "done" /\ live' = 0 /\ retries' = r2
       [] o.op \in {"RepeatWith", "While", "DoWhile", "Concat"} ->
            IF failed THEN out' = out \o vs \o <<Ee(a)>> /\ state' = "done" /\ live' = 0 /\ UNCHANGED retries
            ELSE IF o.op = "Concat" /\ a = o.m THEN out' = out \o vs \o <<Cc>> /\ state' = "done" /\ live' = 0 /\ UNCHANGED retries
            ELSE out' = out \o vs /\ live' = 0 /\ UNCHANGED <<retries, state>>
       [] o.op = "OnErrorResumeNext" ->
            \* every source runs regardless of how the previous one ended; the terminal of the last one is forwarded
            IF a = o.m THEN out' = out \o vs \o <<IF failed THEN Ee(a) ELSE Cc>> /\ state' = "done" /\ live' = 0 /\ UNCHANGED retries
            ELSE out' = out \o vs /\ live' = 0 /\ UNCHANGED <<retries, state>>
       [] OTHER -> \* Catch
            IF a = 1 /\ failed THEN out' = out \o vs /\ live' = 0 /\ UNCHANGED <<retries, state>>
            ELSE out' = out \o vs \o <<IF failed THEN Ee(a) ELSE Cc>> /\ state' = "done" /\ live' = 0 /\ UNCHANGED retries
  /\ UNCHANGED <<o, outs, conds, cancelAt, a, nsubs>>

Next == Start \/ RunAttempt
Spec == Init /\ [][Next]_vars

(* ------------------------------ properties ----------------------------- *)
AtMostOneLiveAttempt == live \in 0..1
AttemptsInOrder == nsubs = a
Grammar == \A j \in 1..Len(out) : j < Len(out) => out[j].k = "N"
Bounded == a <= MaxAttempts + 2

\* only cases whose scripted outcomes were all meaningful are emitted (no unused outcome, no unused condition value)
Done == state = "done"
EmitCase == (Done /\ nsubs >= Len(outs) /\ (~NeedsConds \/ Len(conds) <= nsubs + 1)) =>
              PrintT(ToJson([o |-> o, outs |-> outs, conds |-> conds, cancelAt |-> cancelAt, open |-> Open, exp |-> [log |-> out, nsubs |-> nsubs]]))
=============================================================================
