------------------------------ MODULE Contract ------------------------------
(***************************************************************************)
(* Level 1 - the observer contract of samber/ro as an ACCEPTOR over        *)
(* API-level events (C01 grammar, C02 serialisation, C03 teardown          *)
(* exactly-once, C06 unsubscribe/Wait/IsClosed truthfulness).              *)
(*                                                                         *)
(* One object under observation (an Observable built by a constructor, or  *)
(* a Subject), observers O, harness threads P.  Each action is one event   *)
(* the harness can see; its enabling condition IS the property.            *)
(*                                                                         *)
(*   CallB(p,k,v,i) / CallE(p) thread p invokes (its i-th call) / returns from  *)
(*                             Complete on the producer side               *)
(*   CbB(o,p,k,v) / CbE(o)     a callback of observer o begins / ends; p is *)
(*                             the producer call it belongs to             *)
(*   Drop(p)                   the dropped-notification hook fired for p   *)
(*   UnsubB(p,o) / UnsubE(p,o) Unsubscribe of o's subscription             *)
(*   AddB(p,i,o) / AddE(p,i)     Add(teardown i) on o's subscription         *)
(*   Td(i)                     teardown i ran                              *)
(*   WaitB(p,o) / WaitE(p,o)   Wait()                                      *)
(*   GetB(p,o) / GetE(p,o,b)   IsClosed() invoked / returned b              *)
(*   Panic(p)                  a disposing call of thread p panicked       *)
(*   Quiesce / End             all threads joined / end of the run         *)
(***************************************************************************)
EXTENDS Integers, Sequences, FiniteSets, TLC

CONSTANTS O,        \* observer ids
          P,        \* thread ids
          TD,       \* teardown ids
          Check     \* subset of {"C01","C02","C03","C06"}: which property's clauses are enforced (a rejected
                    \* trace is then attributable to that property); all four for the abstract model
On(c) == c \in Check

VARIABLES kind,     \* "obs" | "subj"   what the object is
          safe,     \* TRUE: serialisation is promised (safe / eventually-safe / subject); FALSE: unsafe, single producer
          call,     \* call[p] : record describing the producer call in flight (act = FALSE: none)
          inside,   \* inside[o] : number of o's callbacks in flight
          termB,    \* termB[o] : a terminal callback of o has begun
          termE,    \* termE[o] : ... has returned
          unsB,     \* unsB[o]  : some Unsubscribe(o) call has started (or o unsubscribed from inside a callback)
          unsE,     \* unsE[o]  : some Unsubscribe(o) call has returned
          tdRan,    \* tdRan[i] : how often teardown i ran
          tdOf,     \* tdOf[i]  : observer whose subscription teardown i was added to (-1 = not added)
          tdSt,     \* tdSt[i]  : "no" | "adding" | "added"
          tdLate,   \* tdLate[i]: the subscription was DISPOSED (see disposed) before Add(i) was invoked
          unsAct,   \* unsAct[o] : number of Unsubscribe(o) calls in flight
          disposed, \* disposed[o]: every call that could be disposing o's subscription has returned
          objTerm,  \* the object (subject / observable's single subscriber) accepted a terminal: a call carrying E/C has begun delivery
          waiting,  \* waiting[p] : observer p is waiting on (-1 none)
          quiet,    \* all harness threads have been joined
          gsnap     \* gsnap[p]: what thread p's IsClosed call could see when it was invoked ("none" when no call)

cvars == <<kind, safe, call, inside, termB, termE, unsB, unsE, tdRan, tdOf, tdSt, tdLate, unsAct, disposed, objTerm, waiting, quiet, gsnap>>

NoCall == [act |-> FALSE, k |-> "N", v |-> 0, i |-> -1, doomed |-> FALSE, cut |-> FALSE, late |-> {}, ncb |-> 0, ndrop |-> 0]

CInit(kd, sf) ==
  /\ kind = kd /\ safe = sf
  /\ call = [p \in P |-> NoCall]
  /\ inside = [o \in O |-> 0]
  /\ termB = [o \in O |-> FALSE] /\ termE = [o \in O |-> FALSE]
  /\ unsB = [o \in O |-> FALSE] /\ unsE = [o \in O |-> FALSE]
  /\ tdRan = [i \in TD |-> 0] /\ tdOf = [i \in TD |-> -1]
  /\ tdSt = [i \in TD |-> "no"] /\ tdLate = [i \in TD |-> FALSE]
  /\ unsAct = [o \in O |-> 0] /\ disposed = [o \in O |-> FALSE]
  /\ objTerm = FALSE
  /\ waiting = [p \in P |-> -1]
  /\ quiet = FALSE
  /\ gsnap = [p \in P |-> "none"]

\* some thread other than p is inside a terminal producer call
OtherDisposer(p, q) == \E r \in P \ {p, q} : call[r].act /\ call[r].k \in {"E", "C"}

\* callback (k,v) belongs to the call thread p has in flight (p = -1: no producer identity, e.g. a replayed value)
Match(p, k, v, i) == p \in P /\ call[p].act /\ call[p].k = k /\ call[p].v = v /\ call[p].i = i

Closing(o) == termE[o] \/ unsB[o]        \* the subscription of o may legitimately be disposing
ClosedFor(o) == termB[o] \/ unsE[o]

(* ---- producer side ---------------------------------------------------- *)
CallB(p, k, v, i) ==
  /\ ~call[p].act
  /\ call' = [call EXCEPT ![p] = [act |-> TRUE, k |-> k, v |-> v, i |-> i,
                 \* doomed: the object had already terminated (a terminal was accepted and its call returned is not needed:
                 \* the status word is set before delivery) or - for a plain observable - its only subscription was unsubscribed
                 doomed |-> objTerm,
                 cut |-> kind = "obs" /\ \E o \in O : unsE[o],
                 late |-> {o \in O : unsE[o]}, ncb |-> 0, ndrop |-> 0]]
  /\ UNCHANGED <<kind, safe, inside, termB, termE, unsB, unsE, tdRan, tdOf, tdSt, tdLate, unsAct, disposed, objTerm, waiting, quiet, gsnap>>

CallE(p) ==
  /\ call[p].act
  \* C01: a notification issued after the terminal is discarded AND surfaced through the hook, never delivered
  /\ On("C01") => (call[p].doomed => (call[p].ncb = 0 /\ call[p].ndrop >= 1))
  \* for a plain observable every notification is either delivered or reported as dropped
  /\ On("C01") => ((kind = "obs") => (call[p].ncb + call[p].ndrop >= 1))
  \* C07: an error emitted by the source reaches the subscriber: it may only go undelivered when the stream was already
  \* terminated by another notification or unsubscribed (never because the producer lock happened to be busy)
  /\ On("C07") => ((kind = "obs" /\ call[p].k = "E" /\ call[p].ncb = 0) => \E o \in O : termB[o] \/ unsB[o])
  \* C06: a notification issued after Unsubscribe returned is not delivered (it is dropped)
  /\ On("C06") => (call[p].cut => call[p].ncb = 0)
  /\ call' = [call EXCEPT ![p] = NoCall]
  \* a terminal call that has returned has set the status word of the object, whoever won
  /\ objTerm' = (objTerm \/ call[p].k \in {"E", "C"})
  /\ disposed' = IF call[p].k \in {"E", "C"} /\ ~OtherDisposer(p, -1)
                 THEN [o \in O |-> disposed[o] \/ (unsAct[o] = 0 /\ (termE[o] \/ unsE[o]))]
                 ELSE disposed
  /\ UNCHANGED <<kind, safe, inside, termB, termE, unsB, unsE, tdRan, tdOf, tdSt, tdLate, unsAct, waiting, quiet, gsnap>>

Drop(p) ==
  \* a stored value (replay / async / unicast backlog) may be dropped long after the call that carried it returned
  /\ call' = IF p \in P /\ call[p].act THEN [call EXCEPT ![p].ndrop = @ + 1] ELSE call
  /\ UNCHANGED <<kind, safe, inside, termB, termE, unsB, unsE, tdRan, tdOf, tdSt, tdLate, unsAct, disposed, objTerm, waiting, quiet, gsnap>>

(* ---- observer side ---------------------------------------------------- *)
CbB(o, p, k, v, i) ==
  \* C02: callbacks of one observer never overlap
  /\ On("C02") => (safe => inside[o] = 0)
  \* C07: a failure reaches the subscriber AFTER all values emitted before it: when the Error callback begins no value callback of
  \* this observer is still running (serialisation promised), and nothing follows it
  /\ On("C07") => ((k = "E" /\ safe) => inside[o] = 0)
  /\ On("C07") => ~termB[o]
  \* C01: values, then at most one terminal, then silence
  /\ On("C01") => ~termB[o]
  \* the callback belongs to a call that is in flight and carries this notification, delivered once
  /\ On("C01") => ((kind = "obs") => (Match(p, k, v, i) /\ call[p].ncb = 0 /\ ~call[p].doomed))
  \* C06: nothing whose emission began after Unsubscribe(o) returned is delivered
  /\ On("C06") => (Match(p, k, v, i) => (o \notin call[p].late /\ ~call[p].cut))
  /\ inside' = [inside EXCEPT ![o] = @ + 1]
  /\ termB' = [termB EXCEPT ![o] = @ \/ k \in {"E", "C"}]
  /\ objTerm' = (objTerm \/ (k \in {"E", "C"} /\ Match(p, k, v, i)))
  /\ call' = IF Match(p, k, v, i) THEN [call EXCEPT ![p].ncb = @ + 1] ELSE call
  /\ UNCHANGED <<kind, safe, termE, unsB, unsE, tdRan, tdOf, tdSt, tdLate, unsAct, disposed, waiting, quiet, gsnap>>

CbE(o, k) ==
  /\ inside[o] > 0
  /\ inside' = [inside EXCEPT ![o] = @ - 1]
  /\ termE' = [termE EXCEPT ![o] = @ \/ k \in {"E", "C"}]
  /\ UNCHANGED <<kind, safe, call, termB, unsB, unsE, tdRan, tdOf, tdSt, tdLate, unsAct, disposed, objTerm, waiting, quiet, gsnap>>

(* ---- subscription side ------------------------------------------------ *)
UnsubB(o) ==
  /\ unsB' = [unsB EXCEPT ![o] = TRUE]
  /\ unsAct' = [unsAct EXCEPT ![o] = @ + 1]
  /\ UNCHANGED <<kind, safe, call, inside, termB, termE, unsE, tdRan, tdOf, tdSt, tdLate, disposed, objTerm, waiting, quiet, gsnap>>

UnsubE(o) ==
  /\ unsAct[o] > 0
  /\ unsE' = [unsE EXCEPT ![o] = TRUE]
  /\ unsAct' = [unsAct EXCEPT ![o] = @ - 1]
  \* disposal is complete once no other call that might be running the finalizers is still in flight
  /\ disposed' = [disposed EXCEPT ![o] = @ \/ (unsAct[o] = 1 /\ ~\E r \in P : call[r].act /\ call[r].k \in {"E", "C"})]
  /\ UNCHANGED <<kind, safe, call, inside, termB, termE, unsB, tdRan, tdOf, tdSt, tdLate, objTerm, waiting, quiet, gsnap>>

AddB(i, o) ==
  /\ tdSt[i] = "no"
  /\ tdSt' = [tdSt EXCEPT ![i] = "adding"]
  /\ tdOf' = [tdOf EXCEPT ![i] = o]
  /\ tdLate' = [tdLate EXCEPT ![i] = disposed[o]]
  /\ UNCHANGED <<kind, safe, call, inside, termB, termE, unsB, unsE, tdRan, unsAct, disposed, objTerm, waiting, quiet, gsnap>>

AddE(i) ==
  /\ tdSt[i] = "adding"
  \* C03: a teardown added after disposal runs immediately
  /\ On("C03") => (tdLate[i] => tdRan[i] = 1)
  \* C14: the teardown IS the cancellation of whatever was registered (an upstream subscription): registered on a subscription that is
  \* already closed, it has run when Add returns - nothing stays subscribed behind a closed subscription
  /\ On("C14") => (tdLate[i] => tdRan[i] >= 1)
  /\ tdSt' = [tdSt EXCEPT ![i] = "added"]
  /\ UNCHANGED <<kind, safe, call, inside, termB, termE, unsB, unsE, tdRan, tdOf, tdLate, unsAct, disposed, objTerm, waiting, quiet, gsnap>>

Td(i) ==
  \* C03: exactly once ...
  /\ On("C03") => tdRan[i] = 0
  /\ tdSt[i] # "no"
  \* ... and only when the stream completed, errored (after the terminal callback returned) or was unsubscribed
  /\ On("C03") => Closing(tdOf[i])
  /\ tdRan' = [tdRan EXCEPT ![i] = @ + 1]
  /\ UNCHANGED <<kind, safe, call, inside, termB, termE, unsB, unsE, tdOf, tdSt, tdLate, unsAct, disposed, objTerm, waiting, quiet, gsnap>>

Panic(p, o) ==
  \* C03: the joined panic of the teardowns is raised only after every teardown of that subscription has run
  /\ On("C03") => \A i \in TD : (tdOf[i] = o /\ tdSt[i] = "added") => tdRan[i] = 1
  /\ UNCHANGED cvars

PanicAdd(i) ==
  \* Add on a disposed subscription runs the teardown at once; its panic reaches the caller of Add
  /\ tdSt[i] = "adding" /\ (On("C03") => tdRan[i] = 1)
  /\ UNCHANGED cvars

WaitB(p, o) ==
  /\ waiting[p] = -1
  /\ waiting' = [waiting EXCEPT ![p] = o]
  /\ UNCHANGED <<kind, safe, call, inside, termB, termE, unsB, unsE, tdRan, tdOf, tdSt, tdLate, unsAct, disposed, objTerm, quiet, gsnap>>

WaitE(p) ==
  /\ waiting[p] # -1
  \* C06: Wait returns only once the subscription is closed; when the stream ended by itself, after the terminal callback returned
  /\ On("C06") => Closing(waiting[p])
  /\ waiting' = [waiting EXCEPT ![p] = -1]
  /\ UNCHANGED <<kind, safe, call, inside, termB, termE, unsB, unsE, tdRan, tdOf, tdSt, tdLate, unsAct, disposed, objTerm, quiet, gsnap>>

GetB(p, o) ==
  \* IsClosed() invoked: remember whether the subscription was already definitely closed
  /\ gsnap[p] = "none"
  /\ gsnap' = [gsnap EXCEPT ![p] = IF termE[o] \/ unsE[o] THEN "closed" ELSE "open"]
  /\ UNCHANGED <<kind, safe, call, inside, termB, termE, unsB, unsE, tdRan, tdOf, tdSt, tdLate, unsAct, disposed, objTerm, waiting, quiet>>

GetE(p, o, b) ==
  \* IsClosed tells the truth (C06): TRUE only if by now a terminal was accepted or an Unsubscribe started;
  \* FALSE only if, when it was invoked, no terminal callback had returned and no Unsubscribe had returned
  /\ gsnap[p] # "none"
  /\ On("C06") => (b => (termB[o] \/ unsB[o] \/ objTerm \/ \E q \in P : call[q].act /\ call[q].k \in {"E", "C"}))
  /\ On("C06") => (~b => gsnap[p] = "open")
  /\ gsnap' = [gsnap EXCEPT ![p] = "none"]
  /\ UNCHANGED <<kind, safe, call, inside, termB, termE, unsB, unsE, tdRan, tdOf, tdSt, tdLate, unsAct, disposed, objTerm, waiting, quiet>>

Quiesce ==
  /\ \A p \in P : ~call[p].act
  /\ \A o \in O : inside[o] = 0
  \* C06: Wait always returns once the subscription is closed (every other thread has been joined: nothing else can unblock it)
  /\ On("C06") => \A p \in P : waiting[p] # -1 => ~Closing(waiting[p])
  \* C03: an open subscription has run none of its teardowns, a closed one all of them, once
  /\ On("C03") => \A i \in TD : tdSt[i] = "added" =>
        IF Closing(tdOf[i]) THEN tdRan[i] = 1 ELSE tdRan[i] = 0
  \* C14: once every thread has been joined, a subscription that terminated or was unsubscribed has cancelled everything registered on it,
  \* also what was being registered while it closed
  /\ On("C14") => \A i \in TD : (tdSt[i] = "added" /\ Closing(tdOf[i])) => tdRan[i] >= 1
  /\ quiet' = TRUE
  /\ UNCHANGED <<kind, safe, call, inside, termB, termE, unsB, unsE, tdRan, tdOf, tdSt, tdLate, unsAct, disposed, objTerm, waiting, gsnap>>

End ==
  /\ quiet
  /\ \A o \in O : inside[o] = 0
  /\ On("C06") => \A p \in P : waiting[p] = -1
  /\ On("C03") => \A i \in TD : tdSt[i] = "added" => tdRan[i] = 1
  /\ UNCHANGED cvars

(* Invariants that hold by construction of the acceptor - kept for TLC runs of the     *)
(* abstract spec by itself (Contract_MC).                                              *)
TypeOK == \A o \in O : inside[o] \in 0..Cardinality(P)
NoOverlap == safe => \A o \in O : inside[o] <= 1
Grammar == \A o \in O : termE[o] => termB[o]
=============================================================================
