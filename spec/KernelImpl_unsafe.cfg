SPECIFICATION Spec
CONSTANTS NProd = 1
 MaxLen = 3
 Mode = "unsafe"
 WithUnsub = TRUE
 WithAdd = TRUE
INVARIANTS Grammar NoOverlap TeardownAtMostOnce TeardownAtEnd CutsDelivery Accounted LocksReleased
PROPERTY Terminates
