SPECIFICATION Spec
CONSTANTS Cap = 2
 Len0 = 4
 WithUnsub = FALSE
INVARIANTS FIFO TerminalLast RunAhead CloseOnce NoLoss NoSendOnClosed
