--------------------------------- MODULE Gen ---------------------------------
(* Generator configurations of Pipeline.tla (direction A).  The cfg files choose ChainSet. *)
EXTENDS Catalog, Randomization

CONSTANTS Vals, MaxSteps, MaxIllegal, Cuts, ChainSetName, SampleN, MaxSubs, FaultSetName, SrcBaseName, NilErr

ValsNeg == {-1, 0, 2}      \* a negative, zero, a positive; both parities; 2 triggers the error-returning callback

ChainSet ==
  CASE ChainSetName = "single" -> Chains1
    [] ChainSetName = "pairs"  -> Chains2T
    [] ChainSetName = "pairs-sample" -> RandomSubset(SampleN, Chains2T)
    [] ChainSetName = "bridges" -> {<<s>> : s \in Sinks \cup Plain("Materialize", {0})}
                                   \cup {<<a, b>> : a \in Plain("Materialize", {0}), b \in NotifConsumers}
                                   \cup {<<a, b, c>> : a \in {x \in Rep : x.op \in {"Map", "Filter", "Take", "Skip", "StartWith", "OnErrorReturn"}}, b \in Plain("Materialize", {0}), c \in NotifConsumers}
    [] OTHER -> Chains1

FaultSet ==
  CASE FaultSetName = "none" -> {[stage |-> 0, at |-> 0, kind |-> "none"]}
    [] FaultSetName = "callbacks" -> {[stage |-> st, at |-> at, kind |-> kd] : st \in {-1, 1, 2}, at \in 0..2, kd \in {"panic-err", "panic-val"}}
    [] FaultSetName = "observer" -> {[stage |-> st, at |-> at, kind |-> kd] : st \in {98, 99}, at \in 0..1, kd \in {"panic-err", "panic-val"}}
    [] FaultSetName = "observer-term" -> {[stage |-> 98, at |-> 0, kind |-> kd] : kd \in {"panic-err", "panic-val"}}
    [] OTHER -> {[stage |-> 0, at |-> 0, kind |-> "none"]}

VARIABLES chain, sts, phase, srcSub, srcTorn, srcDone, unsub, closed, log, nitems, nillegal, h, fault, nsubs, prev
P == INSTANCE Pipeline WITH Chains <- ChainSet, Faults <- FaultSet, SrcBase <- (IF SrcBaseName = "hot" THEN {"hot"} ELSE {"sub"}), NilErr <- NilErr

Spec == P!Spec
Grammar == P!Grammar
CtxDerived == P!CtxDerived
ClosedImpliesTorn == P!ClosedImpliesTorn
TypeOK == P!TypeOK
EmitCase == P!EmitCase
\* exhaustive checking configurations hide the history (it multiplies states without adding behaviour)
View == <<chain, sts, phase, srcSub, srcTorn, srcDone, unsub, closed, log, nitems, nillegal, fault, nsubs, prev>>
=============================================================================
