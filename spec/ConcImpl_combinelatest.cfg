SPECIFICATION Spec
CONSTANTS
 Op = "CombineLatest"
 NVals = 2
 Completes = {}
 Atomic = FALSE
INVARIANTS OnlySent Explained
CHECK_DEADLOCK FALSE
