SPECIFICATION Spec
CONSTANTS
 Confs <- OneConf
 P = {1, 2, 3}
 MaxGen = 3
 MaxObs = 3
 MaxOps = 2
 Aware = {FALSE}
VIEW View
INVARIANTS OneLive NonNegative Grammar
CHECK_DEADLOCK FALSE
