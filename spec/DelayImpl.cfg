SPECIFICATION Spec
CONSTANTS N = 3
 D = 2
 MaxT = 6
INVARIANTS FIFO NeverEarly
