----------------------------- MODULE SubjectImpl -----------------------------
(***************************************************************************)
(* Level 2 - PublishSubject / ReplaySubject at the grain of the code       *)
(* (subject_publish.go, subject_replay.go): one mutex `mu`, the status     *)
(* word, the replay buffer and the observer map.                           *)
(*                                                                         *)
(*   Next(v)       lock; if status = next: [append v to the buffer;]       *)
(*                 deliver v to every registered observer, one by one;     *)
(*                 unlock                                                  *)
(*   Complete      lock; status := complete; deliver to every observer;    *)
(*                 unlock; unsubscribeAll (out of the lock)                *)
(*   Subscribe(o)  lock; terminated: deliver [the buffer and] the terminal;*)
(*                 else [deliver the buffer to o;] register o; unlock      *)
(*   Unsubscribe(o) WITHOUT the mutex: mark o's subscriber closed, then    *)
(*                 delete o from the map (two steps)                       *)
(*                                                                         *)
(* Action names are the hook points of the real code (lock#0, deliver,     *)
(* unlocked#0): park mode of the harness explores the same preemptions on  *)
(* the real subjects and SubjectLin.tla judges the recorded histories.     *)
(* Here TLC explores EVERY interleaving in small scope and checks the      *)
(* consequences of linearizability that the lock placement buys:           *)
(*   SameOrder     all observers see the published values in ONE order     *)
(*   NoGap         an observer misses nothing between two values it saw    *)
(*   ReplayExact   a joiner gets exactly the last Buf values published     *)
(*                 before its registration, then everything published      *)
(*                 after it - nothing twice, nothing missing               *)
(*   TerminalLast  nothing is delivered after the terminal                 *)
(* The constant LockedBroadcast / LockedReplay = FALSE model the two       *)
(* "optimisations" (deliver after unlocking / replay before locking) and   *)
(* TLC shows the invariant each one breaks (SubjectImpl_unlocked*.cfg).    *)
(***************************************************************************)
EXTENDS Integers, Sequences, FiniteSets, TLC

CONSTANTS Buf,             \* replay buffer size (0 = publish subject)
          Producers,       \* set of producer ids; producer p publishes the values 10*p+1 .. 10*p+NVals, then may complete
          NVals,
          Completer,       \* the producer that calls Complete after its values (0 = nobody)
          Observers,       \* observer ids; each subscribes once, at any moment
          Leavers,         \* subset of Observers that also unsubscribe at some moment
          LockedBroadcast, \* TRUE: as in the code; FALSE: Next unlocks BEFORE delivering
          LockedReplay     \* TRUE: as in the code; FALSE: Subscribe replays a snapshot BEFORE taking the lock for the registration

VARIABLES mu,        \* 0 = free, else the holder (a producer id, or 100 + observer id)
          status,    \* "N" | "C"
          buffer,    \* replay buffer (last Buf values)
          reg,       \* registered observers (the map)
          closed,    \* observers whose subscriber is closed (unsubscribed or terminated)
          seen,      \* seen[o]: what observer o received, in order (values, then possibly TERM)
          pub,       \* the publication order: values in the order their Next took the lock
          regAt,     \* regAt[o]: Len(pub) when o was registered (-1 = not yet)
          ppc, pidx, todo, cur,   \* producers: pc, next value index, observers still to visit, value being delivered
          opc, snap              \* observers: pc ("idle" "snapd" "locked" "done" "closing" "gone"), replay snapshot

vars == <<mu, status, buffer, reg, closed, seen, pub, regAt, ppc, pidx, todo, cur, opc, snap>>

Val(p, i) == 10 * p + i
TERM == 0                    \* the completion, in an observer's log (values are >= 11; TLC cannot compare integers with strings)
Trim(s) == IF Len(s) <= Buf THEN s ELSE SubSeq(s, Len(s) - Buf + 1, Len(s))
Deliver(o, x) == IF o \in closed THEN seen ELSE [seen EXCEPT ![o] = Append(@, x)]
RECURSIVE DeliverAll(_, _, _)
DeliverAll(s, o, xs) == IF xs = <<>> THEN s ELSE DeliverAll([s EXCEPT ![o] = Append(@, Head(xs))], o, Tail(xs))

Init ==
  /\ mu = 0 /\ status = "N" /\ buffer = <<>> /\ reg = {} /\ closed = {}
  /\ seen = [o \in Observers |-> <<>>] /\ pub = <<>> /\ regAt = [o \in Observers |-> -1]
  /\ ppc = [p \in Producers |-> "idle"] /\ pidx = [p \in Producers |-> 1]
  /\ todo = [p \in Producers |-> {}] /\ cur = [p \in Producers |-> 0]
  /\ opc = [o \in Observers |-> "idle"] /\ snap = [o \in Observers |-> <<>>]

(* ------------------------------ producers ------------------------------ *)
\* subject_*:NextWithContext:lock#0
NextLock(p) ==
  /\ ppc[p] = "idle" /\ pidx[p] <= NVals /\ mu = 0
  /\ LET v == Val(p, pidx[p]) IN
     IF status = "N"
       THEN /\ pub' = Append(pub, v) /\ buffer' = Trim(Append(buffer, v))
            /\ cur' = [cur EXCEPT ![p] = v] /\ todo' = [todo EXCEPT ![p] = reg]
            /\ IF LockedBroadcast THEN mu' = p /\ ppc' = [ppc EXCEPT ![p] = "bcast"]
                                  ELSE mu' = 0 /\ ppc' = [ppc EXCEPT ![p] = "bcast"]      \* the snapshot of the map is taken, the lock is given back at once
       ELSE /\ UNCHANGED <<pub, buffer, cur, todo, mu, ppc>>                                \* dropped
  /\ pidx' = [pidx EXCEPT ![p] = @ + 1]
  /\ UNCHANGED <<status, reg, closed, seen, regAt, opc, snap>>

\* subscriber:NextWithContext:deliver - one observer at a time; an observer deleted from the map meanwhile may or may not be visited
NextDeliver(p, o) ==
  /\ ppc[p] = "bcast" /\ o \in todo[p]
  /\ todo' = [todo EXCEPT ![p] = @ \ {o}]
  /\ seen' = Deliver(o, cur[p])
  /\ UNCHANGED <<mu, status, buffer, reg, closed, pub, regAt, ppc, pidx, cur, opc, snap>>

\* subject_*:NextWithContext:unlocked#0
NextUnlock(p) ==
  /\ ppc[p] = "bcast" /\ todo[p] = {}
  /\ mu' = IF LockedBroadcast THEN 0 ELSE mu
  /\ ppc' = [ppc EXCEPT ![p] = "idle"]
  /\ UNCHANGED <<status, buffer, reg, closed, seen, pub, regAt, pidx, todo, cur, opc, snap>>

\* Complete: the terminal is broadcast under the lock (one step here: no value can interleave), then the map is emptied
Complete(p) ==
  /\ p = Completer /\ ppc[p] = "idle" /\ pidx[p] > NVals /\ mu = 0 /\ status = "N"
  /\ status' = "C"
  /\ seen' = [o \in Observers |-> IF o \in reg /\ o \notin closed THEN Append(seen[o], TERM) ELSE seen[o]]
  /\ closed' = closed \cup reg /\ reg' = {}
  /\ ppc' = [ppc EXCEPT ![p] = "done"]
  /\ UNCHANGED <<mu, buffer, pub, regAt, pidx, todo, cur, opc, snap>>

(* ------------------------------ observers ------------------------------ *)
\* the "optimisation": the buffer is copied before the lock is taken
SubSnapshot(o) ==
  /\ ~LockedReplay /\ opc[o] = "idle"
  /\ snap' = [snap EXCEPT ![o] = buffer] /\ opc' = [opc EXCEPT ![o] = "snapd"]
  /\ UNCHANGED <<mu, status, buffer, reg, closed, seen, pub, regAt, ppc, pidx, todo, cur>>

\* subject_*:SubscribeWithContext:lock#0 ... ret#0 (replay + registration are one critical section in the code)
Subscribe(o) ==
  /\ opc[o] = (IF LockedReplay THEN "idle" ELSE "snapd") /\ mu = 0
  /\ LET rp == IF LockedReplay THEN buffer ELSE snap[o] IN
     IF status = "N"
       THEN /\ seen' = DeliverAll(seen, o, rp)
            /\ reg' = reg \cup {o} /\ regAt' = [regAt EXCEPT ![o] = Len(pub)]
            /\ UNCHANGED closed
       ELSE /\ seen' = DeliverAll(seen, o, rp \o <<TERM>>)
            /\ closed' = closed \cup {o} /\ regAt' = [regAt EXCEPT ![o] = Len(pub)]
            /\ UNCHANGED reg
  /\ opc' = [opc EXCEPT ![o] = "done"]
  /\ UNCHANGED <<mu, status, buffer, pub, ppc, pidx, todo, cur, snap>>

\* Unsubscribe does not take the subject's mutex: the subscriber is closed first, the map entry is deleted afterwards
UnsubClose(o) ==
  /\ o \in Leavers /\ opc[o] = "done" /\ o \notin closed
  /\ closed' = closed \cup {o} /\ opc' = [opc EXCEPT ![o] = "closing"]
  /\ UNCHANGED <<mu, status, buffer, reg, seen, pub, regAt, ppc, pidx, todo, cur, snap>>
UnsubDelete(o) ==
  /\ opc[o] = "closing"
  /\ reg' = reg \ {o} /\ opc' = [opc EXCEPT ![o] = "gone"]
  /\ UNCHANGED <<mu, status, buffer, closed, seen, pub, regAt, ppc, pidx, todo, cur, snap>>

Next ==
  \/ \E p \in Producers : NextLock(p) \/ NextUnlock(p) \/ Complete(p) \/ \E o \in Observers : NextDeliver(p, o)
  \/ \E o \in Observers : SubSnapshot(o) \/ Subscribe(o) \/ UnsubClose(o) \/ UnsubDelete(o)

Spec == Init /\ [][Next]_vars

(* ------------------------------ properties ----------------------------- *)
ValuesOf(s) == SelectSeq(s, LAMBDA x : x # TERM)
PosIn(s, x) == CHOOSE j \in 1..Len(s) : s[j] = x
In(s, x) == \E j \in 1..Len(s) : s[j] = x

\* every observer sees the values in the publication order (hence all observers agree on one order)
SameOrder == \A o \in Observers : LET vs == ValuesOf(seen[o]) IN
               \A i, j \in 1..Len(vs) : i < j => (In(pub, vs[i]) /\ In(pub, vs[j]) /\ PosIn(pub, vs[i]) < PosIn(pub, vs[j]))

\* between two values an observer received, it received every value published in between
NoGap == \A o \in Observers : LET vs == ValuesOf(seen[o]) IN
           \A i \in 1..(Len(vs) - 1) : PosIn(pub, vs[i + 1]) = PosIn(pub, vs[i]) + 1

\* a registered observer that is not leaving and whose deliveries are not in flight has received exactly: the last Buf values published
\* before its registration, then everything published since
Quiet == \A p \in Producers : ppc[p] # "bcast"
ReplayExact == \A o \in Observers :
   (Quiet /\ regAt[o] >= 0 /\ o \notin Leavers) =>
      LET from == IF regAt[o] > Buf THEN regAt[o] - Buf + 1 ELSE 1
      IN ValuesOf(seen[o]) = SubSeq(pub, from, Len(pub))

\* nothing after the terminal
TerminalLast == \A o \in Observers : \A j \in 1..Len(seen[o]) : seen[o][j] = TERM => j = Len(seen[o])
LockFree == mu = 0 \/ mu \in Producers
=============================================================================
