SPECIFICATION SpecNoStuckCall
CONSTANTS
 Confs <- FlagConf
 P = {1, 2}
 MaxGen = 3
 MaxObs = 3
 MaxOps = 4
 Aware = {TRUE}
VIEW View
INVARIANTS OneLive NonNegative Grammar Released
CHECK_DEADLOCK TRUE
