SPECIFICATION Spec
CONSTANT Check = {"C01","C02","C03","C06"}
INVARIANT NoOverlap Grammar
CHECK_DEADLOCK FALSE
