SPECIFICATION Spec
CONSTANTS
 Op = "SampleWhen"
 NVals = 3
 NTicks = 3
 SrcEnds = {"C", "E"}
 TickEnds = {"C", "E", "none"}
 Variant = "clearlate"
INVARIANTS NoInvention InOrder Explained
CHECK_DEADLOCK FALSE
