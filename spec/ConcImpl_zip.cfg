SPECIFICATION Spec
CONSTANTS
 Op = "Zip"
 NVals = 2
 Completes = {2}
 Atomic = FALSE
INVARIANTS OnlySent ZipAligned Explained
CHECK_DEADLOCK FALSE
