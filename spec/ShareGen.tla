------------------------------ MODULE ShareGen ------------------------------
(* Generator configurations of ShareSeq.tla (direction A, C11). *)
EXTENDS Integers, Sequences, FiniteSets, TLC
CONSTANTS MaxOps, CfgSetName
Cf(k, b, re, rc, rz) == [kind |-> k, buf |-> b, re |-> re, rc |-> rc, rz |-> rz]
Conn == {<<"publish", 0>>, <<"behavior", 0>>, <<"replay", 1>>, <<"replay", 2>>}
AllCfgs == {Cf(c[1], c[2], re, rc, rz) : c \in Conn, re \in BOOLEAN, rc \in BOOLEAN, rz \in BOOLEAN}
CfgSet == CASE CfgSetName = "all" -> AllCfgs
            [] CfgSetName = "share" -> {Cf("publish", 0, TRUE, TRUE, TRUE)}                                 \* Share()
            [] CfgSetName = "sharereplay" -> {Cf("replay", b, TRUE, FALSE, rz) : b \in {1, 2}, rz \in BOOLEAN}   \* ShareReplay / ShareReplayWithConfig
            [] OTHER -> AllCfgs
VARIABLES cfg, att, status, mem, obs, refs, live, total, flagE, flagC, resub, used, h
S == INSTANCE ShareSeq WITH Cfgs <- CfgSet, Ids <- 1..6
Spec == S!Spec
LiveImpliesAttached == S!LiveImpliesAttached
RefsMatchObservers == S!RefsMatchObservers
NoOrphanUpstream == S!NoOrphanUpstream
EmitCase == S!EmitCase
=============================================================================
