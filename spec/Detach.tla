------------------------------- MODULE Detach -------------------------------
(***************************************************************************)
(* Level 1/2 - the bounded FIFO hand-off used by ObserveOn, SubscribeOn    *)
(* and ToChannel (C08, C17): a producer goroutine, a channel of capacity   *)
(* Cap, a consumer goroutine, and an Unsubscribe that may come at any time *)
(* (sync.Once-protected close of the channel).                             *)
(*                                                                         *)
(* The model follows detachOn (operator_utility.go): the producer's Next   *)
(* is `ch <- n` (blocks when the channel is full), a terminal is `ch <- t; *)
(* close(ch)`, the consumer is `for n := range ch { deliver(n) }`, the     *)
(* teardown is `unsubscribe upstream; close(ch)`.                          *)
(* Properties: FIFO, no loss, terminal last, bounded run-ahead, close      *)
(* exactly once, and the hazard of the design: a send on a closed channel. *)
(***************************************************************************)
EXTENDS Integers, Sequences, FiniteSets, TLC

CONSTANTS Cap,      \* channel capacity (0 = rendezvous)
          Len0,     \* number of values the producer emits before its terminal
          WithUnsub \* BOOLEAN: an Unsubscribe may happen at any point

VARIABLES ch,        \* channel content
          closed,    \* channel closed
          ncloses,   \* how many times close(ch) was executed (sync.Once: must stay <= 1)
          ppc, pnext,   \* producer: control point, next value to send (Len0+1 = the terminal)
          held,      \* value the consumer holds (0 = none), consumer delivering it
          delivered, \* sequence delivered downstream
          returned,  \* number of producer calls that have returned
          upUnsub,   \* upstream unsubscribed (producer's later calls are dropped by its subscriber)
          sendOnClosed \* a send hit a closed channel (panic in the producer's goroutine)

vars == <<ch, closed, ncloses, ppc, pnext, held, delivered, returned, upUnsub, sendOnClosed>>
T == Len0 + 1     \* the terminal is encoded as value Len0+1

Init == /\ ch = <<>> /\ closed = FALSE /\ ncloses = 0 /\ ppc = "idle" /\ pnext = 1 /\ held = 0
        /\ delivered = <<>> /\ returned = 0 /\ upUnsub = FALSE /\ sendOnClosed = FALSE

\* producer invokes Next(pnext) / the terminal: passes its subscriber's status check, then sends
PCall == /\ ppc = "idle" /\ pnext <= T
         /\ IF upUnsub THEN pnext' = pnext + 1 /\ returned' = returned + 1 /\ UNCHANGED ppc    \* dropped by the closed upstream subscriber
                       ELSE ppc' = "send" /\ UNCHANGED <<pnext, returned>>
         /\ UNCHANGED <<ch, closed, ncloses, held, delivered, upUnsub, sendOnClosed>>

\* ch <- n : possible when there is room, or (rendezvous) when the consumer is waiting empty-handed
PSend == /\ ppc = "send"
         /\ IF closed THEN sendOnClosed' = TRUE /\ ppc' = "idle" /\ pnext' = pnext + 1 /\ returned' = returned + 1 /\ UNCHANGED <<ch, held>>
            ELSE IF Cap = 0 THEN /\ held = 0 /\ held' = pnext /\ UNCHANGED <<ch, sendOnClosed>>
                                 /\ ppc' = IF pnext = T THEN "close" ELSE "idle"
                                 /\ pnext' = IF pnext = T THEN pnext ELSE pnext + 1
                                 /\ returned' = IF pnext = T THEN returned ELSE returned + 1
            ELSE /\ Len(ch) < Cap /\ ch' = Append(ch, pnext) /\ UNCHANGED <<held, sendOnClosed>>
                 /\ ppc' = IF pnext = T THEN "close" ELSE "idle"
                 /\ pnext' = IF pnext = T THEN pnext ELSE pnext + 1
                 /\ returned' = IF pnext = T THEN returned ELSE returned + 1
         /\ UNCHANGED <<closed, ncloses, delivered, upUnsub>>

\* after sending the terminal: stop() = once.Do(close(ch))
PClose == /\ ppc = "close"
          /\ closed' = TRUE /\ ncloses' = IF closed THEN ncloses ELSE ncloses + 1
          /\ ppc' = "idle" /\ pnext' = pnext + 1 /\ returned' = returned + 1
          /\ UNCHANGED <<ch, held, delivered, upUnsub, sendOnClosed>>

\* consumer: take the head of the channel, deliver it
CTake == /\ held = 0 /\ ch # <<>> /\ held' = Head(ch) /\ ch' = Tail(ch)
         /\ UNCHANGED <<closed, ncloses, ppc, pnext, delivered, returned, upUnsub, sendOnClosed>>
CDeliver == /\ held # 0 /\ delivered' = Append(delivered, held) /\ held' = 0
            /\ UNCHANGED <<ch, closed, ncloses, ppc, pnext, returned, upUnsub, sendOnClosed>>

\* teardown: subscriptions.Unsubscribe() then stop()
Unsub1 == /\ WithUnsub /\ ~upUnsub /\ upUnsub' = TRUE
          /\ UNCHANGED <<ch, closed, ncloses, ppc, pnext, held, delivered, returned, sendOnClosed>>
Unsub2 == /\ upUnsub /\ ~closed /\ closed' = TRUE /\ ncloses' = ncloses + 1
          /\ UNCHANGED <<ch, ppc, pnext, held, delivered, returned, upUnsub, sendOnClosed>>

Next == PCall \/ PSend \/ PClose \/ CTake \/ CDeliver \/ Unsub1 \/ Unsub2
        \/ (pnext > T /\ ch = <<>> /\ held = 0 /\ UNCHANGED vars)
Spec == Init /\ [][Next]_vars /\ WF_vars(Next)

(* ------------------------------ properties ----------------------------- *)
FIFO == \A j \in 1..Len(delivered) : delivered[j] = j         \* in order, nothing lost in the middle, nothing duplicated
TerminalLast == \A j \in 1..Len(delivered) : delivered[j] = T => j = Len(delivered)
\* the producer never runs ahead of the consumer by more than the capacity plus the value each side holds
RunAhead == ~upUnsub => returned - Len(delivered) <= Cap + 2
CloseOnce == ncloses <= 1
\* without an Unsubscribe everything is delivered
NoLoss == (~WithUnsub /\ pnext > T /\ ch = <<>> /\ held = 0) => Len(delivered) = T
\* the hazard: a producer blocked in (or about to execute) its send when the teardown closes the channel
NoSendOnClosed == ~sendOnClosed
=============================================================================
