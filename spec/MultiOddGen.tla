----------------------------- MODULE MultiOddGen -----------------------------
(* Instance sets for MultiOdd.tla. *)
EXTENDS Integers, Sequences, FiniteSets, TLC
CONSTANT InstSetName
I(op, g, k) == [op |-> op, g |-> g, k |-> k]
Zips == {I("Zip", "Zip2", 2), I("Zip", "Zip3", 3), I("Zip", "Zip4", 4), I("Zip", "Zip5", 5), I("Zip", "Zip6", 6),
         I("Zip", "ZipWith1", 2), I("Zip", "ZipWith2", 3), I("Zip", "ZipWith3", 4), I("Zip", "ZipWith4", 5), I("Zip", "ZipWith5", 6), I("Zip", "Zip", 4)}
Combines == {I("CombineLatest", "CombineLatest2", 2), I("CombineLatest", "CombineLatest3", 3), I("CombineLatest", "CombineLatest4", 4), I("CombineLatest", "CombineLatest5", 5),
             I("CombineLatest", "CombineLatestWith1", 2), I("CombineLatest", "CombineLatestWith2", 3), I("CombineLatest", "CombineLatestWith3", 4), I("CombineLatest", "CombineLatestWith4", 5),
             I("CombineLatest", "CombineLatestAny", 4)}
Merges == {I("Merge", "Merge", 4), I("Merge", "MergeWith1", 2), I("Merge", "MergeWith2", 3), I("Merge", "MergeWith3", 4), I("Merge", "MergeWith4", 5), I("Merge", "MergeWith5", 6),
           I("Race", "Race", 4), I("Race", "RaceWith", 3)}
VARIABLES m, x, sx, pos, dir
M == INSTANCE MultiOdd WITH OInsts <- (CASE InstSetName = "zip" -> Zips [] InstSetName = "combine" -> Combines [] InstSetName = "merge" -> Merges [] OTHER -> Zips \cup Combines \cup Merges)
Spec == M!Spec
EmitCase == M!EmitCase
=============================================================================
