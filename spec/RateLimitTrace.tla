--------------------------- MODULE RateLimitTrace ---------------------------
(***************************************************************************)
(* C20 - rate limiters (plugins/ratelimit/native, plugins/ratelimit/ulule) *)
(* run on seeded key distributions and arrival timelines (harness: roverif *)
(* drive-ratelimit); the recorded trace is validated here.                 *)
(*   hdr   s = limiter, v = window (us), i = quota                         *)
(*   emit  the harness is about to emit item v of key o (u = time)         *)
(*   recv  the observer receives item v (k = "N") or the terminal          *)
(* Definition: per key the items that pass form an order-preserving        *)
(* subsequence without duplicates of the items emitted; the number of      *)
(* items of one key passed in ANY span of length L never exceeds           *)
(* quota * (L \div window + 2) (sound whatever the alignment of windows;   *)
(* L is measured from the emission of the first to the reception of the    *)
(* last, which over-estimates it); keys are independent (at least          *)
(* min(n_k, quota) items of every key pass, and an item is held back only  *)
(* when quota earlier items of its own key passed recently); completion    *)
(* and error of the source are propagated.                                 *)
(***************************************************************************)
EXTENDS Integers, Sequences, FiniteSets, TLC, Json

Trace == ndJsonDeserialize("trace.ndjson")
Starts == {i \in 1..Len(Trace) : Trace[i].e = "hdr"}
Keys == 0..3

VARIABLES l, window, quota, shared, emitted, passed, srcTerm, outTerm
\* emitted: sequence of [key, id, u]; passed[key]: sequence of [id, eu (emission time), ru (reception time)]
vars == <<l, window, quota, shared, emitted, passed, srcTerm, outTerm>>
Ev == Trace[l]
Is(e) == l <= Len(Trace) /\ Ev.e = e

Init == \E i \in Starts : /\ l = i + 1 /\ window = Trace[i].v /\ quota = Trace[i].i /\ shared = Trace[i].b
          /\ emitted = <<>> /\ passed = [k \in Keys |-> <<>>] /\ srcTerm = "none" /\ outTerm = "none"

EmIdx(id) == CHOOSE j \in 1..Len(emitted) : emitted[j].id = id
WasEmitted(id) == \E j \in 1..Len(emitted) : emitted[j].id = id
NKey(k) == Cardinality({j \in 1..Len(emitted) : emitted[j].key = k})
Min2(a, b) == IF a <= b THEN a ELSE b
Slack == 3 * window + 50000

Step ==
  \/ /\ Is("emit")
     /\ emitted' = IF Ev.k = "N" THEN Append(emitted, [key |-> Ev.o, id |-> Ev.v, u |-> Ev.u]) ELSE emitted
     /\ srcTerm' = IF Ev.k # "N" THEN Ev.k ELSE srcTerm
     /\ UNCHANGED <<passed, outTerm>>
  \/ /\ Is("recv") /\ Ev.k = "N" /\ outTerm = "none"
     /\ WasEmitted(Ev.v)                                           \* nothing invented
     /\ LET key == emitted[EmIdx(Ev.v)].key
            pk == passed[key]
            me == [id |-> Ev.v, eu |-> emitted[EmIdx(Ev.v)].u, ru |-> Ev.u]
            np == Append(pk, me)
        IN /\ (shared = FALSE => (pk # <<>> => pk[Len(pk)].id < Ev.v))   \* per-key order (ids grow with emission order)
           /\ \A j \in 1..Len(pk) : pk[j].id # Ev.v               \* no duplicate
           \* the quota, for every span ending at this item
           /\ \A a \in 1..Len(np) : (Len(np) - a + 1) <= quota * (((Ev.u - np[a].eu) \div window) + 2)
           /\ passed' = [passed EXCEPT ![key] = np]
     /\ UNCHANGED <<emitted, srcTerm, outTerm>>
  \/ /\ Is("recv") /\ Ev.k # "N" /\ outTerm = "none"
     /\ srcTerm = Ev.k                                             \* the terminal of the source, propagated
     /\ outTerm' = Ev.k /\ UNCHANGED <<emitted, passed, srcTerm>>
  \/ /\ Is("end")
     /\ srcTerm # "none" => outTerm = srcTerm                      \* completion and error are propagated
     \* keys are independent: whatever the other keys do, the first `quota` items of a key pass (when the stream ran to completion)
     /\ (srcTerm = "C" /\ ~shared) => \A k \in Keys : Len(passed[k]) >= Min2(NKey(k), quota)
     \* ... and an item is held back only by items of ITS OWN key: `quota` earlier items of the key passed recently (within Slack before its
     \* emission: three windows plus 50 ms, generous towards late ticks and descheduled goroutines - an item of a key whose quota is
     \* eaten by ANOTHER key has no such items at all)
     /\ (srcTerm = "C" /\ ~shared) =>
           \A j \in 1..Len(emitted) :
              LET k == emitted[j].key
                  pk == passed[k]
              IN (\A q \in 1..Len(pk) : pk[q].id # emitted[j].id) =>
                    Cardinality({q \in 1..Len(pk) : pk[q].id < emitted[j].id /\ pk[q].ru >= emitted[j].u - Slack}) >= quota
     /\ PrintT(<<"ACCEPT", Ev.t>>)
     /\ UNCHANGED <<emitted, passed, srcTerm, outTerm>>

Next == Step /\ l' = l + 1 /\ UNCHANGED <<window, quota, shared>>
Spec == Init /\ [][Next]_vars
=============================================================================
