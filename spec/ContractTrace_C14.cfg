SPECIFICATION Spec
CONSTANT Check = {"C14"}
CHECK_DEADLOCK FALSE
