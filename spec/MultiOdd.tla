------------------------------ MODULE MultiOdd ------------------------------
(***************************************************************************)
(* "One odd source" cases for the multi-source operators of every arity    *)
(* (2..6 sources).  The typed families (CombineLatest2..5, Zip2..6,        *)
(* MergeWith1..5, ...With1..5) are one copy of the code per arity; a slip  *)
(* in one copy shows when ONE source is in a different state than all the  *)
(* others.  A case is built from parameters instead of being found by      *)
(* search:                                                                 *)
(*   m      the operator instance                                          *)
(*   x      the odd source                                                 *)
(*   sx     its script: N* then optionally E or C (at most 3 notifications)*)
(*   pos    where each of its notifications goes: before round 1, between  *)
(*          rounds, or after round 3                                       *)
(*   dir    the other sources move in lockstep, in ascending or descending *)
(*          order: round 1 = each emits a value, round 2 = each emits      *)
(*          another value, round 3 = each completes                        *)
(* The expected observation after every arrival is MultiDef!ArriveF folded *)
(* over the resulting sequence - the same definition Multi.tla explores    *)
(* exhaustively for 2-3 sources.  Same JSON case format as Multi.tla.      *)
(***************************************************************************)
EXTENDS MultiDef, Json

CONSTANT OInsts

ItemDigits == <<"0", "1", "2", "3", "4", "5">>
SrcDigits == <<"1", "2", "3", "4", "5", "6">>
Mark(s, j) == "i" \o SrcDigits[s] \o ItemDigits[j + 1]
TMark(s) == IF s = 1 THEN "t" ELSE "t" \o SrcDigits[s]

Scripts == {<<>>, <<"N">>, <<"C">>, <<"E">>, <<"N", "N">>, <<"N", "C">>, <<"N", "E">>, <<"N", "N", "C">>, <<"N", "N", "E">>, <<"N", "N", "N">>}
Slots == 0..3
\* non-decreasing placements of the script's notifications into the slots
Placements(sx) == {p \in [1..Len(sx) -> Slots] : \A i \in 1..(Len(sx) - 1) : p[i] <= p[i + 1]}

VARIABLES m, x, sx, pos, dir
vars == <<m, x, sx, pos, dir>>
Init == /\ m \in OInsts /\ x \in 1..m.k /\ sx \in Scripts /\ pos \in Placements(sx) /\ dir \in {"up", "down"}
Next == UNCHANGED vars
Spec == Init /\ [][Next]_vars

Others == IF dir = "up" THEN [i \in 1..(m.k - 1) |-> IF i < x THEN i ELSE i + 1]
                         ELSE [i \in 1..(m.k - 1) |-> LET j == m.k - i IN IF j < x THEN j ELSE j + 1]
Round(kind) == [i \in 1..(m.k - 1) |-> [s |-> Others[i], k |-> kind]]
AtSlot(sl) == LET idx == {i \in 1..Len(sx) : pos[i] = sl} IN
              IF idx = {} THEN <<>> ELSE [j \in 1..Cardinality(idx) |-> [s |-> x, k |-> sx[(CHOOSE i \in idx : \A i2 \in idx : i <= i2) + j - 1]]]
Pushes == AtSlot(0) \o Round("N") \o AtSlot(1) \o Round("N") \o AtSlot(2) \o Round("C") \o AtSlot(3)

Srcs == 1..m.k
Obs(d, cl, s2) == [log |-> d, closed |-> cl,
                   subs |-> [y \in Srcs |-> IF y \in s2.subs THEN 1 ELSE 0],
                   torn |-> [y \in Srcs |-> IF y \in s2.torn \cup s2.ended THEN 1 ELSE 0]]
Notif(p, sent) == CASE p.k = "N" -> N(10 * p.s + sent[p.s], SubCtx \cup {Mark(p.s, sent[p.s])})
                    [] p.k = "E" -> E(p.s, SubCtx \cup {TMark(p.s)})
                    [] OTHER     -> C(SubCtx \cup {TMark(p.s)})

\* fold: a source that ended by itself emits nothing more (the harness cannot push into a source that has terminated)
RECURSIVE Run(_, _, _, _, _)
Run(st, cl, ps, sent, acc) ==
  IF ps = <<>> THEN acc
  ELSE LET p == Head(ps) IN
       IF p.s \in st.ended THEN Run(st, cl, Tail(ps), sent, acc)
       ELSE LET n == Notif(p, sent)
                a == ArriveF(m, st, cl, p.s, n)
            IN Run(a.st, a.closed, Tail(ps), [sent EXCEPT ![p.s] = @ + 1],
                   Append(acc, [do |-> "push", src |-> p.s, n |-> n, exp |-> Obs(a.out, a.closed, a.st)]))

Steps == LET s0 == SubStF(m, [St0 EXCEPT !.live = Srcs, !.subs = Srcs])
         IN <<[do |-> "sub", src |-> 0, n |-> C({}), exp |-> Obs(SubOutF(m), FALSE, s0)]>>
            \o Run(s0, FALSE, Pushes, [s \in 1..MaxK |-> 0], <<>>)

EmitCase == PrintT(ToJson([m |-> m, steps |-> Steps, panic |-> 0, sync |-> 0, synck |-> "C", tail |-> "none"]))
=============================================================================
