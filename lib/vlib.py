"""Shared machinery of the /verif checks: harness build, TLC wrapper, evidence, verdict printing.

Conventions (DESIGN.md section 5):
  exit 0  property held on everything explored (KNOWN-FINDING lines allowed)
  exit 1  at least one "VIOLATION property=<id> replay=<path>" line
  exit 2  infrastructure failure (harness does not build, TLC cannot start, spec does not parse)
"""
import json, os, re, shutil, subprocess, sys, tempfile, time, hashlib

VERIF = os.path.dirname(os.path.dirname(os.path.abspath(__file__)))
SPEC = os.path.join(VERIF, 'spec')
HARNESS = os.path.join(VERIF, 'harness')
BUILD = os.path.join(VERIF, '.build')
EVID = os.path.join(VERIF, 'evidence')
REPLAYS = os.path.join(VERIF, 'replays')
REPO = os.environ.get('VERIF_REPO', '/repo')
NCPU = os.cpu_count() or 4

GOENV = dict(GOWORK='off', GOFLAGS='-mod=mod', GOPROXY='off', GOSUMDB='off', GOTOOLCHAIN='local')


class Infra(Exception):
    pass


class LibraryCrash(Infra):
    """the harness process was killed by a panic on a goroutine started by the library (see library_crash)"""
    def __init__(self, what, report):
        Infra.__init__(self, what)
        self.what, self.report = what, report


CURRENT_REPORT = None


def seed():
    try:
        return int(os.environ.get('VERIF_SEED', '1'))
    except ValueError:
        return 1


def tier(argv=None):
    t = os.environ.get('VERIF_TIER', '')
    argv = argv if argv is not None else sys.argv
    if '--tier' in argv:
        t = argv[argv.index('--tier') + 1]
    return t if t in ('quick', 'thorough') else 'quick'


def scratch(prefix='verif-'):
    base = os.environ.get('VERIF_TMP') or tempfile.gettempdir()
    return tempfile.mkdtemp(prefix=prefix, dir=base)


# ---------------------------------------------------------------- harness build

def build_harness(race=False, verbose=False):
    """Builds /verif/harness against the *current working tree* of /repo (replace directives),
    with the hooks enabled (-tags verif). Returns the path of the binary."""
    os.makedirs(BUILD, exist_ok=True)
    out = os.path.join(BUILD, 'roverif-race' if race else 'roverif')
    env = dict(os.environ, **GOENV)
    # go.sum = union of the repository's sums (rebuilt every time: a changed tree may change them)
    sums = set()
    for root, dirs, files in os.walk(REPO):
        dirs[:] = [d for d in dirs if d not in ('.git', 'node_modules', 'docs')]
        for f in files:
            if f in ('go.sum', 'go.work.sum'):
                with open(os.path.join(root, f)) as fh:
                    sums.update(l for l in fh.read().splitlines() if l.strip())
    with open(os.path.join(HARNESS, 'go.sum.base')) as fh:
        sums.update(l for l in fh.read().splitlines() if l.strip())
    with open(os.path.join(HARNESS, 'go.sum'), 'w') as fh:
        fh.write('\n'.join(sorted(sums)) + '\n')
    cmd = ['go', 'build', '-tags', 'verif', '-o', out]
    if REPO != '/repo':
        # a background soak run works on a snapshot of the repository: same module file with the replace targets redirected
        mf = os.path.join(BUILD, 'go.alt.mod')
        with open(os.path.join(HARNESS, 'go.mod')) as fh:
            txt = fh.read().replace('=> /repo', '=> ' + REPO)
        with open(mf, 'w') as fh:
            fh.write(txt)
        shutil.copy(os.path.join(HARNESS, 'go.sum'), os.path.join(BUILD, 'go.alt.sum'))
        cmd.append('-modfile=' + mf)
    if race:
        cmd.insert(2, '-race')
    cmd.append('./cmd/roverif')
    t0 = time.time()
    p = subprocess.run(cmd, cwd=HARNESS, env=env, capture_output=True, text=True)
    if p.returncode != 0:
        sys.stderr.write(p.stdout + p.stderr)
        raise Infra('harness build failed')
    if verbose:
        print('harness built: %s (%.1fs)' % (out, time.time() - t0))
    return out


def run_harness(args, race=False, timeout=1800, env=None, stdin=None, check=True):
    binp = os.path.join(BUILD, 'roverif-race' if race else 'roverif')
    e = dict(os.environ)
    e.update(env or {})
    try:
        p = subprocess.run([binp] + list(args), capture_output=True, text=True, timeout=timeout, env=e, input=stdin)
    except subprocess.TimeoutExpired:
        raise Infra('harness command %s exceeded its time limit of %d s' % (args[0], timeout))
    if check and p.returncode not in (0,):
        crash = library_crash(p)
        if crash is not None:
            raise LibraryCrash('%s' % ' '.join(str(a) for a in args[:1]), crash)
        sys.stderr.write(p.stdout[-4000:] + p.stderr[-8000:])
        raise Infra('harness %s exited %d' % (args[:2], p.returncode))
    return p


def library_crash(p):
    """The harness process died of a panic that no harness code could recover: the panicking goroutine was CREATED BY LIBRARY CODE (a frame under the
    repository follows 'created by'). Returns an excerpt of the Go crash report, or None (any other failure of the harness is an infrastructure failure)."""
    err = p.stderr or ''
    if p.returncode == 2 and 'fatal error: concurrent map' in err:
        # the Go runtime found two goroutines in one map and stopped the process.  The map belongs to the code that touches it: when the first
        # frame outside the runtime of the faulting goroutine is library code, state inside the library is shared by calls that the API allows to
        # run concurrently (two subscriptions of one pipeline, two producers of a safe subscriber) - real-code behaviour, not a harness failure
        i = err.find('fatal error: concurrent map')
        rep = err[i:i + 6000]
        blk = rep.split('\ngoroutine ', 2)
        body = blk[1] if len(blk) > 1 else ''
        for m in re.finditer(r'\n\t(/\S+\.go):\d+', body):
            f = m.group(1)
            if '/runtime/' in f or '/internal/runtime/' in f:
                continue
            return rep[:3000] if f.startswith(REPO + '/') else None
        return None
    if p.returncode != 2 or 'panic:' not in err:
        return None
    i = err.rfind('panic:')
    rep = err[i:i + 6000]
    first = rep.split('\ngoroutine ', 2)
    body = first[1] if len(first) > 1 else rep
    m = re.search(r'created by [^\n]*\n\s+(\S+)', body)
    if m and m.group(1).startswith(REPO + '/'):
        return rep[:3000]
    return None


# ---------------------------------------------------------------- TLC

TLC_JAR = '/opt/veriftools/tla/tla2tools.jar'
CM_JAR = None


def _classpath():
    # the `tlc` wrapper on PATH knows the CommunityModules location; find it once
    return '/opt/veriftools/tla/tla2tools.jar:/opt/veriftools/tla/CommunityModules-deps.jar'


class TLCResult:
    def __init__(self):
        self.rc = None
        self.out = ''
        self.generated = 0
        self.distinct = 0
        self.depth = 0
        self.ok = False          # finished without any error
        self.violation = None    # text of the violated invariant / property
        self.printed = []        # PrintT payloads (strings)
        self.wall = 0.0
        self.timeout = False


def run_tlc(module, cfg, files=None, extra_files=None, workers=None, timeout=900, simulate=None, depth=None,
            seed_=None, deadlock=False, dfs=False, heap=None, extra_args=None, defines=None, keep=False):
    """Runs TLC on spec/<module>.tla with spec/<cfg> in a scratch copy of /verif/spec.
    extra_files: {name: content or path} placed next to the spec (trace files, generated constants)."""
    d = scratch('tlc-')
    try:
        for f in os.listdir(SPEC):
            if f.endswith('.tla') or f.endswith('.cfg'):
                shutil.copy(os.path.join(SPEC, f), d)
        for name, src in (extra_files or {}).items():
            dst = os.path.join(d, name)
            if isinstance(src, str) and os.path.exists(src) and '\n' not in src:
                shutil.copy(src, dst)
            else:
                with open(dst, 'w') as fh:
                    fh.write(src)
        meta = os.path.join(d, 'meta')
        w = workers or NCPU
        jtmp = os.path.join(d, 'jtmp')      # TLC unpacks its standard modules into java.io.tmpdir and leaves them there: keep them inside the scratch directory
        os.makedirs(jtmp, exist_ok=True)
        java = ['java', '-XX:+UseParallelGC', '-Xss64m', '-Djava.io.tmpdir=' + jtmp]
        java.append('-Xmx%s' % (heap or '12g'))
        if dfs:
            java.append('-Dtlc2.tool.queue.IStateQueue=StateDeque')
        java += ['-cp', _classpath(), 'tlc2.TLC', '-metadir', meta, '-workers', str(w), '-config', cfg]
        if not deadlock:
            java.append('-deadlock')  # = do NOT check deadlock
        if simulate:
            java += ['-simulate', simulate]
        if depth:
            java += ['-depth', str(depth)]
        if seed_ is not None:
            java += ['-seed', str(seed_)]
        java += (extra_args or [])
        java.append(module + '.tla')
        r = TLCResult()
        t0 = time.time()
        try:
            p = subprocess.run(java, cwd=d, capture_output=True, text=True, timeout=timeout)
            r.rc = p.returncode
            r.out = p.stdout + p.stderr
        except subprocess.TimeoutExpired as e:
            r.timeout = True
            r.out = (e.stdout or b'').decode('utf8', 'replace') if isinstance(e.stdout, bytes) else (e.stdout or '')
            subprocess.run(['pkill', '-f', meta], capture_output=True)
        r.wall = time.time() - t0
        parse_tlc(r)
        if keep:
            r.dir = d
        return r
    finally:
        if not keep:
            shutil.rmtree(d, ignore_errors=True)


_num = lambda s: int(s.replace(',', ''))


def parse_tlc(r):
    out = r.out
    m = re.findall(r'([\d,]+) states generated, ([\d,]+) distinct states found', out)
    if m:
        r.generated, r.distinct = _num(m[-1][0]), _num(m[-1][1])
    m = re.findall(r'depth of the complete state graph search is ([\d,]+)', out)
    if m:
        r.depth = _num(m[-1])
    r.ok = ('Model checking completed. No error has been found' in out) or \
           ('Finished computing initial states' in out and 'Error:' not in out and r.rc == 0)
    m = re.search(r'Error: Invariant (\S+) is violated', out)
    if m:
        r.violation = m.group(1)
    elif 'Error: Action property' in out or 'Error: Temporal properties were violated' in out:
        r.violation = 'temporal'
    elif 'Error:' in out and not r.ok:
        mm = re.search(r'Error: (.*)', out)
        r.violation = None
        r.error = mm.group(1) if mm else 'error'
    # PrintT payloads: lines that are a TLA+ string "..." (we only print JSON strings) or tuples
    pr = []
    for line in out.splitlines():
        if line.startswith('"') and line.endswith('"') and len(line) > 1:
            try:
                pr.append(json.loads(line))
            except Exception:
                pr.append(line[1:-1].replace('\\"', '"').replace('\\\\', '\\'))
        elif line.startswith('<<"'):
            pr.append(line)
    r.printed = pr


def tlc_must_pass(r, what):
    if r.timeout:
        raise Infra('TLC timed out on %s' % what)
    if getattr(r, 'error', None) and r.violation is None and not r.ok:
        sys.stderr.write(r.out[-6000:])
        raise Infra('TLC failed on %s: %s' % (what, r.error))


# ---------------------------------------------------------------- evidence / verdicts

class Report:
    """Collects coverage, violations and known findings of one check run and writes the evidence file."""

    def __init__(self, pid, level, argv=None):
        global CURRENT_REPORT
        CURRENT_REPORT = self
        self.pid = pid
        self.level = level
        self.tier = tier(argv)
        self.seed = seed()
        self.t0 = time.time()
        self.cov = dict(evaluations=0, distinct_nontrivial=0, rule='', samples=[], states=0, transitions=0,
                        traces_validated_against_impl=0)
        self.assumptions = []
        self.violations = []   # (class, description, replay path)
        self.known_hits = {}   # finding id -> count
        self.inconclusive = []
        self.parts = {}
        self._known = None
        shutil.rmtree(os.path.join(REPLAYS, pid), ignore_errors=True)   # replays of earlier runs of this check

    # -- known findings -------------------------------------------------------------
    def known(self):
        if self._known is None:
            p = os.path.join(VERIF, 'known_findings.json')
            self._known = json.load(open(p))['findings'] if os.path.exists(p) else []
        return self._known

    def classify(self, cls, components=(), case=None, mismatch=None):
        """Returns the known-finding entry (status 'known') that names this class AND one of the components
        (the specific operator / call site that fails) for this property, else None."""
        for f in self.known():
            if f.get('status') != 'known' or self.pid not in f.get('properties', []):
                continue
            fc = f.get('class')
            if cls not in (fc if isinstance(fc, list) else [fc]):
                continue
            comp = f.get('component')
            if not (comp is None or any(c in components for c in (comp if isinstance(comp, list) else [comp]))):
                continue
            pred = f.get('predicate')
            if pred:
                import predicates
                if case is None or not predicates.PREDICATES[pred](case, mismatch):
                    continue
            return f
        return None

    def add_violation(self, cls, desc, replay_obj=None, replay_path=None, components=(), case=None, mismatch=None):
        f = self.classify(cls, components, case, mismatch) if cls else None
        if f is not None:
            self.known_hits.setdefault(f['id'], [0, f])[0] += 1
            return False
        if replay_path is None and len(self.violations) >= 40:
            replay_path = self.violations[-1][2]   # beyond 40 violations no further replay files are written
        if replay_path is None:
            os.makedirs(os.path.join(REPLAYS, self.pid), exist_ok=True)
            h = hashlib.sha1(json.dumps([cls, desc, replay_obj], sort_keys=True, default=str).encode()).hexdigest()[:10]
            replay_path = os.path.join(REPLAYS, self.pid, '%s-%s.json' % ((cls or 'case').replace('/', '_').replace(':', '_')[:40], h))
            with open(replay_path, 'w') as fh:
                json.dump(dict(property=self.pid, cls=cls, description=desc, replay=replay_obj), fh, indent=1, default=str)
        self.violations.append((cls, desc, replay_path))
        return True

    def add_states(self, r):
        self.cov['states'] += r.distinct
        self.cov['transitions'] += r.generated

    def sample(self, obj, maxn=6):
        if len(self.cov['samples']) < maxn:
            self.cov['samples'].append(obj)

    def finish(self):
        wall = time.time() - self.t0
        for fid, (n, f) in sorted(self.known_hits.items()):
            print('KNOWN-FINDING: property=%s %s (%s; %d occurrences in this run)' % (self.pid, f['id'], f['description'], n))
        seen = set()
        for cls, desc, path in self.violations:
            key = (cls, desc)
            if key in seen:
                continue
            seen.add(key)
            if len(seen) <= 25:
                print('VIOLATION property=%s replay=%s  # %s: %s' % (self.pid, path, cls, desc[:300]))
        cov = dict(self.cov)
        cov['known_findings_hit'] = {k: v[0] for k, v in self.known_hits.items()}
        cov['inconclusive'] = self.inconclusive[:50]
        cov['parts'] = self.parts
        if not cov['samples']:
            cov['samples'] = ['(no sample recorded)']
        ev = dict(property_id=self.pid, tier=self.tier, seed=self.seed, level=self.level, coverage=cov,
                  assumptions=self.assumptions, wall_s=round(wall, 2), violations=len(seen))
        os.makedirs(EVID, exist_ok=True)
        with open(os.path.join(EVID, self.pid + '.json'), 'w') as fh:
            json.dump(ev, fh, indent=1, default=str)
        print('%s %s tier=%s seed=%d: evaluations=%d distinct_nontrivial=%d states=%d traces=%d violations=%d known=%d wall=%.1fs' % (
            self.pid, 'FAIL' if seen else 'ok', self.tier, self.seed, cov['evaluations'], cov['distinct_nontrivial'],
            cov['states'], cov['traces_validated_against_impl'], len(seen), len(self.known_hits), wall))
        return 1 if seen else 0


def main_wrapper(fn):
    try:
        rc = fn()
    except LibraryCrash as e:
        # real-code behaviour, not an infrastructure failure: the library panicked on a goroutine of its own and took the process down while
        # this property was being checked (nothing can recover such a panic; the property could not be observed to hold)
        rep = CURRENT_REPORT
        if rep is None:
            print('INFRA-FAILURE: %s' % e)
            sys.exit(2)
        rep.add_violation('crash', 'the library panicked on a goroutine of its own while the driver %s was running: the process died' % e.what,
                          replay_obj=dict(kind='crash', driver=e.what, report=e.report), components=['process'])
        rc = rep.finish()
    except Infra as e:
        print('INFRA-FAILURE: %s' % e)
        sys.exit(2)
    except SystemExit:
        raise
    except BaseException as e:      # anything unexpected (a time limit, a bug of the machinery) is an infrastructure failure: exit 2, never a verdict
        import traceback
        traceback.print_exc()
        print('INFRA-FAILURE: %s: %s' % (type(e).__name__, str(e)[:300]))
        sys.exit(2)
    sys.exit(rc)


# ---------------------------------------------------------------- trace validation (direction B)

def split_traces(path):
    """NDJSON -> {t: [lines]} in file order."""
    traces = {}
    order = []
    with open(path) as fh:
        for line in fh:
            if not line.strip():
                continue
            t = json.loads(line)['t']
            if t not in traces:
                traces[t] = []
                order.append(t)
            traces[t].append(line)
    return traces, order


def validate_traces(module, cfg, ndjson, workers=None, timeout=900, dfs=False, locate=True, max_locate=80):
    """Validates every trace of the NDJSON file against spec/<module>.tla (one initial state per trace).
    Returns dict(accepted=set, rejected={t: info}, result=TLCResult).  A trace is accepted iff TLC printed
    <<"ACCEPT", t>>.  For rejected traces the position of the first event that no action explains is located by
    re-validating that trace alone (depth of the search = number of explained events + 1)."""
    traces, order = split_traces(ndjson)
    r = run_tlc(module, cfg, extra_files={'trace.ndjson': ndjson}, workers=workers, timeout=timeout, dfs=dfs)
    if r.timeout:
        raise Infra('TLC timed out validating %s' % ndjson)
    if 'ACCEPT' not in r.out and not r.generated:
        sys.stderr.write(r.out[-5000:])
        raise Infra('TLC did not run on %s' % ndjson)
    acc = set()
    for m in re.finditer(r'<<"ACCEPT", (\d+)>>', r.out):
        acc.add(int(m.group(1)))
    inv = r.violation
    rejected = {}
    todo = [t for t in order if t not in acc]

    def locate_one(t):
        info = dict(trace=t, events=len(traces[t]), invariant=None, at=None, event=None)
        rr = run_tlc(module, cfg, extra_files={'trace.ndjson': ''.join(traces[t])}, workers=1, timeout=300, dfs=dfs, heap='1g')
        if ('<<"ACCEPT", %d>>' % t) in rr.out and rr.violation is None:
            return t, None      # accepted in isolation: the batch run was cut short by an invariant violation in another trace
        info['invariant'] = rr.violation
        k = max(rr.depth, 1)   # states on the longest path = explained events + 1 (hdr consumed by Init)
        info['at'] = k + 1     # 1-based index of the first unexplained line of this trace
        if k < len(traces[t]):
            info['event'] = json.loads(traces[t][k])
        info['prefix_tail'] = [json.loads(x) for x in traces[t][max(0, k - 6):k]]
        return t, info

    if locate and todo:
        from concurrent.futures import ThreadPoolExecutor
        with ThreadPoolExecutor(max_workers=8) as ex:
            for t, info in ex.map(locate_one, todo[:max_locate]):
                if info is None:
                    acc.add(t)
                else:
                    rejected[t] = info
        for t in todo[max_locate:]:
            rejected[t] = dict(trace=t, events=len(traces[t]), invariant=None, at=None, event=None)
    else:
        for t in todo:
            rejected[t] = dict(trace=t, events=len(traces[t]), invariant=None, at=None, event=None)
    # an invariant violation stops TLC: traces after it were not examined in the batch; re-run them
    if inv is not None and len(rejected) > max_locate:
        pass
    return dict(accepted=acc, rejected=rejected, result=r, order=order, traces=traces)
