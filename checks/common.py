"""Shared composition of the property checks out of parts."""
import vlib, parts_kernel, parts_pipeline as pp


def pipeline_cfgs(rep, what):
    """Generator configurations per property family; quick = sampled / shorter, thorough = deeper."""
    th = rep.tier == 'thorough'
    cfgs = []
    if what == 'values':        # C04 C08 C09: every instance alone + pairs
        cfgs.append(pp.gen_cfg('single', MaxSteps=4 if th else 3, MaxIllegal=1))
        cfgs.append(pp.gen_cfg('pairs', ChainSetName='"pairs"' if th else '"pairs-sample"', SampleN=0 if th else 160, MaxSteps=3))
    elif what == 'hot':         # C09: the source emits with a context of its own (a hot source), not derived from the subscription context
        cfgs.append(pp.gen_cfg('single-hot', MaxSteps=4 if th else 3, MaxIllegal=1, SrcBaseName='"hot"'))
        cfgs.append(pp.gen_cfg('pairs-hot', ChainSetName='"pairs"' if th else '"pairs-sample"', SampleN=0 if th else 120, MaxSteps=3, SrcBaseName='"hot"'))
    elif what == 'illegal':     # C01: illegal suffixes after the terminal
        cfgs.append(pp.gen_cfg('single-illegal', MaxSteps=5 if th else 4, MaxIllegal=2))
        cfgs.append(pp.gen_cfg('pairs-illegal', ChainSetName='"pairs"' if th else '"pairs-sample"', SampleN=0 if th else 100, MaxSteps=3, MaxIllegal=2))
    elif what == 'cuts':        # C03 C06 C14: Unsubscribe at every position
        cfgs.append(pp.gen_cfg('single-cuts', MaxSteps=4 if th else 3, Cuts='TRUE'))
        cfgs.append(pp.gen_cfg('pairs-cuts', ChainSetName='"pairs"' if th else '"pairs-sample"', SampleN=0 if th else 120, MaxSteps=3, Cuts='TRUE'))
    elif what == 'faults':      # C07: a panic at every callback position / invocation index, two kinds
        cfgs.append(pp.gen_cfg('single-faults', MaxSteps=4 if th else 3, FaultSetName='"callbacks"', MaxIllegal=1))
        cfgs.append(pp.gen_cfg('pairs-faults', ChainSetName='"pairs"' if th else '"pairs-sample"', SampleN=0 if th else 40, MaxSteps=3, FaultSetName='"callbacks"'))
    elif what == 'observer-faults':   # C07: a panic inside the final observer's own callbacks
        cfgs.append(pp.gen_cfg('single-observer-faults', MaxSteps=4 if th else 3, FaultSetName='"observer"', MaxIllegal=1))
    elif what == 'resub':       # C12: the model re-subscribes the same pipeline object
        cfgs.append(pp.gen_cfg('single-resub', MaxSteps=5 if th else 4, MaxSubs=2))
        cfgs.append(pp.gen_cfg('pairs-resub', ChainSetName='"pairs"' if th else '"pairs-sample"', SampleN=0 if th else 40, MaxSteps=4, MaxSubs=2))   # every pair in the thorough tier; 5 steps are kept for the single instances (the pairs alone were 7.5 GB of cases)
    elif what == 'reuse':       # C12: concurrent subscriptions / one operator value applied to several sources
        cfgs.append(pp.gen_cfg('single-reuse', MaxSteps=4 if th else 3))
        cfgs.append(pp.gen_cfg('pairs-reuse', ChainSetName='"pairs"' if th else '"pairs-sample"', SampleN=0 if th else 100, MaxSteps=3))
    return cfgs


PIPE_RULE = ('pipeline cases: TLC enumerates every behaviour of Pipeline.tla (Subscribe, then every sequence of source notifications over 3 values / error / '
             'completion incl. illegal suffixes, optionally an Unsubscribe at every position) for every catalogue instance (flavours, aliases, boundary '
             'parameters) and for well-typed operator pairs; each case is replayed on the real operators with a controllable source (safe and unsafe '
             'constructor; observation compared after every step) and with a synchronous cold source; non-trivial = case with at least one value pushed')
