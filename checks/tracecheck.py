"""Generic direction-B check body: run a seeded driver, validate its traces with TLC against a trace specification."""
import json, os, shutil
import vlib


def run(rep, pid, driver, spec, cfg, n, seeds, label, comp_key=None, extra=(), dfs=False, par=16):
    d = vlib.scratch('trc-')
    try:
        total = 0
        per = {}
        for s in seeds:
            out = os.path.join(d, 't-%d.ndjson' % s)
            scen = os.path.join(d, 's-%d.ndjson' % s)
            vlib.run_harness([driver, '-n', str(n), '-seed', str(s), '-par', str(par), '-out', out, '-scenarios', scen] + list(extra), timeout=3000)
            v = vlib.validate_traces(spec, cfg, out, dfs=dfs)
            rep.add_states(v['result'])
            scenarios = {}
            for line in open(scen):
                o = json.loads(line)
                scenarios[o['t']] = o['scenario']
            for t in v['order']:
                total += 1
                if comp_key:
                    k = scenarios[t].get(comp_key)
                    per[k] = per.get(k, 0) + 1
            t0 = v['order'][0]
            smp = dict(scenarios[t0])
            for k in list(smp):
                if isinstance(smp[k], list) and len(smp[k]) > 8:
                    smp[k] = smp[k][:8] + ['...']
            rep.sample(dict(driver=driver, seed=s, scenario=smp, events=[json.loads(x) for x in v['traces'][t0][:12]]), maxn=2)
            for t, info in v['rejected'].items():
                os.makedirs(os.path.join(vlib.REPLAYS, pid), exist_ok=True)
                rp = os.path.join(vlib.REPLAYS, pid, '%s-seed%d-trace%d.ndjson' % (driver, s, t))
                with open(rp, 'w') as fh:
                    fh.write(''.join(v['traces'][t]))
                sc = scenarios.get(t, {})
                short = {k: (v2 if not isinstance(v2, list) or len(v2) <= 8 else '[%d items]' % len(v2)) for k, v2 in sc.items()}
                hang = json.loads(v['traces'][t][-1]).get('e') == 'hang' or (info.get('event') or {}).get('e') == 'hang'
                desc = 'real trace rejected by %s at event %s: %s; scenario %s' % (spec, info.get('at'), json.dumps(info.get('event')), json.dumps(short))
                rep.add_violation('%s.%s' % (label, 'hang' if hang else 'trace'), desc, replay_path=rp, components=[sc.get(comp_key)] if comp_key else (),
                                  case=dict(events=[json.loads(x) for x in v['traces'][t]], scenario=sc), mismatch=info)
        rep.cov['traces_validated_against_impl'] += total
        rep.cov['evaluations'] += total
        rep.cov['distinct_nontrivial'] += total
        rep.parts[label] = dict(traces=total, per=per, seeds=list(seeds))
    finally:
        shutil.rmtree(d, ignore_errors=True)


def replay(pid, spec, cfg, path, dfs=False):
    v = vlib.validate_traces(spec, cfg, path, dfs=dfs)
    for t, info in v['rejected'].items():
        print('VIOLATION property=%s replay=%s  # rejected at event %s: %s' % (pid, path, info.get('at'), json.dumps(info.get('event'))))
    return 1 if v['rejected'] else 0
