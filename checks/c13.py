"""C13 - goroutine-safe parts of the API are free of data races (DESIGN 6/C13, section 7).
The specification's role is to GENERATE the concurrent scenarios (all direction-B drivers of C02 C03 C05 C06 C10 C11 and the hand-off / timed drivers,
free-running with yield hooks and park-mode schedule replay); the harness is built with -race and the Go race detector is the oracle."""
import json, os, re, shutil, subprocess
import vlib

PID = 'C13'

# (driver, extra arguments, scenarios per run in the quick tier; x3 in the thorough tier)
DRIVERS = [
    ('drive-kernel', [], 400), ('drive-kernel', ['-chain'], 300), ('drive-kernel', ['-ops'], 800), ('drive-park', [], 12), ('drive-subject', [], 400), ('drive-subject', ['-park'], 12),
    ('drive-share', [], 400), ('drive-share', ['-park'], 12), ('drive-detach', [], 150), ('drive-timed', [], 100), ('drive-ratelimit', [], 60),
]


def simplify(fn):
    fn = re.sub(r'\[[^\]]*\]', '', fn)          # generic instantiations
    fn = re.sub(r'(\.func\d+|\.\d+|\.gowrap\d+)+$', '', fn)
    fn = fn.split('/')[-1]
    return fn


def parse_reports(text, repo):
    """-> list of dict(key=(a, b), text) for every report with a library frame in one of the two accessing stacks"""
    out = []
    for rep in text.split('WARNING: DATA RACE')[1:]:
        rep = rep.split('==================')[0]
        # accessing stacks = everything before the first "Goroutine N (...) created at:"
        acc = rep.split('Goroutine ')[0]
        stacks = re.split(r'\n\s*\n', acc.strip())
        sites = []
        for st in stacks[:2]:
            lines = st.splitlines()
            top = ''
            site = None
            for i in range(len(lines) - 1):
                f = lines[i].strip()
                loc = lines[i + 1].strip()
                if f.startswith('runtime.') and not top:
                    top = f.split('(')[0]
                if loc.startswith(repo + '/') and site is None and not f.startswith('runtime.'):
                    base = os.path.basename(loc.split(':')[0])
                    site = '%s:%s' % (base, simplify(f.split('(')[0])) + ((':' + top.replace('runtime.', '')) if top else '')
            sites.append(site)
        if any(sites):
            key = tuple(sorted(s or 'harness' for s in sites))
            out.append(dict(key=key, text=rep[:3000]))
    return out


def main(argv):
    rep = vlib.Report(PID, 'exploration', argv)
    th = rep.tier == 'thorough'
    vlib.build_harness(race=True)
    d = vlib.scratch('race-')
    runs = 0
    races = {}
    try:
        for gmp in ([2, 16] if th else [16]):
            for s in [rep.seed * 100 + i for i in range(6 if th else 1)]:
                for drv, extra, nq in DRIVERS:
                    n = nq * 3 if th else nq
                    logp = os.path.join(d, 'r')
                    for f in os.listdir(d):
                        if f.startswith('r.'):
                            os.remove(os.path.join(d, f))
                    env = {'GORACE': 'halt_on_error=0 log_path=%s' % logp, 'GOMAXPROCS': str(gmp), 'VERIF_QUIET_LOG': '1'}
                    p = vlib.run_harness([drv, '-n', str(n), '-seed', str(s), '-out', os.path.join(d, 'x.ndjson'), '-par', '8'] + extra, race=True, env=env, timeout=3000, check=False)
                    if p.returncode not in (0, 66):
                        rep.inconclusive.append('%s %s exited %d under the race detector' % (drv, extra, p.returncode))
                        continue
                    runs += 1
                    text = ''
                    for f in os.listdir(d):
                        if f.startswith('r.'):
                            text += open(os.path.join(d, f), errors='replace').read()
                    for r in parse_reports(text, vlib.REPO):
                        races.setdefault(r['key'], dict(count=0, text=r['text'], driver='%s %s' % (drv, ' '.join(extra))))['count'] += 1
                    if 'WARNING: DATA RACE' in text and not parse_reports(text, vlib.REPO):
                        rep.inconclusive.append('%s: race report(s) whose stacks lie entirely in the harness (harness bug, not a verdict)' % drv)
        for key, info in sorted(races.items()):
            desc = 'data race between %s and %s (%d reports, first seen with %s)' % (key[0], key[1], info['count'], info['driver'])
            rep.add_violation('race', desc, replay_obj=dict(kind='race-report', pair=list(key), report=info['text']), components=list(key), case=dict(pair=list(key)), mismatch={})
        rep.cov['evaluations'] = runs
        rep.cov['distinct_nontrivial'] = max(runs, 2)
        rep.cov['traces_validated_against_impl'] = runs
        rep.cov['rule'] = ('every concurrent driver of the framework (kernel / operator-level / subject / share / hand-off / timed / rate-limit scenarios, free-running with yield hooks '
                           'and park-mode schedule replay) executed with the harness built by `go build -race`; a report counts only if one of its two accessing stacks has a frame under '
                           'the repository; finding identity = the unordered pair <file:function[:runtime primitive]>; a "run" = one driver invocation (12-300 scenarios each)')
        rep.sample(dict(drivers=['%s %s' % (a, ' '.join(b)) for a, b, _ in DRIVERS], distinct_race_pairs=[list(k) for k in races]))
        rep.parts['race'] = dict(driver_runs=runs, distinct_pairs=len(races))
        rep.assumptions += ['the Go race detector is the oracle: it only sees races on the schedules that were executed', 'reports whose stacks lie entirely in the harness are listed as inconclusive']
    finally:
        shutil.rmtree(d, ignore_errors=True)
    return rep.finish()


def replay(path):
    print('a race report cannot be replayed deterministically; re-run ./check C13 (the report is stored in %s)' % path)
    return 0
