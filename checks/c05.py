"""C05 - multi-source operators honour every arrival order (DESIGN 6/C05)."""
import json
import vlib, parts_multi

PID = 'C05'


def main(argv):
    rep = vlib.Report(PID, 'model_checking', argv)
    vlib.build_harness()
    parts_multi.run(rep, PID, rep.tier == 'thorough')
    rep.cov['rule'] = ('TLC enumerates every behaviour of Multi.tla: for each multi-source operator instance (merge, combine-latest, zip, race, take/skip-until, '
                       'buffer/sample/throttle-when; creation and operator forms, 2 and 3 sources) every tuple of source scripts (values distinguishable per source; '
                       'completion, error or silence as ending) and EVERY interleaving of them, optionally an Unsubscribe at every position; each case is replayed '
                       'on the real operator over controllable sources, observation (output, IsClosed, per-source subscribe/teardown counters) compared after each arrival; '
                       'non-trivial = at least two sources emitted')
    rep.cov['exhaustive'] = True
    rep.assumptions += ['sequential clause only: each notification is processed to quiescence before the next is issued', 'bounded: <= 3 notifications per source, 2-3 sources']
    return rep.finish()


def replay(path):
    vlib.build_harness()
    return parts_multi.replay_case(PID, path)
