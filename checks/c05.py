"""C05 - multi-source operators honour every arrival order (DESIGN 6/C05)."""
import json
import vlib, parts_multi, parts_subject, tracecheck

PID = 'C05'


def conc_model_part(rep):
    """Level 2: ConcImpl.tla / ConcImpl2.tla / ConcImpl3.tla - CombineLatest2, Zip2, TakeUntil, BufferWhen (and SampleWhen, ThrottleWhen, SkipUntil, which hold as they are) at the grain of the code under two concurrent producers.  The library emits after releasing the
    operator's lock (or without one): TLC is EXPECTED to find runs that no arrival order explains (the counterexamples behind the known concurrent findings,
    which MultiLin.tla reports on recorded runs of the real operators); with the emission inside the critical section Explained holds."""
    for cfgname in ['ConcImpl_combinelatest_atomic.cfg', 'ConcImpl_zip_atomic.cfg', 'ConcImpl_zip_safe.cfg', 'ConcImpl2_takeuntil_atomic.cfg', 'ConcImpl2_bufferwhen_atomic.cfg',
                    # ConcImpl3.tla: SampleWhen / ThrottleWhen / SkipUntil AS THE CODE IS meet the concurrent clause (real-time order respected)
                    'ConcImpl3_samplewhen.cfg', 'ConcImpl3_throttlewhen.cfg', 'ConcImpl3_skipuntil.cfg']:
        r = vlib.run_tlc(cfgname.split('_')[0], cfgname, timeout=600, deadlock=False)
        vlib.tlc_must_pass(r, cfgname)
        rep.add_states(r)
        rep.parts['tlc:' + cfgname] = dict(ok=r.ok, violated=r.violation, generated=r.generated, distinct=r.distinct)
        if r.violation:
            rep.inconclusive.append('Level-2 model %s violates %s (model only)' % (cfgname, r.violation))
    for cfgname in ['ConcImpl_combinelatest.cfg', 'ConcImpl_zip.cfg', 'ConcImpl2_takeuntil.cfg', 'ConcImpl2_bufferwhen.cfg']:
        r = vlib.run_tlc(cfgname.split('_')[0], cfgname, timeout=600, deadlock=False)
        rep.add_states(r)
        rep.parts['tlc:' + cfgname] = dict(violated=r.violation, note='design-level counterexample of a known concurrent finding (emit after unlock): no arrival order explains the output; '
                                                                       'the real operators are judged by MultiLin.tla on recorded runs')
        if r.violation != 'Explained':
            rep.inconclusive.append('%s was expected to violate Explained, TLC reports %s' % (cfgname, r.violation))
    # control of ConcImpl3.tla: the refactor "clear the flag after the emission" (seeded change C05-A) is told apart by the same invariant
    r = vlib.run_tlc('ConcImpl3', 'ConcImpl3_samplewhen_clearlate.cfg', timeout=600, deadlock=False)
    rep.add_states(r)
    rep.parts['tlc:ConcImpl3_samplewhen_clearlate.cfg'] = dict(violated=r.violation, note='control: a sample stored between copy and clear is lost; no real-time-respecting arrival order explains the output')
    if r.violation != 'Explained':
        rep.inconclusive.append('ConcImpl3_samplewhen_clearlate.cfg was expected to violate Explained, TLC reports %s' % r.violation)


def main(argv):
    rep = vlib.Report(PID, 'model_checking', argv)
    vlib.build_harness()
    parts_multi.run(rep, PID, rep.tier == 'thorough')
    parts_multi.run_ho(rep, PID, rep.tier == 'thorough')
    # group-by: one source, higher-order output - nothing lost, one group per key, also when the observer leaves a group or the outer stream on a group's birth
    parts_multi.run_single(rep, PID, rep.tier == 'thorough')
    # concurrent clause: some arrival order compatible with each source's own order must explain the output (MultiLin.tla)
    conc_model_part(rep)
    th = rep.tier == 'thorough'
    tracecheck.run(rep, PID, 'drive-multilin', 'MultiLin', 'MultiLin_x.cfg', 1500 if th else 400, [rep.seed * 100 + i for i in range(5 if th else 1)], 'multilin', comp_key='Op', dfs=True)
    tracecheck.run(rep, PID, 'drive-multilin', 'MultiLin', 'MultiLin_x.cfg', 120 if th else 30, [rep.seed * 100 + 50 + i for i in range(3 if th else 1)], 'multilin-park', comp_key='Op', extra=['-park'], dfs=True)
    # the windows of WindowWhen and the groups of GroupBy are unicast subjects: a window / group subscribed while the source keeps notifying must
    # deliver the queued backlog and the live values in one order (linearizability of the unicast subject, SubjectLin.tla, park mode)
    parts_subject.lin_part(rep, PID, 40 if th else 20, [rep.seed * 100 + 60 + i for i in range(3 if th else 2)], park=True, kind='unicast')
    rep.cov['rule'] = ('TLC enumerates every behaviour of Multi.tla: for each multi-source operator instance (merge, combine-latest, zip, race, take/skip-until, '
                       'buffer/sample/throttle-when; creation and operator forms, 2 and 3 sources) every tuple of source scripts (values distinguishable per source; '
                       'completion, error or silence as ending) and EVERY interleaving of them, optionally an Unsubscribe at every position; each case is replayed '
                       'on the real operator over controllable sources, observation (output, IsClosed, per-source subscribe/teardown counters) compared after each arrival; '
                       'non-trivial = at least two sources emitted')
    rep.cov['exhaustive'] = True
    rep.assumptions += ['concurrent clause: free-running producers with yield hooks and park-mode schedule replay (one preemption at every hook point), 2 sources x <= 3 notifications, linearized by TLC', 'bounded: <= 3 notifications per source, 2-3 sources']
    return rep.finish()


def replay(path):
    vlib.build_harness()
    if path.endswith('.ndjson') and 'subject-lin' in path:
        return parts_subject.replay_lin(PID, path)
    if path.endswith('.ndjson'):
        return tracecheck.replay(PID, 'MultiLin', 'MultiLin_x.cfg', path, dfs=True)
    return parts_multi.replay_case(PID, path)
