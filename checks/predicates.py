"""Predicates that recognise the SPECIFIC failing input of a known finding (known_findings.json: "predicate")."""


def zip_completed_with_queue(case, mismatch):
    """Zip*: some source completed while it still had values queued (more values than every other source), at or before the mismatching step."""
    steps = case['steps']
    upto = mismatch['step'] if mismatch['step'] >= 0 else len(steps) - 1
    k = case['m']['k']
    nvals = [0] * (k + 1)
    for st in steps[:upto + 1]:
        if st['do'] != 'push':
            continue
        s = st['src']
        if st['n']['k'] == 'N':
            nvals[s] += 1
        elif st['n']['k'] == 'C':
            if nvals[s] > min(nvals[x] for x in range(1, k + 1) if x != s):
                return True
    return False


def always(case, mismatch):
    return True


PREDICATES = {'zip_completed_with_queue': zip_completed_with_queue, 'always': always}


def unicast_sub_after_terminal_with_backlog(case, mismatch):
    """the mismatching step is a Subscribe on a unicast subject issued after a terminal, and values had been queued while nobody was subscribed"""
    ops = case['ops']
    k = mismatch['step']
    if k < 0 or ops[k]['op'] not in ('sub', 'subU'):
        return False
    terminated = any(o['op'] in ('error', 'complete') for o in ops[:k])
    queued = any(o['op'] == 'next' and not any(o['deliv']) for o in ops[:k])
    return terminated and queued


PREDICATES['unicast_sub_after_terminal_with_backlog'] = unicast_sub_after_terminal_with_backlog


def share_stale_refcount_after_reset(case, mismatch):
    """ShareGauge trace rejected at its `end` event (upstream not released although every subscriber left), in a run where the source ended
    (srcEnd) and a NEW execution was subscribed afterwards while a call that had started before the end - a Subscribe / Unsubscribe, or the terminal call itself, whose subscribers are still being notified - was still in flight."""
    evs = case['events']
    if (mismatch.get('event') or {}).get('e') != 'end':
        return False
    ended_at = [k for k, e in enumerate(evs) if e['e'] == 'srcEnd']
    if not ended_at:
        return False
    k0 = ended_at[-1] if any(e['e'] == 'srcSub' for e in evs[ended_at[-1]:]) else ended_at[0]
    if not any(e['e'] == 'srcSub' for e in evs[k0:]):
        return False
    # a subscribe call in flight across the source's end
    inflight = {}
    for k, e in enumerate(evs[:k0]):
        if e['e'] == 'inv' and e['s'] in ('sub', 'unsub', 'error', 'complete'):     # a reference of the finished execution not yet taken / given back (a terminal call still in flight = its subscribers have not been released yet)
            inflight[e['p']] = k
        elif e['e'] == 'ret':
            inflight.pop(e['p'], None)
    return bool(inflight)


PREDICATES['share_stale_refcount_after_reset'] = share_stale_refcount_after_reset


CTXLESS_EMITTERS = {'StartWith', 'EndWith', 'Count', 'ToSlice', 'DefaultIfEmpty', 'Sum', 'Min', 'Max', 'Reduce', 'ToMap', 'All', 'Contains', 'ElementAtOrDefault', 'OnErrorReturn'}


def prom_proc_missing_for_values_without_source_context(case, mismatch):
    """Prom.tla rejected the run at `end`, every clause holds except that operator k has FEWER processing-time observations than values
    leaving it, and an operator at position <= k emits values whose context does not come from a source value (prefixes, suffixes, aggregates)."""
    evs = case['events']
    if (mismatch.get('event') or {}).get('e') != 'end':
        return False
    chain = [x.split('(')[0] for x in evs[0]['s'].split('|')]
    def obs(m):
        return [(e['k'], e['v'], e['i'], e['o']) for e in evs if e['e'] == 'obs' and e['s'] == m]
    def cnt(e0, m):
        return sum(1 for e in evs if e['e'] == e0 and e['s'] == m)
    if obs('on') != obs('ref') or obs('off') != obs('ref'):
        return False
    for e0 in ('src', 'torn'):
        if cnt(e0, 'on') != cnt(e0, 'ref') or cnt(e0, 'off') != cnt(e0, 'ref'):
            return False
    met = {(e['k'], e['i']): e['v'] for e in evs if e['e'] == 'metric' and e['s'] == 'on'}
    if any(e['e'] == 'metric' and e['s'] == 'off' for e in evs):
        return False
    if met.get(('subs', 0)) != cnt('sub', 'on') or met.get(('in', 0)) != cnt('src', 'on') or met.get(('lag', 0)) != cnt('src', 'on'):
        return False
    if met.get(('out', 0)) != sum(1 for o in obs('on') if o[0] == 'N'):
        return False
    bad = False
    for k in range(len(chain)):
        st = sum(1 for e in evs if e['e'] == 'stage' and e['i'] == k)
        pr = met.get(('proc', k), 0)
        if pr == st:
            continue
        if pr > st or not any(c in CTXLESS_EMITTERS for c in chain[:k + 1]):
            return False
        bad = True
    return bad


PREDICATES['prom_proc_missing_for_values_without_source_context'] = prom_proc_missing_for_values_without_source_context


def race_close_vs_send_handoff(case, mismatch):
    """the close of the hand-off channel (teardown) racing with a send of the producer, in ToChannel or detachOn (ObserveOn / SubscribeOn)"""
    pair = case.get('pair', [])
    files = {p.split(':')[0] for p in pair}
    prims = {p.split(':')[-1] for p in pair}
    return files <= {'operator_sink.go', 'operator_utility.go'} and prims <= {'closechan', 'chansend', 'chansend1'} and 'closechan' in prims


PREDICATES['race_close_vs_send_handoff'] = race_close_vs_send_handoff


def lift_sibling_non_ascii(case, mismatch):
    """Lift.tla rejected a string/byte sibling comparison (event sib) whose input text is not pure ASCII"""
    ev = mismatch.get('event') or {}
    return ev.get('e') == 'sib' and ev.get('b') is False and case['events'][0]['s'].startswith('strings~bytes.')


PREDICATES['lift_sibling_non_ascii'] = lift_sibling_non_ascii


def observer_value_callback_panics(case, mismatch):
    """the injected fault is a panic inside the final observer's own value callback (fault position 99 of Pipeline.tla)"""
    return (case.get('fault') or {}).get('stage') == 99


PREDICATES['observer_value_callback_panics'] = observer_value_callback_panics


def tochannel_handout_after_sync_source_ended(case, mismatch):
    """ToChannel over a synchronous source, the subscribing goroutine held right before the hand-out (Park), and the observer never got the
    channel: the trace has no handout event at all and is rejected at its end"""
    sc = case.get('scenario') or {}
    evs = case.get('events') or []
    return sc.get('Op') == 'tochannelsync' and bool(sc.get('Park')) and not any(e.get('e') == 'handout' for e in evs) and (mismatch.get('event') or {}).get('e') == 'end'


PREDICATES['tochannel_handout_after_sync_source_ended'] = tochannel_handout_after_sync_source_ended


def _rl_state(evs, upto=None):
    """replays a rate-limit trace: emitted items, passed items per key (with emission / reception times), terminals"""
    emitted, passed, src_term, out_term = {}, {}, None, None
    for e in evs[:upto]:
        if e['e'] == 'emit':
            if e['k'] == 'N':
                emitted[e['v']] = dict(key=e['o'], u=e['u'])
            else:
                src_term = (e['k'], e['u'])
        elif e['e'] == 'recv':
            if e['k'] == 'N':
                k = emitted[e['v']]['key']
                passed.setdefault(k, []).append(dict(id=e['v'], eu=emitted[e['v']]['u'], ru=e['u']))
            else:
                out_term = e['k']
    return emitted, passed, src_term, out_term


def native_limiter_one_late_tick(case, mismatch):
    """native limiter (windows delimited by a time.Ticker): the run is rejected at a value reception by the quota clause ONLY - order and
    no-duplicate hold, the value was emitted - and the excess is what ONE late tick explains: the items passed for the key in every span
    ending here stay within quota * (floor(L / window) + 3) (the clause of the property has + 2)."""
    evs = case.get('events') or []
    ev = mismatch.get('event') or {}
    if not evs or evs[0].get('s') != 'native' or ev.get('e') != 'recv' or ev.get('k') != 'N':
        return False
    window, quota = evs[0]['v'], evs[0]['i']
    at = next((i for i, e in enumerate(evs) if e.get('e') == 'recv' and e.get('k') == 'N' and e.get('v') == ev.get('v') and e.get('u') == ev.get('u')), None)
    if at is None:
        return False
    emitted, passed, src_term, out_term = _rl_state(evs, at)
    if out_term is not None or ev['v'] not in emitted:
        return False
    key = emitted[ev['v']]['key']
    pk = passed.get(key, [])
    if pk and pk[-1]['id'] >= ev['v']:
        return False                      # order / duplicate clause: not this finding
    np_ = pk + [dict(id=ev['v'], eu=emitted[ev['v']]['u'], ru=ev['u'])]
    return all((len(np_) - a) <= quota * (((ev['u'] - np_[a]['eu']) // window) + 3) for a in range(len(np_)))


PREDICATES['native_limiter_one_late_tick'] = native_limiter_one_late_tick


def native_limiter_fresh_window_lost_at_completion(case, mismatch):
    """native limiter: the run is rejected at its end although the terminal WAS propagated: some key passed fewer than min(n, quota) items, and
    every item of that key that did not pass was emitted less than one window before the source terminated (it sat in the backlog of a
    window that had just been opened when the completion arrived - the unicast known finding, seen through the limiter)."""
    evs = case.get('events') or []
    ev = mismatch.get('event') or {}
    if not evs or evs[0].get('s') != 'native' or ev.get('e') != 'end':
        return False
    window, quota = evs[0]['v'], evs[0]['i']
    emitted, passed, src_term, out_term = _rl_state(evs)
    if src_term is None or out_term != src_term[0]:
        return False
    bad = False
    for key in {v['key'] for v in emitted.values()}:
        ids = sorted(i for i, v in emitted.items() if v['key'] == key)
        got = {p['id'] for p in passed.get(key, [])}
        need = min(len(ids), quota)
        if len(got) >= need:
            continue
        bad = True
        fresh = [i for i in ids if i not in got and src_term[1] - emitted[i]['u'] < window]
        if len(fresh) < need - len(got):
            return False      # items are missing that had been emitted a full window before the end: not this finding
    # the per-item clause (an item is held back only by `quota` recent earlier items of its own key): same finding when every such item is fresh
    slack = 3 * window + 50000
    for i, v in emitted.items():
        pk = passed.get(v['key'], [])
        if any(p['id'] == i for p in pk):
            continue
        if sum(1 for p in pk if p['id'] < i and p['ru'] >= v['u'] - slack) >= quota:
            continue
        if src_term[1] - v['u'] >= window:
            return False
        bad = True
    return bad


PREDICATES['native_limiter_fresh_window_lost_at_completion'] = native_limiter_fresh_window_lost_at_completion


def race_loser_teardown_panics_during_subscription(case, mismatch):
    """Race-family operator; the first source emits while a later source is being subscribed (sync kind V), and the teardown of that later
    source - the loser the operator unsubscribes on the spot - is the one that panics"""
    m = case.get('m') or {}
    return m.get('op') == 'Race' and case.get('synck') == 'V' and case.get('panic') == case.get('sync') and case.get('panic', 0) > 0


PREDICATES['race_loser_teardown_panics_during_subscription'] = race_loser_teardown_panics_during_subscription


def open_attempt_below_take(case, mismatch):
    """the case is the never-ending attempt below a downstream Take(1) (Resub.tla NeverEnding)"""
    return bool(case.get('open'))


PREDICATES['open_attempt_below_take'] = open_attempt_below_take


def windowwhen_every_handed_window_closed(case, mismatch):
    """WindowWhen under concurrent inputs: the run deviates from every arrival order (a value or a window lost, a terminal overtaken), but every
    window that was handed to the observer before the output terminated has been completed - a window left open for ever is NOT this finding
    (that was windowwhen.window-opened-after-terminal, fixed)."""
    evs = case.get('events') or []
    handed, done, term, uns = set(), set(), False, False
    for e in evs:
        if e.get('e') == 'recv':
            if e.get('k') == 'N' and e.get('v', 0) > 1000:
                handed.add(e['v'] - 1000)
            elif e.get('k') in ('IC', 'IE'):
                done.add(e['v'])
            elif e.get('k') in ('C', 'E'):
                term = True
        elif e.get('e') == 'unsubB':
            uns = True
        elif e.get('e') == 'hang':
            return False
    return uns or not term or not (handed - done)


PREDICATES['windowwhen_every_handed_window_closed'] = windowwhen_every_handed_window_closed


def takeuntil_error_during_pending_signal(case, mismatch):
    """TakeUntil under concurrent inputs: the observer received the ERROR of the source between the invocation and the return of a value of the
    signal (the Complete of the signal was waiting for the destination while the flag already suppressed values). A missing or late Complete
    without a source error is NOT this finding."""
    evs = case.get('events') or []
    pending = False
    for e in evs:
        if e.get('e') == 'inv' and e.get('p') == 2 and e.get('k') == 'N':
            pending = True
        elif e.get('e') == 'ret' and e.get('p') == 2:
            pending = False
        elif e.get('e') == 'recv' and e.get('k') == 'E' and pending:
            return True
        elif e.get('e') == 'hang':
            return False
    return False


PREDICATES['takeuntil_error_during_pending_signal'] = takeuntil_error_during_pending_signal
