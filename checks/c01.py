"""C01 - see DESIGN.md section 6/C01.  Parts: KernelImpl.tla (TLC) + kernel/subject traces vs Contract.tla (C01 clauses)."""
import vlib, parts_kernel, parts_pipeline as pp, common

PID = 'C01'


def main(argv):
    rep = vlib.Report(PID, 'model_checking', argv)
    vlib.build_harness()
    thorough = rep.tier == 'thorough'
    s = rep.seed
    parts_kernel.model_part(rep, parts_kernel.THOROUGH_MODELS if thorough else parts_kernel.QUICK_MODELS)
    parts_kernel.trace_part(rep, PID, 600 if thorough else 300, [s * 100 + i for i in range(10 if thorough else 2)])
    # schedule replay: one preemption at every hook point (lock boundary / check-then-act window) of a victim producer, operator-level scenarios
    parts_kernel.trace_part(rep, PID, 120 if thorough else 45, [s * 100 + 70 + i for i in range(4 if thorough else 1)], driver='drive-park', label='drive-park')
    # operator level: K sequential producers into multi-source operators / subjects, alone and followed by pass-through operators
    parts_kernel.trace_part(rep, PID, 500 if thorough else 300, [s * 100 + 50 + i for i in range(10 if thorough else 2)], extra=['-ops'], label='drive-ops')
    pp.run(rep, PID, common.pipeline_cfgs(rep, 'illegal'))
    # a panic inside the final observer's own callbacks must not make that observer receive anything after its terminal notification
    pp.run(rep, PID, common.pipeline_cfgs(rep, 'observer-faults'), modes='ctl-unsafe,sync')
    rep.cov['rule'] = common.PIPE_RULE + '; ' + ('kernel traces: seeded scenarios (1-4 producers with legal and illegal scripts, 0-2 unsubscribers, adders, waiters, '
                       'inside-callback unsubscription, panicking teardowns; observable safe/eventually-safe/unsafe and the 5 subjects) run on the real '
                       'library with yield hooks; non-trivial = distinct traces in which two harness threads had calls in flight simultaneously')
    rep.assumptions += ['the harness log mutex orders events consistently with real time', 'small-scope: <= 4 producers, scripts <= 6']
    return rep.finish()


def replay(path):
    vlib.build_harness()
    if path.endswith('.ndjson'):
        return parts_kernel.replay_trace(PID, path)
    return pp.replay_case(PID, path)
