"""C10 - subjects follow their sequential definition and are linearizable (DESIGN 6/C10)."""
import json, os, shutil
import vlib, parts_subject, parts_kernel

PID = 'C10'


def lin_part(rep, n, seeds, park):
    d = vlib.scratch('lin-')
    label = 'subject-lin-park' if park else 'subject-lin'
    try:
        total = nontriv = 0
        for s in seeds:
            out = os.path.join(d, 'h-%d.ndjson' % s)
            scen = os.path.join(d, 's-%d.ndjson' % s)
            vlib.run_harness(['drive-subject', '-n', str(n), '-seed', str(s), '-out', out, '-scenarios', scen] + (['-park'] if park else []))
            v = vlib.validate_traces('SubjectLin', 'SubjectLin_C10.cfg', out, dfs=True, locate=False)
            rep.add_states(v['result'])
            scenarios = {}
            for line in open(scen):
                o = json.loads(line)
                scenarios[o['t']] = o
            for t in v['order']:
                total += 1
                lines = v['traces'][t]
                # non-trivial: at least two threads had calls in flight at the same time
                act = set()
                nt = False
                for l in lines:
                    e = json.loads(l)
                    if e['e'] == 'inv':
                        if act - {e['p']}:
                            nt = True
                        act.add(e['p'])
                    elif e['e'] == 'ret':
                        act.discard(e['p'])
                nontriv += 1 if nt else 0
            if v['order']:
                t0 = v['order'][0]
                rep.sample(dict(driver=label, seed=s, history=[json.loads(x) for x in v['traces'][t0][:14]]), maxn=3)
            for t in v['rejected']:
                os.makedirs(os.path.join(vlib.REPLAYS, PID), exist_ok=True)
                rp = os.path.join(vlib.REPLAYS, PID, '%s-seed%d-history%d.ndjson' % (label, s, t))
                with open(rp, 'w') as fh:
                    fh.write(''.join(v['traces'][t]))
                sc = scenarios.get(t, {})
                hang = json.loads(v['traces'][t][-1]).get('e') == 'hang'
                desc = ('history of the real %s subject is not linearizable w.r.t. SubjectSeq (no placement of the linearization points explains the '
                        'subscribers\' observations); scenario %s' % (sc.get('scenario', {}).get('Kind'), json.dumps(sc)[:400]))
                rep.add_violation('%s.%s' % (label, 'hang' if hang else 'history'), desc, replay_path=rp, components=[sc.get('scenario', {}).get('Kind')])
        rep.cov['traces_validated_against_impl'] += total
        rep.cov['evaluations'] += total
        rep.cov['distinct_nontrivial'] += nontriv
        rep.parts[label] = dict(histories=total, concurrent=nontriv, seeds=list(seeds))
    finally:
        shutil.rmtree(d, ignore_errors=True)


def main(argv):
    rep = vlib.Report(PID, 'model_checking', argv)
    vlib.build_harness()
    th = rep.tier == 'thorough'
    parts_subject.run_seq(rep, PID, th)
    lin_part(rep, 1000 if th else 400, [rep.seed * 100 + i for i in range(6 if th else 1)], park=False)
    lin_part(rep, 100 if th else 25, [rep.seed * 100 + 50 + i for i in range(3 if th else 1)], park=True)
    rep.cov['rule'] = ('(a) TLC enumerates EVERY operation sequence up to 4-6 operations over {Next 1, Next 2, Error, Complete, Subscribe i, self-unsubscribing Subscribe i, '
                       'Unsubscribe i} for publish / behavior / replay(0,1,2,unlimited) / async / unicast(0,1,2,unlimited) against SubjectSeq.tla and the real subject is driven through '
                       'each (deliveries per subscriber and getters compared after each operation); (b) concurrent histories of 2-4 threads (free-running with yield hooks, and '
                       'park mode: one preemption at every hook point of thread 0) are checked for linearizability by TLC (SubjectLin.tla: silent linearization steps); '
                       'non-trivial = some subscriber received something / two calls overlapped')
    rep.cov['exhaustive'] = True
    rep.assumptions += ['a notification produced by a call overlapping an Unsubscribe(i) may be cut for subscriber i (C06)', 'bounds: <= 6 operations, 3 subscribers, 2-4 threads x <= 5 calls']
    return rep.finish()


def replay(path):
    vlib.build_harness()
    if path.endswith('.ndjson'):
        v = vlib.validate_traces('SubjectLin', 'SubjectLin_C10.cfg', path, dfs=True, locate=False)
        for t in v['rejected']:
            print('VIOLATION property=%s replay=%s  # history not linearizable' % (PID, path))
        return 1 if v['rejected'] else 0
    return parts_subject.replay_case(PID, path)
