"""C10 - subjects follow their sequential definition and are linearizable (DESIGN 6/C10)."""
import json, os, shutil
import vlib, parts_subject, parts_kernel

PID = 'C10'


def main(argv):
    rep = vlib.Report(PID, 'model_checking', argv)
    vlib.build_harness()
    th = rep.tier == 'thorough'
    parts_subject.model_part(rep)
    parts_subject.run_seq(rep, PID, th)
    parts_subject.lin_part(rep, PID, 2000 if th else 1200, [rep.seed * 100 + i for i in range(6 if th else 1)], park=False)
    parts_subject.lin_part(rep, PID, 150 if th else 60, [rep.seed * 100 + 50 + i for i in range(3 if th else 1)], park=True)
    rep.cov['rule'] = ('(a) TLC enumerates EVERY operation sequence up to 4-6 operations over {Next 1, Next 2, Error, Complete, Subscribe i, self-unsubscribing Subscribe i, '
                       'Unsubscribe i} for publish / behavior / replay(0,1,2,unlimited) / async / unicast(0,1,2,unlimited) against SubjectSeq.tla and the real subject is driven through '
                       'each (deliveries per subscriber and getters compared after each operation); (b) concurrent histories of 2-4 threads (free-running with yield hooks, and '
                       'park mode: one preemption at every hook point of thread 0) are checked for linearizability by TLC (SubjectLin.tla: silent linearization steps); '
                       'non-trivial = some subscriber received something / two calls overlapped')
    rep.cov['exhaustive'] = True
    rep.assumptions += ['a notification produced by a call overlapping an Unsubscribe(i) may be cut for subscriber i (C06)', 'bounds: <= 6 operations, 3 subscribers, 2-4 threads x <= 5 calls']
    return rep.finish()


def replay(path):
    vlib.build_harness()
    if path.endswith('.ndjson'):
        v = vlib.validate_traces('SubjectLin', 'SubjectLin_C10.cfg', path, dfs=True, locate=False)
        for t in v['rejected']:
            print('VIOLATION property=%s replay=%s  # history not linearizable' % (PID, path))
        return 1 if v['rejected'] else 0
    return parts_subject.replay_case(PID, path)
