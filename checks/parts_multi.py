"""Multi-source part (direction A, C05): Multi.tla enumerated by TLC (every tuple of source scripts x every arrival order); replay on the real operators."""
import parts_pipeline as pp

CLASS_PROPS = {
    'values': ['C05'], 'late': ['C05', 'C08'], 'gid': ['C08'],
    'torn': ['C05', 'C14', 'C03'], 'sub': ['C05', 'C12'],
    'closed': ['C05', 'C06'], 'after-unsub': ['C06'], 'grammar': ['C01'],
    'ctx-nil': ['C09'], 'ctx-missing': ['C09'], 'panic': ['C07'], 'hang': ['C05', 'C07'],
}


def cfg(name, **kw):
    c = dict(MaxSteps=4, MaxPerSrc=3, Cuts='FALSE', InstSetName='"two"', PanicSrcs='{0}', SyncSetName='"none"', TailSetName='"none"')
    c.update(kw)
    lines = ['SPECIFICATION Spec', 'CONSTANTS'] + [' %s = %s' % (k, v) for k, v in c.items()]
    lines += ['INVARIANTS TypeOK Grammar ClosedReleasesAll EmitCase']
    return name, '\n'.join(lines) + '\n'


HO_CLASS_PROPS = dict(CLASS_PROPS, **{'sub': ['C05', 'C15', 'C14', 'C08'], 'blocked': ['C14', 'C15']})


def ho_cfg(name, **kw):
    c = dict(MaxInner=2, MaxSteps=5, MaxPerSrc=3, Cuts='TRUE', InstSetName='"all"', TailSetName='"none"', SyncSetName='"none"')
    c.update(kw)
    lines = ['SPECIFICATION Spec', 'CONSTANTS'] + [' %s = %s' % (k, v) for k, v in c.items()]
    lines += ['INVARIANTS TypeOK Grammar ClosedReleasesAll ConcatOneAtATime CollectFirst EmitCase']
    return name, '\n'.join(lines) + '\n'


def run_ho(rep, pid, thorough):
    """HO.tla: higher-order operators over an ASYNCHRONOUS outer source (MergeAll / MergeMap / ConcatAll / FlatMap / CombineLatestAll / ZipAll)."""
    cfgs = [ho_cfg('ho-all', MaxSteps=6 if thorough else 5), ho_cfg('ho-all-nocut', MaxSteps=7 if thorough else 6, Cuts='FALSE'),
            ho_cfg('ho-all-sync-inner', MaxSteps=6 if thorough else 5, SyncSetName='"ends"'),
            ho_cfg('ho-all-downstream-cut', MaxSteps=7 if thorough else 6, Cuts='FALSE', TailSetName='"cuts"'),
            ho_cfg('ho-flavours', MaxSteps=6 if thorough else 5, Cuts='FALSE', InstSetName='"flavours"')]
    pp.run(rep, pid, cfgs, modes='ctl-unsafe,ctl-safe', module='HOGen', replay_cmd='replay-multi', class_props=HO_CLASS_PROPS, prefix='multi.')


SINGLE_CLASS_PROPS = dict(CLASS_PROPS, **{'values': ['C04', 'C05', 'C07', 'C20'], 'torn': ['C03', 'C14'], 'sub': ['C12'], 'closed': ['C06']})


def run_single(rep, pid, thorough):
    """single-source operators with a HIGHER-ORDER output (GroupBy, GroupByI): same machinery, one source."""
    cfgs = [cfg('multi-groupby', MaxSteps=5 if thorough else 4, MaxPerSrc=3, Cuts='TRUE', InstSetName='"one"')]
    pp.run(rep, pid, cfgs, modes='ctl-unsafe,ctl-safe', module='MultiGen', replay_cmd='replay-multi', class_props=SINGLE_CLASS_PROPS, prefix='multi.')


TICK_CLASS_PROPS = dict(CLASS_PROPS, **{'values': ['C16', 'C05'], 'after-unsub': ['C16', 'C06']})


def run_ticks(rep, pid, thorough):
    """the tick-driven forms of throttling / sampling / buffering / windowing (source 2 is the ticker): at most one value per tick window, only source
    values in source order, silence after unsubscription - every interleaving of values and ticks."""
    cfgs = [cfg('multi-ticks', MaxSteps=7 if thorough else 6, MaxPerSrc=3, InstSetName='"ticks"'),
            cfg('multi-ticks-cuts', MaxSteps=6 if thorough else 5, MaxPerSrc=3, Cuts='TRUE', InstSetName='"ticks"')]
    pp.run(rep, pid, cfgs, modes='ctl-unsafe,ctl-safe', module='MultiGen', replay_cmd='replay-multi', class_props=TICK_CLASS_PROPS, prefix='multi.')


REUSE_PROPS = {'reuse-values': ['C12'], 'reuse-torn': ['C12'], 'reuse-sub': ['C12'], 'reuse-closed': ['C12'], 'reuse-late': ['C12']}


def run_reuse(rep, pid, thorough):
    pp.run(rep, pid, [cfg('multi-two-reuse', MaxSteps=5 if thorough else 4, MaxPerSrc=3)], modes='multi-apply', module='MultiGen', replay_cmd='replay-multi',
           class_props=REUSE_PROPS, prefix='multi.')


def run(rep, pid, thorough):
    cfgs = [cfg('multi-two', MaxSteps=6 if thorough else 5, MaxPerSrc=3),
            cfg('multi-two-cuts', MaxSteps=5 if thorough else 4, MaxPerSrc=3, Cuts='TRUE'),
            cfg('multi-two-panicking-teardown', MaxSteps=4 if thorough else 3, MaxPerSrc=2, Cuts='TRUE', PanicSrcs='{1, 2}'),
            cfg('multi-two-sync-end', MaxSteps=4 if thorough else 3, MaxPerSrc=2, Cuts='TRUE', SyncSetName='"ends"'),
            cfg('multi-two-sync-end-panicking-teardown', MaxSteps=3 if thorough else 2, MaxPerSrc=2, Cuts='TRUE', SyncSetName='"ends"', PanicSrcs='{1, 2}'),
            cfg('multi-three-sync-end', MaxSteps=3 if thorough else 2, MaxPerSrc=2, Cuts='TRUE', SyncSetName='"ends"', InstSetName='"three"'),
            cfg('multi-two-downstream-cut', MaxSteps=5 if thorough else 4, MaxPerSrc=3, TailSetName='"cuts"'),
            cfg('multi-zip3-deep', MaxSteps=8 if thorough else 7, MaxPerSrc=3, InstSetName='"zip3"'),
            # the higher arities of the typed families (4-6 sources): random behaviours (TLC -simulate), each arity is its own copy of the code
            cfg('multi-high-arities', MaxSteps=12, MaxPerSrc=2, InstSetName='"high"') + (dict(simulate='num=%d' % (3000 if thorough else 800), depth=14, workers=2),),
            cfg('multi-three', MaxSteps=5 if thorough else 4, MaxPerSrc=2, InstSetName='"three"')]
    pp.run(rep, pid, cfgs, modes='ctl-unsafe,ctl-safe', module='MultiGen', replay_cmd='replay-multi', class_props=CLASS_PROPS, prefix='multi.')
    # one odd source among 2..6 (every arity of the typed families is its own copy of the code): cases built from parameters, MultiOdd.tla
    odd = ('multi-odd-source', 'SPECIFICATION Spec\nCONSTANTS\n InstSetName = "all"\nINVARIANTS EmitCase\n')
    pp.run(rep, pid, [odd], modes='ctl-unsafe,ctl-safe' if thorough else 'ctl-unsafe', module='MultiOddGen', replay_cmd='replay-multi', class_props=CLASS_PROPS, prefix='multi.')


def run_downstream_failure(rep, pid, thorough):
    """C07: a failure raised DOWNSTREAM of a multi-source / higher-order operator while it emits (tail Throw1: the stage after the operator fails on the first
    value) or an early completion there (Take1): one Error / Complete, every source released, and every later call into the operator returns (no lock of the
    operator is held during the emission that triggered its own teardown)."""
    pp.run(rep, pid, [cfg('multi-two-downstream-cut', MaxSteps=5 if thorough else 4, MaxPerSrc=3, TailSetName='"cuts"'),
                      cfg('multi-three-downstream-cut', MaxSteps=4 if thorough else 3, MaxPerSrc=2, TailSetName='"cuts"', InstSetName='"three"')],
           modes='ctl-unsafe,ctl-safe', module='MultiGen', replay_cmd='replay-multi', class_props=CLASS_PROPS, prefix='multi.')
    pp.run(rep, pid, [ho_cfg('ho-all-downstream-cut', MaxSteps=6 if thorough else 5, Cuts='FALSE', TailSetName='"cuts"')],
           modes='ctl-unsafe', module='HOGen', replay_cmd='replay-multi', class_props=HO_CLASS_PROPS, prefix='multi.')


def replay_case(pid, path):
    import json
    rp = json.load(open(path))['replay']
    if pid == 'C16':
        return pp.replay_case(pid, path, replay_cmd='replay-multi', class_props=TICK_CLASS_PROPS)
    props = HO_CLASS_PROPS if rp.get('module') == 'HOGen' else SINGLE_CLASS_PROPS if ((rp.get('case') or {}).get('m') or {}).get('k') == 1 else CLASS_PROPS
    return pp.replay_case(pid, path, replay_cmd='replay-multi', class_props=props)
