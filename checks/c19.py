"""C19 - Prometheus instrumentation is transparent and its counters are exact (DESIGN 6/C19)."""
import vlib, tracecheck

PID = 'C19'


def main(argv):
    rep = vlib.Report(PID, 'exploration', argv)
    vlib.build_harness()
    th = rep.tier == 'thorough'
    tracecheck.run(rep, PID, 'drive-prom', 'Prom', 'Prom_x.cfg', 600 if th else 200, [rep.seed * 100 + i for i in range(6 if th else 1)], 'prom', par=1)
    rep.cov['rule'] = ('seeded random chains of 1-5 catalogue operators (Pipe1..Pipe5 of the plugin) over seeded scripts (0-5 values, completion / error / none), 1-3 subscriptions '
                       '(sequential or concurrent), each chain run plain with counting probes, instrumented with the licence on and instrumented with the licence off (the licence state is '
                       'also flipped between building and subscribing the pipeline); Prom.tla requires identical observer logs (values, order, terminal, context markers, subscription), '
                       'identical source release, exported counters equal to the counted events, and nothing exported with the licence off; every scenario is distinct')
    rep.assumptions += ['the licence check is switched with the verif-only setter SetVerifLicenseBypass', 'Pipe6..Pipe24 are generated code of the same shape and are not exercised']
    return rep.finish()


def replay(path):
    return tracecheck.replay(PID, 'Prom', 'Prom_x.cfg', path)
