"""C14 - downstream termination cancels upstream without waiting for it (DESIGN 6/C14)."""
import vlib, parts_kernel, parts_resub, parts_multi, parts_pipeline as pp, common

PID = 'C14'


def main(argv):
    rep = vlib.Report(PID, 'model_checking', argv)
    vlib.build_harness()
    pp.run(rep, PID, common.pipeline_cfgs(rep, 'cuts'), modes='ctl-unsafe,ctl-safe,ctl-sync1')
    # multi-source operators: external cut at every position; a source that ends synchronously inside its own subscription (also with a
    # panicking teardown) must not make the operator lose the subscriptions it already holds
    parts_multi.run(rep, PID, rep.tier == 'thorough')
    parts_multi.run_ho(rep, PID, rep.tier == 'thorough')
    parts_multi.run_single(rep, PID, rep.tier == 'thorough')
    # operator-level concurrent scenarios: sources whose teardown waits for their producer (a clean shutdown); when the stream has ended and every
    # thread is joined no source is left subscribed, and no teardown waits for a producer that is stuck inside the pipeline
    parts_kernel.trace_part(rep, PID, 400 if rep.tier == 'thorough' else 250, [rep.seed * 100 + 50 + i for i in range(4 if rep.tier == 'thorough' else 1)], extra=['-ops'], label='drive-ops')
    # operators that WAIT inside Subscribe (Retry, RepeatWith, DoWhile, OnErrorResumeNextWith, Concat, SubscribeOn): an attempt that emits a value and
    # never ends, cut by a downstream Take(1) - the waiting Subscribe call must return and the attempt must be released (Resub.tla NeverEnding)
    parts_resub.run(rep, PID, rep.tier == 'thorough')
    # kernel level: teardowns (= cancellations of upstream subscriptions) registered while the subscription is being closed by another goroutine -
    # free-running with yield hooks and schedule replay (one preemption at every hook point)
    parts_kernel.trace_part(rep, PID, 400 if rep.tier == 'thorough' else 200, [rep.seed * 100 + i for i in range(4 if rep.tier == 'thorough' else 1)])
    parts_kernel.trace_part(rep, PID, 120 if rep.tier == 'thorough' else 45, [rep.seed * 100 + 70], driver='drive-park', label='drive-park')
    rep.cov['rule'] = common.PIPE_RULE + '; C14 looks at the source teardown counter in the very step in which an operator terminated the stream on a value (no further source event)'
    rep.cov['exhaustive'] = True
    rep.assumptions += ['bounded: scripts <= 3-4 notifications; chains <= 2 operators']
    return rep.finish()


def replay(path):
    vlib.build_harness()
    if path.endswith('.ndjson'):
        return parts_kernel.replay_trace(PID, path)
    import json
    if json.load(open(path))['replay'].get('module') == 'ResubGen':
        return parts_resub.replay_case(PID, path)
    if json.load(open(path))['replay'].get('module') in ('MultiGen', 'HOGen', 'MultiOddGen'):
        return parts_multi.replay_case(PID, path)
    return pp.replay_case(PID, path)
