"""Creation part (C04 C09 C12): Creation.tla enumerated by TLC (every instance x Take(n) x number of subscriptions of the same value); replay on the real operators."""
import parts_pipeline as pp

CLASS_PROPS = {'values': ['C04', 'C12'], 'closed': ['C06'], 'sub': ['C12', 'C04'], 'late': ['C01'], 'ctx-nil': ['C09'], 'ctx-missing': ['C09'], 'panic': ['C07'], 'hang': ['C07', 'C04', 'C12', 'C09']}


def run(rep, pid, thorough):
    text = 'SPECIFICATION Spec\nCONSTANTS\n MaxTake = %d\n MaxSubs = 2\nINVARIANTS Grammar RangeLaws StepLaws EmitCase\n' % (4 if thorough else 3)
    pp.run(rep, pid, [('creation', text)], modes='sync', module='Creation', replay_cmd='replay-creation', class_props=CLASS_PROPS, prefix='creation.')


def run_pipeforms(rep, pid):
    """Pipe / PipeOp / PipeN / PipeOpN for every arity 1..25 over non-commuting operators (PipeForms.tla)."""
    text = 'SPECIFICATION Spec\nINVARIANTS Composition EmitCase\n'
    pp.run(rep, pid, [('pipeforms', text)], modes='sync', module='PipeForms', replay_cmd='replay-pipeforms', class_props={'values': ['C04', 'C12'], 'panic': ['C04', 'C07'], 'hang': ['C04', 'C07']}, prefix='pipeforms.')


def replay_case(pid, path):
    import json
    if json.load(open(path))['replay'].get('module') == 'PipeForms':
        return pp.replay_case(pid, path, replay_cmd='replay-pipeforms', class_props={'values': ['C04', 'C12'], 'panic': ['C04', 'C07'], 'hang': ['C04', 'C07']})
    return pp.replay_case(pid, path, replay_cmd='replay-creation', class_props=CLASS_PROPS)
