"""C03 - see DESIGN.md section 6/C03.  Parts: KernelImpl.tla (TLC) + kernel/subject traces vs Contract.tla (C03 clauses)."""
import vlib, parts_kernel, parts_multi, parts_share, parts_subject, parts_pipeline as pp, common

PID = 'C03'


def main(argv):
    rep = vlib.Report(PID, 'model_checking', argv)
    vlib.build_harness()
    thorough = rep.tier == 'thorough'
    s = rep.seed
    parts_kernel.model_part(rep, parts_kernel.THOROUGH_MODELS if thorough else parts_kernel.QUICK_MODELS)
    parts_kernel.trace_part(rep, PID, 600 if thorough else 300, [s * 100 + i for i in range(10 if thorough else 2)])
    # schedule replay: one preemption at every hook point (lock boundary / check-then-act window) of a victim producer, operator-level scenarios
    parts_kernel.trace_part(rep, PID, 120 if thorough else 45, [s * 100 + 70 + i for i in range(4 if thorough else 1)], driver='drive-park', label='drive-park')
    pp.run(rep, PID, common.pipeline_cfgs(rep, 'cuts'))
    # subjects: an observer that left (unsubscribed before, during or after Subscribe, or terminated) is no longer held by the subject (getters after every operation)
    parts_subject.run_seq(rep, PID, thorough)
    # Share / connectables: once the last subscriber has left (or the connection was cut) no upstream subscription is left alive - every operation sequence
    parts_share.run_seq(rep, PID, thorough)
    # multi-source operators: every input released exactly once, also when one input's teardown panics
    parts_multi.run(rep, PID, thorough)
    parts_multi.run_ho(rep, PID, thorough)
    parts_multi.run_single(rep, PID, thorough)
    rep.cov['rule'] = common.PIPE_RULE + '; ' + ('kernel traces: seeded scenarios (1-4 producers with legal and illegal scripts, 0-2 unsubscribers, adders, waiters, '
                       'inside-callback unsubscription, panicking teardowns; observable safe/eventually-safe/unsafe and the 5 subjects) run on the real '
                       'library with yield hooks; non-trivial = distinct traces in which two harness threads had calls in flight simultaneously')
    rep.assumptions += ['the harness log mutex orders events consistently with real time', 'small-scope: <= 4 producers, scripts <= 6']
    return rep.finish()


def replay(path):
    vlib.build_harness()
    if path.endswith('.ndjson'):
        return parts_kernel.replay_trace(PID, path)
    import json
    if json.load(open(path))['replay'].get('module') in ('ShareGen', 'ConnGen'):
        return parts_share.replay_case(PID, path)
    if json.load(open(path))['replay'].get('module') == 'SubjectGen':
        return parts_subject.replay_case(PID, path)
    if json.load(open(path))['replay'].get('module') in ('MultiGen', 'HOGen', 'MultiOddGen'):
        return parts_multi.replay_case(PID, path)
    return pp.replay_case(PID, path)
