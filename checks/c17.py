"""C17 - bridges to slices, maps and channels are exact and close exactly once (DESIGN 6/C17)."""
import vlib, tracecheck, parts_pipeline as pp, parts_detach, common

PID = 'C17'
# for the bridge chains every deviation of values / terminal is a C17 matter
BRIDGE_PROPS = {'ctx-nil': ['C17', 'C09'], 'resub-ctx-nil': ['C17', 'C09'], 'resub-values': ['C17'], 'resub-closed': ['C17'], 'resub-grammar': ['C17'], 'resub-late': ['C17'], 'values': ['C17'], 'timing': ['C17'], 'grammar': ['C17'], 'late': ['C17'], 'closed': ['C17'], 'panic': ['C17'], 'hang': ['C17']}


def main(argv):
    rep = vlib.Report(PID, 'model_checking', argv)
    vlib.build_harness()
    th = rep.tier == 'thorough'
    pp.run(rep, PID, [pp.gen_cfg('bridges', ChainSetName='"bridges"', MaxSteps=5 if th else 4, MaxIllegal=1)], class_props=BRIDGE_PROPS)
    # the same bridge pipeline subscribed a second time starts from an empty slice / map (MaxSubs = 2); a source that ends with Error(nil)
    pp.run(rep, PID, [pp.gen_cfg('bridges-resub', ChainSetName='"bridges"', MaxSteps=5 if th else 4, MaxSubs=2)], modes='ctl-unsafe', class_props=BRIDGE_PROPS)
    pp.run(rep, PID, [pp.gen_cfg('bridges-nil-error', ChainSetName='"bridges"', MaxSteps=4 if th else 3, NilErr='TRUE')], modes='ctl-unsafe,sync', class_props=BRIDGE_PROPS)
    # Collect is the bridge to a slice: exactly the values delivered, with the error, never before the terminal callback has run (CollectTrace.tla)
    tracecheck.run(rep, PID, 'drive-collect', 'CollectTrace', 'CollectTrace_x.cfg', 1500 if th else 500, [rep.seed * 100 + 90 + i for i in range(3 if th else 1)], 'collect')
    parts_detach.model_part(rep)
    parts_detach.trace_part(rep, PID, 800 if th else 400, [rep.seed * 100 + i for i in range(6 if th else 1)])
    rep.cov['rule'] = ('(a) TLC enumerates Pipeline.tla behaviours for ToSlice, ToMap (4 flavours), Materialize, Materialize|Dematerialize and op|Materialize|Dematerialize (identity on any stream, '
                       'incl. error endings and illegal suffixes), replayed per step on the real operators; (b) ToChannel / FromChannel: seeded scenarios (capacity 0..3, lengths 0..12, consumers that '
                       'are fast, slow, stall or stop, producers that complete, fail, or abandon, unsubscription) validated by TLC against DetachTrace.tla: content = materialised sequence in order, '
                       'terminal after every value, closed exactly once (after the terminal or on unsubscription), no panic escapes, FromChannel stops reading once unsubscribed')
    rep.assumptions += ['Collect is exercised through the C06 kernel traces (Wait) only', 'bounds: scripts <= 4-5 notifications; channel capacities 0..3']
    return rep.finish()


def replay(path):
    vlib.build_harness()
    if path.endswith('.ndjson') and 'drive-collect' in path:
        return tracecheck.replay(PID, 'CollectTrace', 'CollectTrace_x.cfg', path)
    if path.endswith('.ndjson'):
        return parts_detach.replay_trace(PID, path)
    return pp.replay_case(PID, path, class_props=BRIDGE_PROPS)
