"""C09 - context flows from Subscribe through every callback, never nil (DESIGN 6/C09): Ops.tla is the definition; TLC enumerates, the real code is replayed."""
import vlib, parts_pipeline as pp, common

PID = 'C09'


def main(argv):
    rep = vlib.Report(PID, 'model_checking', argv)
    vlib.build_harness()
    pp.run(rep, PID, common.pipeline_cfgs(rep, 'values'))
    pp.run(rep, PID, common.pipeline_cfgs(rep, 'faults')[:1], modes='ctl-unsafe')   # the Error raised for a panic carries the context too
    rep.cov['rule'] = common.PIPE_RULE
    rep.cov['exhaustive'] = True
    rep.assumptions += ['the reference semantics Ops.tla follows the documentation, and the pinned commit where the documentation is silent',
                        'bounded: scripts <= 3-4 notifications over 3 values; chains <= 2 operators']
    return rep.finish()


def replay(path):
    vlib.build_harness()
    return pp.replay_case(PID, path)
