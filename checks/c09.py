"""C09 - context flows from Subscribe through every callback, never nil (DESIGN 6/C09): Ops.tla is the definition; TLC enumerates, the real code is replayed."""
import vlib, parts_creation, parts_multi, tracecheck, parts_pipeline as pp, common

PID = 'C09'


def main(argv):
    rep = vlib.Report(PID, 'model_checking', argv)
    vlib.build_harness()
    pp.run(rep, PID, common.pipeline_cfgs(rep, 'values'))
    # a hot source: notifications carry a context of the producer's own; what the operators attach mid-pipeline must still arrive, on all three kinds
    pp.run(rep, PID, common.pipeline_cfgs(rep, 'hot'), modes='ctl-unsafe,ctl-safe')
    pp.run(rep, PID, common.pipeline_cfgs(rep, 'faults')[:1], modes='ctl-unsafe')   # the Error raised for a panic carries the context too
    parts_creation.run(rep, PID, rep.tier == 'thorough')
    # multi-source and higher-order operators (zip, combine-latest, merge, ...): the context of every output is the one of the arrival that caused it
    parts_multi.run(rep, PID, rep.tier == 'thorough')
    parts_multi.run_ho(rep, PID, rep.tier == 'thorough')
    parts_multi.run_single(rep, PID, rep.tier == 'thorough')
    # operators that store or hand off notifications, driven free-running: the subscription marker and the item marker arrive (CtxTrace.tla)
    thorough = rep.tier == 'thorough'
    tracecheck.run(rep, PID, 'drive-detach', 'CtxTrace', 'CtxTrace_x.cfg', 400 if thorough else 120, [rep.seed * 100 + 40 + i for i in range(3 if thorough else 1)], 'ctx.handoff', comp_key='Op')
    tracecheck.run(rep, PID, 'drive-timed', 'CtxTrace', 'CtxTrace_x.cfg', 300 if thorough else 100, [rep.seed * 100 + 50 + i for i in range(3 if thorough else 1)], 'ctx.timed', comp_key='Op')
    rep.cov['rule'] = common.PIPE_RULE
    rep.cov['exhaustive'] = True
    rep.assumptions += ['the reference semantics Ops.tla follows the documentation, and the pinned commit where the documentation is silent',
                        'bounded: scripts <= 3-4 notifications over 3 values; chains <= 2 operators']
    return rep.finish()


def replay(path):
    vlib.build_harness()
    if path.endswith('.ndjson'):
        return tracecheck.replay(PID, 'CtxTrace', 'CtxTrace_x.cfg', path)
    import json
    if json.load(open(path))['replay'].get('module') == 'Creation':
        return parts_creation.replay_case(PID, path)
    if json.load(open(path))['replay'].get('module') in ('MultiGen', 'HOGen', 'MultiOddGen'):
        return parts_multi.replay_case(PID, path)
    return pp.replay_case(PID, path)
