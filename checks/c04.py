"""C04 - each operator computes its documented function (DESIGN 6/C04): Ops.tla is the definition; TLC enumerates, the real code is replayed."""
import vlib, parts_multi, parts_creation, parts_pipeline as pp, common

PID = 'C04'


def main(argv):
    rep = vlib.Report(PID, 'model_checking', argv)
    vlib.build_harness()
    pp.run(rep, PID, common.pipeline_cfgs(rep, 'values'))
    # a source that ends with Error(nil): a legal terminal that every operator must treat as an error
    pp.run(rep, PID, [pp.gen_cfg('single-nil-error', MaxSteps=3, NilErr='TRUE')], modes='ctl-unsafe,sync')
    # creation operators as functions of their parameters (Creation.tla), alone, behind Take(n), subscribed twice
    parts_creation.run(rep, PID, rep.tier == 'thorough')
    # the reflective and the typed composition forms, every arity 1..25
    parts_creation.run_pipeforms(rep, PID)
    # single-source operators with a higher-order output (GroupBy): groups observed at once, inner deliveries flattened (MultiDef.tla)
    parts_multi.run_single(rep, PID, rep.tier == 'thorough')
    rep.cov['rule'] = common.PIPE_RULE
    rep.cov['exhaustive'] = True
    rep.assumptions += ['the reference semantics Ops.tla follows the documentation, and the pinned commit where the documentation is silent',
                        'bounded: scripts <= 3-4 notifications over 3 values; chains <= 2 operators']
    return rep.finish()


def replay(path):
    vlib.build_harness()
    import json
    if json.load(open(path))['replay'].get('module') in ('Creation', 'PipeForms'):
        return parts_creation.replay_case(PID, path)
    if json.load(open(path))['replay'].get('module') == 'MultiGen':
        return parts_multi.replay_case(PID, path)
    return pp.replay_case(PID, path)
