"""C12 - pipelines are reusable recipes (DESIGN 6/C12): Pipeline.tla re-subscribes the same pipeline object from fresh state; the replayer
also interleaves two subscriptions of one pipeline and applies one operator value to two sources."""
import vlib, tracecheck, parts_creation, parts_resub, parts_multi, parts_pipeline as pp, common

PID = 'C12'


def main(argv):
    rep = vlib.Report(PID, 'model_checking', argv)
    vlib.build_harness()
    pp.run(rep, PID, common.pipeline_cfgs(rep, 'resub'), modes='ctl-unsafe,ctl-safe' if rep.tier == 'thorough' else 'ctl-unsafe')
    pp.run(rep, PID, common.pipeline_cfgs(rep, 'reuse'), modes='interleave,multi-apply,concurrent')
    # multi-source operator forms: one operator VALUE (MergeWith(b), ZipWith(b), TakeUntil(sig), ...) applied to the real source and to a decoy
    parts_multi.run_reuse(rep, PID, rep.tier == 'thorough')
    # re-subscribing operators (Retry, RepeatWith, While, Catch, ConcatWith, ...): one operator value applied to the real source and to a decoy
    parts_resub.run(rep, PID, rep.tier == 'thorough')
    # a recipe does not age: ContextWithTimeout built long before it is subscribed still gives every value its full timeout (TimedTrace.tla)
    tracecheck.run(rep, PID, 'drive-timed', 'TimedTrace', 'TimedTrace_x.cfg', 120 if rep.tier == 'thorough' else 40, [rep.seed * 100 + 90], 'timed.ctxtimeout', comp_key='Op', extra=['-op', 'ctxtimeout'])
    # creation operators: the same observable value subscribed twice replays the whole script, user functions run once per subscription
    parts_creation.run(rep, PID, rep.tier == 'thorough')
    rep.cov['rule'] = common.PIPE_RULE + ('; C12: (a) behaviours with a second Subscribe of the SAME pipeline object after the first closed (expected = fresh state), '
                                          '(b) two subscriptions of one pipeline stepped alternately, (c) one operator value applied to two sources, both stepped alternately; '
                                          'sources must not be subscribed at construction time and at most once per subscription')
    rep.cov['exhaustive'] = True
    rep.assumptions += ['bounded: scripts <= 3-5 notifications; chains <= 2 operators; two subscriptions']
    return rep.finish()


def replay(path):
    vlib.build_harness()
    if path.endswith('.ndjson'):
        return tracecheck.replay(PID, 'TimedTrace', 'TimedTrace_x.cfg', path)
    import json
    mod = json.load(open(path))['replay'].get('module')
    if mod == 'ResubGen':
        return parts_resub.replay_case(PID, path)
    if mod == 'Creation':
        return parts_creation.replay_case(PID, path)
    if mod == 'MultiGen':
        return parts_multi.replay_case(PID, path)
    return pp.replay_case(PID, path)
