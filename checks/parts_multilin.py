"""Concurrent multi-source runs (drive-multilin, park mode) judged twice by MultiLin.tla: plainly (C05: some arrival order explains the run) and with the
SyncRet clause (C08: when a producer's call returns, the outputs of its arrival have been received).  A run that the plain clause rejects is a C05 matter
(several documented concurrent findings); the C08 verdict is drawn only from runs the plain clause ACCEPTS and the SyncRet clause rejects."""
import json, os, shutil
import vlib


# WindowWhen delivers through a queueing subject (the window): a value sent to a window that has not been handed out yet waits in its backlog and
# is delivered by the call that hands the window out - the property names that subject as a place where values wait, so SyncRet does not apply
QUEUEING = {'WindowWhen'}


def sync_part(rep, pid, n, seeds, label='multilin-sync'):
    d = vlib.scratch('mls-')
    try:
        total = 0
        per = {}
        for s in seeds:
            out = os.path.join(d, 't-%d.ndjson' % s)
            scen = os.path.join(d, 's-%d.ndjson' % s)
            vlib.run_harness(['drive-multilin', '-n', str(n), '-seed', str(s), '-out', out, '-scenarios', scen, '-park'], timeout=3000)
            plain = vlib.validate_traces('MultiLin', 'MultiLin_x.cfg', out, dfs=True, locate=False)
            sync = vlib.validate_traces('MultiLin', 'MultiLin_sync.cfg', out, dfs=True)
            rep.add_states(plain['result'])
            rep.add_states(sync['result'])
            scenarios = {}
            for line in open(scen):
                o = json.loads(line)
                scenarios[o['t']] = o
            for t in sync['order']:
                if t in plain['rejected'] or scenarios[t]['scenario'].get('G') in QUEUEING:
                    continue
                total += 1
                k = scenarios[t]['scenario'].get('G')
                per[k] = per.get(k, 0) + 1
            t0 = sync['order'][0]
            rep.sample(dict(driver='drive-multilin -park', seed=s, scenario=scenarios[t0], events=[json.loads(x) for x in sync['traces'][t0][:12]]), maxn=1)
            for t, info in sync['rejected'].items():
                if t in plain['rejected']:
                    continue
                if scenarios[t]['scenario'].get('G') in QUEUEING:
                    continue
                os.makedirs(os.path.join(vlib.REPLAYS, pid), exist_ok=True)
                rp = os.path.join(vlib.REPLAYS, pid, 'drive-multilin-sync-seed%d-trace%d.ndjson' % (s, t))
                with open(rp, 'w') as fh:
                    fh.write(''.join(sync['traces'][t]))
                sc = scenarios[t]
                hang = any(json.loads(x).get('e') == 'hang' for x in sync['traces'][t])
                desc = ('a call returned before the outputs of its arrival were received (run explained by an arrival order, rejected by the SyncRet clause of MultiLin '
                        'at event %s: %s); scenario %s' % (info.get('at'), json.dumps(info.get('event')), json.dumps(sc)))
                rep.add_violation('%s.%s' % (label, 'hang' if hang else 'trace'), desc, replay_path=rp, components=[sc['scenario'].get('G')],
                                  case=dict(events=[json.loads(x) for x in sync['traces'][t]], scenario=sc['scenario']), mismatch=info)
        rep.cov['traces_validated_against_impl'] += total
        rep.cov['evaluations'] += total
        rep.cov['distinct_nontrivial'] += total
        rep.parts[label] = dict(traces=total, per=per, seeds=list(seeds))
    finally:
        shutil.rmtree(d, ignore_errors=True)


def replay_sync(pid, path):
    plain = vlib.validate_traces('MultiLin', 'MultiLin_x.cfg', path, dfs=True, locate=False)
    sync = vlib.validate_traces('MultiLin', 'MultiLin_sync.cfg', path, dfs=True)
    bad = [t for t in sync['rejected'] if t not in plain['rejected']]
    for t in bad:
        info = sync['rejected'][t]
        print('VIOLATION property=%s replay=%s  # SyncRet clause rejected the run at event %s: %s' % (pid, path, info.get('at'), json.dumps(info.get('event'))))
    return 1 if bad else 0
