"""Hand-off / channel-bridge part (C08 hand-off clause, C17): Detach.tla checked by TLC + real traces validated against DetachTrace.tla."""
import json, os, shutil
import vlib

OPS = {'C07': ('observeon', 'subscribeon'), 'C08': ('observeon', 'subscribeon', 'tochannel'), 'C17': ('tochannel', 'fromchannel', 'tochannelsync')}


def model_part(rep):
    for cfg in ['Detach_c0.cfg', 'Detach_c1.cfg', 'Detach_c2.cfg', 'Detach_unsub.cfg']:
        r = vlib.run_tlc('Detach', cfg, timeout=600, deadlock=True)
        vlib.tlc_must_pass(r, cfg)
        rep.add_states(r)
        rep.parts['tlc:' + cfg] = dict(ok=r.ok, violated=r.violation, generated=r.generated, distinct=r.distinct)
        if r.violation:
            rep.inconclusive.append('Level-2 model %s violates %s (model only)' % (cfg, r.violation))
    # the hazard of the design (a send racing with the close of the channel) is a schedule to look for, not a verdict
    r = vlib.run_tlc('Detach', 'Detach_hazard.cfg', timeout=600, deadlock=True)
    rep.add_states(r)
    rep.parts['tlc:Detach_hazard.cfg'] = dict(violated=r.violation, note='the model admits a send on a closed channel when Unsubscribe races with a producer mid-send; the real code absorbs the panic in observerImpl.tryNext - the traces below require that no panic escapes')


def trace_part(rep, pid, n, seeds):
    d = vlib.scratch('det-')
    try:
        total = nontriv = 0
        for s in seeds:
            out = os.path.join(d, 't-%d.ndjson' % s)
            scen = os.path.join(d, 's-%d.ndjson' % s)
            vlib.run_harness(['drive-detach', '-n', str(n), '-seed', str(s), '-out', out, '-scenarios', scen], timeout=3000)
            v = vlib.validate_traces('DetachTrace', 'DetachTrace_x.cfg', out)
            rep.add_states(v['result'])
            scenarios = {}
            for line in open(scen):
                o = json.loads(line)
                scenarios[o['t']] = o['scenario']
            for t in v['order']:
                sc = scenarios.get(t, {})
                if sc.get('Op') not in OPS[pid]:
                    continue
                total += 1
                if sc.get('N', 0) >= 2:
                    nontriv += 1
            shown = 0
            for t in v['order']:
                if scenarios.get(t, {}).get('Op') in OPS[pid] and shown < 1:
                    rep.sample(dict(driver='drive-detach', seed=s, scenario=scenarios[t], first_events=[json.loads(x) for x in v['traces'][t][:12]]), maxn=3)
                    shown += 1
            for t, info in v['rejected'].items():
                sc = scenarios.get(t, {})
                if sc.get('Op') not in OPS[pid]:
                    continue
                os.makedirs(os.path.join(vlib.REPLAYS, pid), exist_ok=True)
                rp = os.path.join(vlib.REPLAYS, pid, 'drive-detach-seed%d-trace%d.ndjson' % (s, t))
                with open(rp, 'w') as fh:
                    fh.write(''.join(v['traces'][t]))
                desc = 'real %s trace rejected by DetachTrace at event %s: %s; scenario %s' % (sc.get('Op'), info.get('at'), json.dumps(info.get('event')), json.dumps(sc))
                rep.add_violation('detach.trace', desc, replay_path=rp, components=[sc.get('Op')], case=dict(scenario=sc, events=[json.loads(x) for x in v['traces'][t]]), mismatch=info)
        rep.cov['traces_validated_against_impl'] += total
        rep.cov['evaluations'] += total
        rep.cov['distinct_nontrivial'] += nontriv
        rep.parts['drive-detach'] = dict(traces=total, seeds=list(seeds), ops=OPS[pid])
    finally:
        shutil.rmtree(d, ignore_errors=True)


def replay_trace(pid, path):
    v = vlib.validate_traces('DetachTrace', 'DetachTrace_x.cfg', path)
    for t, info in v['rejected'].items():
        print('VIOLATION property=%s replay=%s  # rejected at event %s: %s' % (pid, path, info.get('at'), json.dumps(info.get('event'))))
    return 1 if v['rejected'] else 0
