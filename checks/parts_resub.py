"""Resub part (C15): Resub.tla enumerated by TLC (every outcome sequence x configuration x condition sequence x cancellation point); replayed."""
import parts_pipeline as pp

CLASS_PROPS = {'values': ['C15'], 'attempts': ['C15'], 'overlap': ['C15'], 'torn': ['C15', 'C03'], 'closed': ['C15', 'C06'],
               'hang': ['C15', 'C07'], 'blocked': ['C14'], 'ctx-nil': ['C09'], 'sub': ['C12'],
               'reuse-values': ['C12', 'C15'], 'reuse-attempts': ['C12', 'C15'], 'reuse-overlap': ['C12', 'C15'], 'reuse-torn': ['C12'], 'reuse-closed': ['C12'], 'reuse-sub': ['C12']}


def run(rep, pid, thorough):
    cfg = ('resub', 'SPECIFICATION Spec\nCONSTANTS MaxAttempts = %d\n MaxVals = %d\nINVARIANTS AtMostOneLiveAttempt AttemptsInOrder Grammar Bounded EmitCase\n' % ((4, 2) if thorough else (3, 1)))
    pp.run(rep, pid, [cfg], modes='sync,async,apply-decoy-first,apply-real-first,twice', module='ResubGen', replay_cmd='replay-resub', class_props=CLASS_PROPS, prefix='resub.')


def replay_case(pid, path):
    return pp.replay_case(pid, path, replay_cmd='replay-resub', class_props=CLASS_PROPS)
