"""C16 - time-driven operators never act early, never reorder, and stop when told (DESIGN 6/C16)."""
import json, os, shutil
import vlib, parts_multi

PID = 'C16'


def main(argv):
    rep = vlib.Report(PID, 'exploration', argv)
    vlib.build_harness()
    th = rep.tier == 'thorough'
    r = vlib.run_tlc('DelayImpl', 'DelayImpl.cfg', timeout=600)
    vlib.tlc_must_pass(r, 'DelayImpl')
    rep.add_states(r)
    rep.parts['tlc:DelayImpl'] = dict(ok=r.ok, violated=r.violation, generated=r.generated, distinct=r.distinct,
                                      note='Level-2 model of Delay: FIFO and never-early although timer callbacks run in any order')
    if r.violation:
        rep.inconclusive.append('DelayImpl violates %s (model only)' % r.violation)
    d = vlib.scratch('tim-')
    try:
        total = 0
        ops = {}
        for s in [rep.seed * 100 + i for i in range(8 if th else 2)]:
            out = os.path.join(d, 't-%d.ndjson' % s)
            scen = os.path.join(d, 's-%d.ndjson' % s)
            vlib.run_harness(['drive-timed', '-n', str(400 if th else 200), '-seed', str(s), '-par', '16', '-out', out, '-scenarios', scen], timeout=3000)
            v = vlib.validate_traces('TimedTrace', 'TimedTrace_x.cfg', out)
            rep.add_states(v['result'])
            scenarios = {}
            for line in open(scen):
                o = json.loads(line)
                scenarios[o['t']] = o['scenario']
            for t in v['order']:
                total += 1
                ops[scenarios[t]['Op']] = ops.get(scenarios[t]['Op'], 0) + 1
            t0 = v['order'][0]
            rep.sample(dict(driver='drive-timed', seed=s, scenario=scenarios[t0], events=[json.loads(x) for x in v['traces'][t0][:14]]), maxn=2)
            for t, info in v['rejected'].items():
                os.makedirs(os.path.join(vlib.REPLAYS, PID), exist_ok=True)
                rp = os.path.join(vlib.REPLAYS, PID, 'drive-timed-seed%d-trace%d.ndjson' % (s, t))
                with open(rp, 'w') as fh:
                    fh.write(''.join(v['traces'][t]))
                desc = 'timeline of the real %s rejected by TimedTrace at event %s: %s; scenario %s' % (scenarios[t]['Op'], info.get('at'), json.dumps(info.get('event')), json.dumps(scenarios[t]))
                rep.add_violation('timed.trace', desc, replay_path=rp, components=[scenarios[t]['Op']])
        rep.cov['traces_validated_against_impl'] = total
        rep.cov['evaluations'] = total
        rep.cov['distinct_nontrivial'] = total   # every scenario has its own seeded timeline
        rep.parts['drive-timed'] = dict(traces=total, per_operator=ops)
    finally:
        shutil.rmtree(d, ignore_errors=True)
    # tick-driven forms (ThrottleWhen / SampleWhen / BufferWhen / WindowWhen over a ticker source): every interleaving of values and ticks (Multi.tla)
    parts_multi.run_ticks(rep, PID, th)
    rep.cov['rule'] = ('seeded timelines (durations 2-13 ms; inter-arrival gaps of 0, d/4, d/2, about d, 4d/3, 2d; bursts; slow consumers; completion / error / none; unsubscription at random instants) '
                       'of Delay, DelayEach, Timeout, Interval, IntervalWithInitial, Timer, ThrottleTime, SampleTime, BufferWithTime, BufferWithTimeOrCount, recorded with monotonic microsecond '
                       'timestamps and validated by TLC against TimedTrace.tla, which asserts only lower bounds on time and order / count relations; every timeline is distinct')
    rep.assumptions += ['a replay re-validates the recorded timeline; timing properties cannot be re-driven deterministically', 'RangeWithInterval / RepeatWithInterval are compositions of Interval, Map, Take']
    return rep.finish()


def replay(path):
    if path.endswith('.json'):
        vlib.build_harness()
        return parts_multi.replay_case(PID, path)
    v = vlib.validate_traces('TimedTrace', 'TimedTrace_x.cfg', path)
    for t, info in v['rejected'].items():
        print('VIOLATION property=%s replay=%s  # rejected at event %s: %s' % (PID, path, info.get('at'), json.dumps(info.get('event'))))
    return 1 if v['rejected'] else 0
