"""Share / connectable parts (C11): sequential definitions ShareSeq.tla / ConnSeq.tla enumerated by TLC and replayed."""
import parts_pipeline as pp

CLASS_PROPS = {'deliveries': ['C11'], 'upstream-live': ['C11', 'C03'], 'upstream-total': ['C11'], 'hang': ['C11', 'C07'], 'panic': ['C11', 'C07']}


def run_seq(rep, pid, thorough):
    share = ('share-seq', 'SPECIFICATION Spec\nCONSTANTS MaxOps = %d\n CfgSetName = "all"\nINVARIANTS LiveImpliesAttached RefsMatchObservers NoOrphanUpstream EmitCase\n' % (5 if thorough else 4))
    pp.run(rep, pid, [share], modes='seq', module='ShareGen', replay_cmd='replay-share', class_props=CLASS_PROPS, prefix='share.')
    conn = ('conn-seq', 'SPECIFICATION Spec\nCONSTANTS MaxOps = %d\nINVARIANTS NothingBeforeConnect EmitCase\n' % (5 if thorough else 4))
    pp.run(rep, pid, [conn], modes='seq', module='ConnGen', replay_cmd='replay-share', class_props=CLASS_PROPS, prefix='share.')


def replay_case(pid, path):
    return pp.replay_case(pid, path, replay_cmd='replay-share', class_props=CLASS_PROPS)
