"""Subject parts (C10): sequential definition SubjectSeq.tla enumerated by TLC and replayed; linearizability of concurrent histories (SubjectLin.tla)."""
import json, os, shutil
import vlib
import parts_pipeline as pp

CLASS_PROPS = {'deliveries': ['C10'], 'getters': ['C10', 'C03'], 'hang': ['C10', 'C07'], 'panic': ['C10', 'C07'], 'ctx-nil': ['C09']}


def cfg(name, **kw):
    c = dict(MaxOps=4, KindSetName='"all"')
    c.update(kw)
    lines = ['SPECIFICATION Spec', 'CONSTANTS'] + [' %s = %s' % (k, v) for k, v in c.items()]
    lines += ['INVARIANTS TypeOK ObserversDropped UnicastSingle EmitCase']
    return name, '\n'.join(lines) + '\n'


def model_part(rep):
    """Level 2: SubjectImpl.tla (publish / replay subject at lock grain) explored exhaustively by TLC; the two 'optimisations' are expected to break an invariant."""
    for cfgname in ['SubjectImpl_publish.cfg', 'SubjectImpl_replay.cfg']:
        r = vlib.run_tlc('SubjectImpl', cfgname, timeout=900, deadlock=False)
        vlib.tlc_must_pass(r, cfgname)
        rep.add_states(r)
        rep.parts['tlc:' + cfgname] = dict(ok=r.ok, violated=r.violation, generated=r.generated, distinct=r.distinct)
        if r.violation:
            rep.inconclusive.append('Level-2 model %s violates %s (model only)' % (cfgname, r.violation))
    for cfgname, inv in [('SubjectImpl_unlockedbcast.cfg', 'SameOrder'), ('SubjectImpl_unlockedreplay.cfg', 'ReplayExact')]:
        r = vlib.run_tlc('SubjectImpl', cfgname, timeout=900, deadlock=False)
        rep.add_states(r)
        rep.parts['tlc:' + cfgname] = dict(violated=r.violation, note='design hazard predicted by the model: delivering after unlocking / replaying before locking breaks %s; the real subjects are judged by SubjectLin.tla on recorded histories' % inv)
        if r.violation != inv:
            rep.inconclusive.append('%s was expected to violate %s, TLC reports %s' % (cfgname, inv, r.violation))


def run_seq(rep, pid, thorough):
    cfgs = [cfg('subjects-seq', MaxOps=5 if thorough else 4)]
    if thorough:
        cfgs.append(cfg('subjects-seq-6-replay', MaxOps=6, KindSetName='"replay"'))
        cfgs.append(cfg('subjects-seq-6-unicast', MaxOps=6, KindSetName='"unicast"'))
    pp.run(rep, pid, cfgs, modes='seq', module='SubjectGen', replay_cmd='replay-subject', class_props=CLASS_PROPS, prefix='subject.')


def lin_part(rep, PID, n, seeds, park, kind=None):
    d = vlib.scratch('lin-')
    label = ('subject-lin-park' if park else 'subject-lin') + ('-' + kind if kind else '')
    try:
        total = nontriv = 0
        for s in seeds:
            out = os.path.join(d, 'h-%d.ndjson' % s)
            scen = os.path.join(d, 's-%d.ndjson' % s)
            vlib.run_harness(['drive-subject', '-n', str(n), '-seed', str(s), '-out', out, '-scenarios', scen] + (['-park'] if park else []) + (['-kind', kind] if kind else []))
            v = vlib.validate_traces('SubjectLin', 'SubjectLin_C10.cfg', out, dfs=True, locate=False)
            rep.add_states(v['result'])
            scenarios = {}
            for line in open(scen):
                o = json.loads(line)
                scenarios[o['t']] = o
            for t in v['order']:
                total += 1
                lines = v['traces'][t]
                # non-trivial: at least two threads had calls in flight at the same time
                act = set()
                nt = False
                for l in lines:
                    e = json.loads(l)
                    if e['e'] == 'inv':
                        if act - {e['p']}:
                            nt = True
                        act.add(e['p'])
                    elif e['e'] == 'ret':
                        act.discard(e['p'])
                nontriv += 1 if nt else 0
            if v['order']:
                t0 = v['order'][0]
                rep.sample(dict(driver=label, seed=s, history=[json.loads(x) for x in v['traces'][t0][:14]]), maxn=3)
            for t in v['rejected']:
                os.makedirs(os.path.join(vlib.REPLAYS, PID), exist_ok=True)
                rp = os.path.join(vlib.REPLAYS, PID, '%s-seed%d-history%d.ndjson' % (label, s, t))
                with open(rp, 'w') as fh:
                    fh.write(''.join(v['traces'][t]))
                sc = scenarios.get(t, {})
                hang = json.loads(v['traces'][t][-1]).get('e') == 'hang'
                desc = ('history of the real %s subject is not linearizable w.r.t. SubjectSeq (no placement of the linearization points explains the '
                        'subscribers\' observations); scenario %s' % (sc.get('scenario', {}).get('Kind'), json.dumps(sc)[:400]))
                rep.add_violation('%s.%s' % (label, 'hang' if hang else 'history'), desc, replay_path=rp, components=[sc.get('scenario', {}).get('Kind')])
        rep.cov['traces_validated_against_impl'] += total
        rep.cov['evaluations'] += total
        rep.cov['distinct_nontrivial'] += nontriv
        rep.parts[label] = dict(histories=total, concurrent=nontriv, seeds=list(seeds))
    finally:
        shutil.rmtree(d, ignore_errors=True)



def replay_lin(pid, path):
    v = vlib.validate_traces('SubjectLin', 'SubjectLin_C10.cfg', path, dfs=True, locate=False)
    for t in v['rejected']:
        print('VIOLATION property=%s replay=%s  # history not linearizable' % (pid, path))
    return 1 if v['rejected'] else 0


def replay_case(pid, path):
    return pp.replay_case(pid, path, replay_cmd='replay-subject', class_props=CLASS_PROPS)
