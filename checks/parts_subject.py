"""Subject parts (C10): sequential definition SubjectSeq.tla enumerated by TLC and replayed; linearizability of concurrent histories (SubjectLin.tla)."""
import parts_pipeline as pp

CLASS_PROPS = {'deliveries': ['C10'], 'getters': ['C10', 'C03'], 'hang': ['C10', 'C07'], 'panic': ['C10', 'C07'], 'ctx-nil': ['C09']}


def cfg(name, **kw):
    c = dict(MaxOps=4, KindSetName='"all"')
    c.update(kw)
    lines = ['SPECIFICATION Spec', 'CONSTANTS'] + [' %s = %s' % (k, v) for k, v in c.items()]
    lines += ['INVARIANTS TypeOK ObserversDropped UnicastSingle EmitCase']
    return name, '\n'.join(lines) + '\n'


def run_seq(rep, pid, thorough):
    cfgs = [cfg('subjects-seq', MaxOps=5 if thorough else 4)]
    if thorough:
        cfgs.append(cfg('subjects-seq-6-replay', MaxOps=6, KindSetName='"replay"'))
        cfgs.append(cfg('subjects-seq-6-unicast', MaxOps=6, KindSetName='"unicast"'))
    pp.run(rep, pid, cfgs, modes='seq', module='SubjectGen', replay_cmd='replay-subject', class_props=CLASS_PROPS, prefix='subject.')


def replay_case(pid, path):
    return pp.replay_case(pid, path, replay_cmd='replay-subject', class_props=CLASS_PROPS)
