"""C18 - data plugins are faithful lifts of the functions they wrap (DESIGN 6/C18, section 7)."""
import vlib, tracecheck

PID = 'C18'


def main(argv):
    rep = vlib.Report(PID, 'other', argv)
    vlib.build_harness()
    th = rep.tier == 'thorough'
    tracecheck.run(rep, PID, 'drive-lift', 'Lift', 'Lift_x.cfg', 40 if th else 12, [rep.seed * 100 + i for i in range(5 if th else 1)], 'lift', comp_key='Op', par=1)
    rep.cov['explanation'] = ('The wrapped library functions (strconv, regexp, time, template, base64, JSON, gob, sort comparison, io.Reader) are UNINTERPRETED in the TLA+ specification: '
                              'TLA+ is the wrong tool for one pure text/numeric function. The harness calls the wrapped function directly on every input, interns values as integers and logs the graph; '
                              'TLC decides the stream-level laws of Lift.tla on the logged tables: out = lift(f, in) including the position of the Error, string/byte sibling agreement, '
                              'decode(encode(x)) = x, sorted permutation (stable where the name says so), concatenation of reader chunks = input, sinks (count = what the writer accepted, the Error of the writer incl. the one csv.Writer reports after Flush, nothing written after a refusal), inputs and delivered values unchanged at the end, '
                              'grammar and release of the source.')
    rep.cov['rule'] = ('55 plugin scenarios (strconv 16, regexp 14, strings/bytes siblings 7 pairs incl. Words, time.ParseInLocation over tz locations, base64 2, JSON 3, gob 3, time 6, template 2, sort 3 variants, stdio readers 2 (the byte reader over readers that end with io.EOF or an error of their own, alone or together with their last bytes), CSV reader incl. damaged input, CSV writer and io.Writer sink over writers that refuse from their k-th Write on) each run on seeded and '
                       'boundary inputs (empty, huge, malformed, multi-byte and invalid UTF-8 text, equal keys with distinguishable tags, sizes crossing the 1024-byte reader buffer and the 12-element '
                       'sort switch-over, all documented parameter values); every run is distinct')
    rep.assumptions += ['NewStdWriter, NewStdReader(Line), NewPrompt (process stdin / stdout) and the Random helpers are not registered']
    return rep.finish()


def replay(path):
    return tracecheck.replay(PID, 'Lift', 'Lift_x.cfg', path)
