"""Pipeline part (direction A): TLC enumerates Pipeline.tla behaviours for a generator configuration and prints each as a
JSON case; the Go replayer drives the real operators and compares after every step. Mismatch classes are attributed to
properties (DESIGN section 6)."""
import json, os, shutil, sys
import vlib

# mismatch class -> properties that class is a violation of
CLASS_PROPS = {
    'grammar': ['C01'],
    'values': ['C04'],
    'timing': ['C08'], 'gid': ['C08'], 'late': ['C08'],
    'ctx-nil': ['C09'], 'ctx-missing': ['C09'],
    'closed': ['C06'], 'after-unsub': ['C06'],
    'torn': ['C03'], 'torn-early': ['C14'],
    'sub': ['C12'],
    'panic': ['C07'],
    'catalogue': [],
}
NOTES = ('ctx-extra', 'cbn')   # regression notes, never a verdict (DESIGN 6/C09)


def props_of(cls):
    if cls in ('fault-ctx-nil', 'fault-ctx-missing'):
        return ['C07', 'C09']
    if cls == 'fault-grammar':
        return ['C07', 'C01']      # something delivered after a terminal notification, in a run with an injected fault
    if cls.startswith('fault-'):
        base = cls.split('-', 1)[1]
        return [] if base in NOTES or base == 'catalogue' else ['C07']
    if cls == 'hang':
        return ['C07', 'C03', 'C06']
    if cls.startswith('reuse-') or cls.startswith('resub-'):
        base = cls.split('-', 1)[1]
        return [] if base in NOTES or base == 'catalogue' else ['C12']
    return CLASS_PROPS.get(cls, [])


def gen_cfg(name, **kw):
    c = dict(Vals='<- ValsNeg', MaxSteps=3, MaxIllegal=1, Cuts='FALSE', ChainSetName='"single"', SampleN=0, MaxSubs=1, FaultSetName='"none"', SrcBaseName='"sub"', NilErr='FALSE')
    c.update(kw)
    lines = ['SPECIFICATION Spec', 'CONSTANTS'] + [(' %s %s' % (k, v)) if str(v).startswith('<-') else (' %s = %s' % (k, v)) for k, v in c.items()]
    lines += ['INVARIANTS TypeOK Grammar ClosedImpliesTorn EmitCase']
    return name, '\n'.join(lines) + '\n'


def run(rep, pid, cfgs, modes='ctl-unsafe,ctl-safe,sync', module='Gen', replay_cmd='replay-pipeline', extra_args=(), class_props=None, prefix='pipeline.'):
    """cfgs: list of (name, cfg text). Generates with TLC, replays on the real code, records violations of `pid`."""
    d = vlib.scratch('pipe-')
    try:
        for item in cfgs:
            name, text = item[0], item[1]
            kw = item[2] if len(item) > 2 else {}     # e.g. simulate=N, depth=D: random behaviours instead of the exhaustive enumeration
            r = vlib.run_tlc(module, name + '.cfg', extra_files={name + '.cfg': text}, timeout=6000, seed_=rep.seed, **kw)
            vlib.tlc_must_pass(r, name)
            if r.violation:
                # an invariant of the reference model itself failed: the model is wrong, not the code
                raise vlib.Infra('reference model violates %s in %s' % (r.violation, name))
            rep.add_states(r)
            gen = os.path.join(d, name + '.out')
            with open(gen, 'w') as fh:
                fh.write(r.out)
            res_path = os.path.join(d, name + '.json')
            hp = vlib.run_harness([replay_cmd, '-in', gen, '-out', res_path, '-modes', modes] + list(extra_args), timeout=9000, check=False)
            if hp.returncode != 0:
                crash = vlib.library_crash(hp)
                if crash is None:
                    sys.stderr.write(hp.stdout[-4000:] + hp.stderr[-8000:])
                    raise vlib.Infra('harness %s exited %d' % (replay_cmd, hp.returncode))
                # a panic on a goroutine the LIBRARY started killed the process while it replayed these cases: nothing can recover it (C07), and the
                # property being checked could not be observed to hold
                rep.add_violation(prefix + 'crash', 'the library panicked on a goroutine of its own while replaying %s (%s): the process died' % (name, modes),
                                  replay_obj=dict(kind='crash', module=module, cfg=name, report=crash), components=['process'])
                rep.parts['gen:' + name] = dict(tlc_states=r.distinct, crashed=True)
                continue
            res = json.load(open(res_path))
            if res.get('skipped_after_hangs'):
                rep.inconclusive.append('%s: %d cases skipped after %s hangs (circuit breaker)' % (name, res['skipped_after_hangs'], 12))
            if res['cases'] == 0:
                raise vlib.Infra('generator %s produced no case' % name)
            rep.cov['evaluations'] += res['replays']
            rep.cov['distinct_nontrivial'] += res['nontrivial']
            rep.cov['traces_validated_against_impl'] += res['replays']
            rep.parts['gen:' + name] = dict(tlc_states=r.distinct, tlc_wall_s=round(r.wall, 1), cases=res['cases'], replays=res['replays'],
                                            chains=res['chains'], mismatches_by_class=res['by_class'], exhaustive=not kw.get('simulate'))
            for smp in (res['samples'] or [])[:2]:
                rep.sample(smp, maxn=4)
            notes = {}
            for m in (res['mismatches'] or []):
                cls = m['class']
                if cls in NOTES or cls.split('-', 1)[-1] in NOTES:
                    notes[cls] = notes.get(cls, 0) + 1
                    continue
                if pid not in (class_props.get(cls, []) if class_props is not None else props_of(cls)):
                    continue
                comps = [x.split('(')[0].split('/')[0] for x in m['chain'].split('|')]
                raw = res['raw'].get(str(m['case']))
                if raw and (raw.get('fault') or {}).get('stage', 0) >= 98:
                    comps = ['observer']          # the fault was injected into the final observer's own callback
                elif raw and (raw.get('fault') or {}).get('stage', 0) >= 1:
                    comps = [comps[raw['fault']['stage'] - 1]]    # the operator whose callback received the injected fault
                rep.add_violation(prefix + cls, '%s [%s step %d] %s' % (m['chain'], m['mode'], m['step'], m['detail']),
                                  replay_obj=dict(kind='pipeline', module=module, mode=m['mode'], case=raw, mismatch=m), components=comps,
                                  case=raw, mismatch=m)
            if notes:
                rep.parts['gen:' + name]['notes'] = notes
    finally:
        shutil.rmtree(d, ignore_errors=True)


def replay_case(pid, path, replay_cmd='replay-pipeline', class_props=None):
    obj = json.load(open(path))
    rp = obj['replay']
    d = vlib.scratch('rp-')
    try:
        gen = os.path.join(d, 'case.out')
        with open(gen, 'w') as fh:
            fh.write(json.dumps(json.dumps(rp['case'], separators=(',', ':'))) + '\n')
        out = os.path.join(d, 'res.json')
        vlib.run_harness([replay_cmd, '-in', gen, '-out', out, '-modes', rp['mode']])
        res = json.load(open(out))
        bad = [m for m in (res['mismatches'] or []) if pid in (class_props.get(m['class'], []) if class_props is not None else props_of(m['class']))]
        for m in bad:
            print('VIOLATION property=%s replay=%s  # %s %s' % (pid, path, m['class'], m['detail']))
        if not bad:
            print('case replayed: no mismatch for %s' % pid)
        return 1 if bad else 0
    finally:
        shutil.rmtree(d, ignore_errors=True)
