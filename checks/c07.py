"""C07 - errors and panics surface once as an Error notification (DESIGN 6/C07): the fault plan <position, invocation index, kind> is enumerated by
TLC in Pipeline.tla (Faults), each plan is executed on the real code with recover() around every harness call and a hang watchdog."""
import vlib, parts_kernel, parts_detach, parts_creation, parts_multi, parts_pipeline as pp, common

PID = 'C07'


def main(argv):
    rep = vlib.Report(PID, 'fault_enumeration', argv)
    vlib.build_harness()
    pp.run(rep, PID, common.pipeline_cfgs(rep, 'faults'), modes='ctl-unsafe,ctl-safe,sync')
    # faults inside the FINAL OBSERVER's own callbacks (value callback at invocation 0..1, terminal callback), every instance, every script
    pp.run(rep, PID, common.pipeline_cfgs(rep, 'observer-faults'), modes='ctl-unsafe,sync')
    # a failure raised downstream of a multi-source / higher-order operator while it emits a combined value (its own teardown runs inside its emission)
    parts_multi.run_downstream_failure(rep, PID, rep.tier == 'thorough')
    # hand-off operators run user code on goroutines of their own: a finalizer that panics behind ObserveOn goes to the unhandled-error hook, it does not kill the process
    parts_detach.trace_part(rep, PID, 300 if rep.tier == 'thorough' else 150, [rep.seed * 100 + 30])
    # creation operators incl. a synchronous source whose teardown / finalizer panics, subscribed directly: nothing escapes into the Subscribe call
    parts_creation.run(rep, PID, rep.tier == 'thorough')
    # kernel traces with panicking teardowns / contended terminals: no call may hang (a lock left held) - the watchdog's "hang" event is unexplainable
    parts_kernel.trace_part(rep, PID, 300, [rep.seed * 100 + i for i in range(6 if rep.tier == 'thorough' else 1)])
    # operator-level scenarios (several producers / a context cancelled from another goroutine): the Error callback begins after every value callback has returned
    parts_kernel.trace_part(rep, PID, 300, [rep.seed * 100 + 50 + i for i in range(6 if rep.tier == 'thorough' else 1)], extra=['-ops'], label='drive-ops')
    rep.cov['rule'] = common.PIPE_RULE + ('; C07: for every case a fault plan: panic(error value) or panic(arbitrary value) in the subscribe function of the source or at the '
                                          'k-th invocation (k<=2) of the user callback of stage 1 or 2; expected: the values before the fault, then exactly one Error that '
                                          'still matches the cause, nothing afterwards, no panic in the caller, follow-up notifications still handled (no lock left held); '
                                          'non-trivial = the planned fault position is actually reached')
    rep.assumptions += ['fault positions: subscribe function of the source, value callbacks of the operators, the three callbacks of the final observer; one fault per run']
    return rep.finish()


def replay(path):
    vlib.build_harness()
    if path.endswith('.ndjson') and 'drive-detach' in path:
        return parts_detach.replay_trace(PID, path)
    if path.endswith('.ndjson'):
        return parts_kernel.replay_trace(PID, path)
    import json
    if json.load(open(path))['replay'].get('module') in ('MultiGen', 'HOGen'):
        return parts_multi.replay_case(PID, path)
    if json.load(open(path))['replay'].get('module') == 'Creation':
        return parts_creation.replay_case(PID, path)
    return pp.replay_case(PID, path)
