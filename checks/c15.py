"""C15 - re-subscribing operators run attempts in sequence, the right number of times (DESIGN 6/C15)."""
import vlib, parts_resub, parts_multi

PID = 'C15'


def wait_model_part(rep):
    """Level 2: WaitImpl.tla - subscription.go Add / Unsubscribe / Wait at the grain of the code.  The operators of this property loop on sub.Wait(): the
    attempt is released when Wait returns only if Wait also waits for the batch of finalizers a concurrent disposer is running (repair b531a22).  The repaired
    design is model-checked (safety + termination); the former design is EXPECTED to violate ReleasedWhenWaitReturns (the run found on the real code)."""
    r = vlib.run_tlc('WaitImpl', 'WaitImpl_repaired.cfg', timeout=300, deadlock=False)
    vlib.tlc_must_pass(r, 'WaitImpl_repaired.cfg')
    rep.add_states(r)
    rep.parts['tlc:WaitImpl_repaired.cfg'] = dict(ok=r.ok, violated=r.violation, generated=r.generated, distinct=r.distinct)
    if r.violation:
        rep.inconclusive.append('Level-2 model WaitImpl_repaired.cfg violates %s (model only)' % r.violation)
    r = vlib.run_tlc('WaitImpl', 'WaitImpl_former.cfg', timeout=300, deadlock=False)
    rep.add_states(r)
    rep.parts['tlc:WaitImpl_former.cfg'] = dict(violated=r.violation, note='the design before repair b531a22: Wait returns while the disposer is inside a teardown (expected counterexample)')
    if r.violation != 'ReleasedWhenWaitReturns':
        rep.inconclusive.append('WaitImpl_former.cfg was expected to violate ReleasedWhenWaitReturns, TLC reports %s' % r.violation)


def main(argv):
    rep = vlib.Report(PID, 'model_checking', argv)
    vlib.build_harness()
    wait_model_part(rep)
    parts_resub.run(rep, PID, rep.tier == 'thorough')
    # ConcatAll / FlatMap over an asynchronous outer source: one inner source at a time, the outer notification waits for it (HO.tla)
    parts_multi.run_ho(rep, PID, rep.tier == 'thorough')
    rep.cov['rule'] = ('TLC enumerates every behaviour of Resub.tla: operator configuration (Retry, RetryWithConfig MaxRetries 0..2 x ResetOnSuccess, RepeatWith 0..3, DoWhile/While in 4 flavours, '
                       'Catch, OnErrorResumeNextWith 2..3, Concat/ConcatWith 1..3) x every sequence of attempt outcomes (0..MaxVals values then completion or error) up to MaxAttempts x every truth '
                       'sequence of the loop condition x cancellation of the subscription context during every attempt (Retry); the real operators run over scripted cold sources whose n-th '
                       'subscription plays the n-th outcome, synchronously and from a goroutine; compared: forwarded values and terminal, number of subscriptions, no attempt subscribed '
                       'while an earlier one is still live, everything released when Subscribe returns; non-trivial = at least two attempts scripted')
    rep.cov['exhaustive'] = True
    rep.assumptions += ['RetryWithConfig.Delay is not exercised here (time-driven, see C16)', 'bounds: <= 3-4 attempts, <= 1-2 values per attempt']
    return rep.finish()


def replay(path):
    vlib.build_harness()
    import json
    if json.load(open(path))['replay'].get('module') == 'HOGen':
        return parts_multi.replay_case(PID, path)
    return parts_resub.replay_case(PID, path)
