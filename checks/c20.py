"""C20 - rate limiters never exceed the quota and keep per-key order (DESIGN 6/C20)."""
import vlib, parts_multi, parts_subject, tracecheck

PID = 'C20'


def main(argv):
    rep = vlib.Report(PID, 'exploration', argv)
    vlib.build_harness()
    th = rep.tier == 'thorough'
    tracecheck.run(rep, PID, 'drive-ratelimit', 'RateLimitTrace', 'RateLimitTrace_x.cfg', 400 if th else 150, [rep.seed * 100 + i for i in range(8 if th else 2)], 'ratelimit', comp_key='Limiter')
    # the native limiter keeps one unicast subject per key and per window: per-key order rests on the unicast subject delivering its queued
    # backlog and the live values in one order when it is subscribed while the source keeps emitting (SubjectLin.tla, park mode)
    parts_subject.lin_part(rep, PID, 40 if th else 20, [rep.seed * 100 + 60 + i for i in range(3 if th else 2)], park=True, kind='unicast')
    # the native limiter is GroupBy(key) | per-group window: the quota is per key only as long as GroupBy keeps ONE group per key, also when the
    # consumer of a group has left (MultiDef.tla GroupBy / GroupByLeave)
    parts_multi.run_single(rep, PID, th)
    rep.cov['rule'] = ('seeded scenarios: native and ulule limiter, quota 1..3, window 5-20 ms, 1-3 keys, 5-40 items arriving in bursts / steadily / sparsely, synchronous and asynchronous '
                       'sources, consumers that dwell about a window on one item, completion and error; for ulule also 2-4 streams sharing ONE limiter over a store with latency; the recorded '
                       'trace is validated by TLC against RateLimitTrace.tla: order-preserving subsequence without duplicates per key, quota bound quota*(L div window + 2) over EVERY pair of '
                       'passed items of a key (L over-estimated: emission of the first to reception of the last), key independence, propagation of the terminal; every scenario is distinct')
    rep.assumptions += ['exploration: seeded timelines; the quota bound is alignment-independent, so machine load cannot cause a false alarm']
    return rep.finish()


def replay(path):
    if 'subject-lin' in path:
        return parts_subject.replay_lin(PID, path)
    if path.endswith('.json'):
        vlib.build_harness()
        return parts_multi.replay_case(PID, path)
    return tracecheck.replay(PID, 'RateLimitTrace', 'RateLimitTrace_x.cfg', path)
