"""C20 - rate limiters never exceed the quota and keep per-key order (DESIGN 6/C20)."""
import vlib, tracecheck

PID = 'C20'


def main(argv):
    rep = vlib.Report(PID, 'exploration', argv)
    vlib.build_harness()
    th = rep.tier == 'thorough'
    tracecheck.run(rep, PID, 'drive-ratelimit', 'RateLimitTrace', 'RateLimitTrace_x.cfg', 400 if th else 150, [rep.seed * 100 + i for i in range(8 if th else 2)], 'ratelimit', comp_key='Limiter')
    rep.cov['rule'] = ('seeded scenarios: native and ulule limiter, quota 1..3, window 5-20 ms, 1-3 keys, 5-40 items arriving in bursts / steadily / sparsely, synchronous and asynchronous '
                       'sources, consumers that dwell about a window on one item, completion and error; for ulule also 2-4 streams sharing ONE limiter over a store with latency; the recorded '
                       'trace is validated by TLC against RateLimitTrace.tla: order-preserving subsequence without duplicates per key, quota bound quota*(L div window + 2) over EVERY pair of '
                       'passed items of a key (L over-estimated: emission of the first to reception of the last), key independence, propagation of the terminal; every scenario is distinct')
    rep.assumptions += ['exploration: seeded timelines; the quota bound is alignment-independent, so machine load cannot cause a false alarm']
    return rep.finish()


def replay(path):
    return tracecheck.replay(PID, 'RateLimitTrace', 'RateLimitTrace_x.cfg', path)
