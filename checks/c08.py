"""C08 - backpressure: the per-step comparison and the goroutine identity of every callback (DESIGN 6/C08): Ops.tla is the definition; TLC enumerates, the real code is replayed."""
import vlib, parts_subject, parts_multilin, parts_multi, parts_pipeline as pp, parts_detach, common

PID = 'C08'


def main(argv):
    rep = vlib.Report(PID, 'model_checking', argv)
    vlib.build_harness()
    pp.run(rep, PID, common.pipeline_cfgs(rep, 'values'))
    # multi-source and higher-order operators deliver synchronously too: after each arrival returned the observer holds exactly the outputs of that arrival
    # (class late), on the caller's goroutine (class gid), and an inner source is subscribed when the outer notification returns (class sub)
    parts_multi.run(rep, PID, rep.tier == 'thorough')
    parts_multi.run_ho(rep, PID, rep.tier == 'thorough')
    # the unicast subject (groups of GroupBy, windows of WindowWhen) is the other place where values wait: a value published while a subscriber
    # is being served its backlog is delivered, in order, by the time its Next returns (linearizability, SubjectLin.tla, park mode)
    parts_subject.lin_part(rep, PID, 40 if rep.tier == 'thorough' else 20, [rep.seed * 100 + 60, rep.seed * 100 + 61], park=True, kind='unicast')
    # under CONTENTION too the operators deliver on the caller's goroutine: two producers, one parked at every lock boundary in turn; when a call returns, the
    # outputs its arrival gave rise to (in the arrival order TLC found) have reached the observer (MultiLin.tla, SyncRet clause)
    parts_multilin.sync_part(rep, PID, 60 if rep.tier == 'thorough' else 15, [rep.seed * 100 + 70 + i for i in range(3 if rep.tier == 'thorough' else 1)])
    # hand-off operators: the only places where values wait in a queue
    parts_detach.model_part(rep)
    parts_detach.trace_part(rep, PID, 600 if rep.tier == 'thorough' else 300, [rep.seed * 100 + i for i in range(6 if rep.tier == 'thorough' else 1)])
    rep.cov['rule'] = common.PIPE_RULE + '; hand-off: seeded scenarios of ObserveOn / SubscribeOn / ToChannel with every capacity 1..4 (0..3), lengths 0..12, fast / slow / stalling / stopping consumers, completion / error / unsubscription, validated against DetachTrace.tla (FIFO, no loss, terminal last, run-ahead <= capacity + 2, no panic escapes)'
    rep.cov['exhaustive'] = True
    rep.assumptions += ['the reference semantics Ops.tla follows the documentation, and the pinned commit where the documentation is silent',
                        'bounded: scripts <= 3-4 notifications over 3 values; chains <= 2 operators']
    return rep.finish()


def replay(path):
    vlib.build_harness()
    if path.endswith('.ndjson') and 'multilin-sync' in path:
        return parts_multilin.replay_sync(PID, path)
    if path.endswith('.ndjson') and 'subject-lin' in path:
        return parts_subject.replay_lin(PID, path)
    if path.endswith('.ndjson'):
        return parts_detach.replay_trace(PID, path)
    import json
    if json.load(open(path))['replay'].get('module') in ('MultiGen', 'HOGen', 'MultiOddGen'):
        return parts_multi.replay_case(PID, path)
    return pp.replay_case(PID, path)
