"""Kernel part shared by C01 C02 C03 C06: Level 2 model KernelImpl.tla checked by TLC + direction B traces of the
real subscriber/subscription/observable/subject code validated against Contract.tla (clauses of ONE property)."""
import json, os, shutil
import vlib

QUICK_MODELS = ['KernelImpl_q.cfg', 'KernelImpl_unsafe.cfg']
THOROUGH_MODELS = ['KernelImpl_safe.cfg', 'KernelImpl_safe3.cfg', 'KernelImpl_evsafe.cfg', 'KernelImpl_unsafe.cfg']


def nontrivial(lines):
    """a trace is non-trivial when two harness threads had calls in flight at the same time"""
    act = set()
    cbp = set()
    for l in lines:
        e = json.loads(l)
        if e['e'] == 'cbB':
            cbp.add(e['p'])
            if len(cbp) >= 2:
                return True
        if e['e'] in ('callB', 'unsubB', 'addB', 'waitB'):
            if act - {e['p']}:
                return True
            act.add(e['p'])
        elif e['e'] in ('callE', 'unsubE', 'addE', 'waitE'):
            act.discard(e['p'])
    return False


def model_part(rep, models):
    for cfg in models:
        r = vlib.run_tlc('KernelImpl', cfg, deadlock=True, timeout=3000)
        vlib.tlc_must_pass(r, cfg)
        rep.add_states(r)
        rep.parts['tlc:' + cfg] = dict(ok=r.ok, violated=r.violation, generated=r.generated, distinct=r.distinct, wall_s=round(r.wall, 1))
        if r.violation:
            # a Level 2 counterexample is a schedule to look at, never a verdict by itself (DESIGN section 5)
            rep.inconclusive.append('Level-2 model %s violates %s (model only; the verdict comes from the real traces)' % (cfg, r.violation))


def trace_part(rep, pid, ntraces, seeds, driver='drive-kernel', spec='ContractTrace', extra=(), label=None):
    cfg = '%s_%s.cfg' % (spec, pid)
    d = vlib.scratch('ktr-')
    try:
        total = nontriv = events = 0
        seen = set()
        for s in seeds:
            out = os.path.join(d, 'trace-%d.ndjson' % s)
            scen = os.path.join(d, 'scen-%d.ndjson' % s)
            vlib.run_harness([driver, '-n', str(ntraces), '-seed', str(s), '-out', out, '-par', '8', '-scenarios', scen] + list(extra))
            scenarios = {}
            for line in open(scen):
                o = json.loads(line)
                scenarios[o['t']] = o['scenario']
            v = vlib.validate_traces(spec, cfg, out)
            rep.add_states(v['result'])
            for t in v['order']:
                lines = v['traces'][t]
                total += 1
                events += len(lines)
                h = hash(''.join(x.split('"e"', 1)[1] for x in lines))
                if h not in seen and nontrivial(lines):
                    seen.add(h)
                    nontriv += 1
            if v['order']:
                t0 = v['order'][0]
                rep.sample(dict(driver=label or driver, seed=s, trace=t0, first_events=[json.loads(x) for x in v['traces'][t0][:12]]), maxn=3)
            for t, info in v['rejected'].items():
                os.makedirs(os.path.join(vlib.REPLAYS, pid), exist_ok=True)
                rp = os.path.join(vlib.REPLAYS, pid, '%s-seed%d-trace%d.ndjson' % (label or driver, s, t))
                with open(rp, 'w') as fh:
                    fh.write(''.join(v['traces'][t]))
                ev = info.get('event')
                sc = scenarios.get(t, {})
                desc = 'real trace rejected by %s (%s clauses) at event %s: %s; scenario %s' % (spec, pid, info.get('at'), json.dumps(ev), json.dumps(sc)[:300])
                kind = 'hang' if json.loads(v['traces'][t][-1]).get('e') == 'hang' else 'trace'   # cut by the watchdog
                comps = [x for x in (sc.get('Head'), sc.get('Tail'), sc.get('Kind')) if x]
                rep.add_violation('%s.%s' % (label or driver, kind), desc, replay_path=rp, components=comps)
        rep.cov['traces_validated_against_impl'] += total
        rep.cov['evaluations'] += total
        rep.cov['distinct_nontrivial'] += nontriv
        rep.parts[label or driver] = dict(traces=total, events=events, concurrent_traces=nontriv, seeds=list(seeds))
    finally:
        shutil.rmtree(d, ignore_errors=True)


def replay_trace(pid, path, spec='ContractTrace'):
    v = vlib.validate_traces(spec, '%s_%s.cfg' % (spec, pid), path)
    if v['rejected']:
        for t, info in v['rejected'].items():
            print('VIOLATION property=%s replay=%s  # rejected at event %s: %s' % (pid, path, info.get('at'), json.dumps(info.get('event'))))
        return 1
    print('trace accepted')
    return 0
