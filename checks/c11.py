"""C11 - sharing keeps one upstream subscription and follows the reference count (DESIGN 6/C11)."""
import json, os, shutil
import vlib, parts_share, parts_subject

PID = 'C11'


def gauge_part(rep, n, seeds, park):
    d = vlib.scratch('shg-')
    label = 'share-gauge-park' if park else 'share-gauge'
    try:
        total = nontriv = 0
        for s in seeds:
            out = os.path.join(d, 't-%d.ndjson' % s)
            scen = os.path.join(d, 's-%d.ndjson' % s)
            vlib.run_harness(['drive-share', '-n', str(n), '-seed', str(s), '-out', out, '-scenarios', scen] + (['-park'] if park else []))
            v = vlib.validate_traces('ShareGauge', 'ShareGauge_C11.cfg', out)
            rep.add_states(v['result'])
            scenarios = {}
            for line in open(scen):
                o = json.loads(line)
                scenarios[o['t']] = o
            for t in v['order']:
                total += 1
                if sum(1 for l in v['traces'][t] if '"srcSub"' in l) >= 1 and len(scenarios.get(t, {}).get('scenario', {}).get('Scripts', [])) >= 2:
                    nontriv += 1
            if v['order']:
                t0 = v['order'][0]
                rep.sample(dict(driver=label, seed=s, trace=[json.loads(x) for x in v['traces'][t0][:14]]), maxn=3)
            for t, info in v['rejected'].items():
                os.makedirs(os.path.join(vlib.REPLAYS, PID), exist_ok=True)
                rp = os.path.join(vlib.REPLAYS, PID, '%s-seed%d-trace%d.ndjson' % (label, s, t))
                with open(rp, 'w') as fh:
                    fh.write(''.join(v['traces'][t]))
                hang = json.loads(v['traces'][t][-1]).get('e') == 'hang'
                desc = 'real trace rejected by ShareGauge at event %s: %s; %s' % (info.get('at'), json.dumps(info.get('event')), json.dumps(scenarios.get(t, {}))[:400])
                rep.add_violation('%s.%s' % (label, 'hang' if hang else 'trace'), desc, replay_path=rp,
                                  case=dict(events=[json.loads(x) for x in v['traces'][t]]), mismatch=info)
        rep.cov['traces_validated_against_impl'] += total
        rep.cov['evaluations'] += total
        rep.cov['distinct_nontrivial'] += nontriv
        rep.parts[label] = dict(traces=total, seeds=list(seeds))
    finally:
        shutil.rmtree(d, ignore_errors=True)


def impl_model_part(rep, th):
    """Level 2: ShareImpl.tla (Share at lock grain) explored exhaustively: the counter per generation of the code (fix 75994e7) keeps OneLive / NonNegative /
    Grammar / Released under every interleaving; Released is EXPECTED to fail for the former single counter (the repaired finding, kept at design level)."""
    # ShareImpl_flags.cfg: 4 operations per thread for the configurations in which a termination is kept (the bound of 3 had hidden the stale-flag defect, 1046747)
    for cfgname in ['ShareImpl_aware.cfg', 'ShareImpl_flags.cfg'] + (['ShareImpl_aware3.cfg'] if th else []):
        # deadlock checking ON (SpecNoStuckCall): a state without successor other than "every thread used its operations and is idle" is a call that never returns
        r = vlib.run_tlc('ShareImpl', cfgname, timeout=1500, deadlock=True)
        vlib.tlc_must_pass(r, cfgname)
        rep.add_states(r)
        rep.parts['tlc:' + cfgname] = dict(ok=r.ok, violated=r.violation, generated=r.generated, distinct=r.distinct)
        if r.violation:
            rep.inconclusive.append('Level-2 model %s violates %s (model only)' % (cfgname, r.violation))
    r = vlib.run_tlc('ShareImpl', 'ShareImpl_known.cfg', timeout=900, deadlock=False)
    rep.add_states(r)
    rep.parts['tlc:ShareImpl_known.cfg'] = dict(violated=r.violation, note='the repaired finding share.stale-refcount-after-reset-leaks-upstream at design level: with ONE reference counter for all '
                                                'generations TLC finds the run in which the upstream of a new generation is never released (Released); the real code is judged by the traces')
    if r.violation != 'Released':
        rep.inconclusive.append('ShareImpl_known.cfg was expected to violate Released, TLC reports %s' % r.violation)


def inductive_part(rep):
    """RefCountInd.tla: the design argument of the per-generation counter as an INDUCTIVE invariant, discharged by Apalache (base case, induction step,
    invariant => OneLive /\\ Released), with a vacuity control and a negative control (the former single counter fails the step).  Model level only:
    a failure here is reported as inconclusive, the verdict on the code comes from the traces."""
    import subprocess
    d = vlib.scratch('apa-')
    res = {}
    try:
        shutil.copy(os.path.join(vlib.SPEC, 'RefCountInd.tla'), d)
        runs = [('base', ['--init=Init', '--inv=IndInv', '--length=0'], True), ('step', ['--init=IndInit', '--inv=IndInv', '--length=1'], True),
                ('safety', ['--init=IndInit', '--inv=Safety', '--length=0'], True), ('not-vacuous', ['--init=IndInit', '--inv=NotVacuous', '--length=0'], False),
                ('former-single-counter', ['--init=IndInit', '--next=NextFormer', '--inv=IndInv', '--length=1'], False)]
        for name, args, want_ok in runs:
            try:
                p = subprocess.run(['apalache-mc', 'check', '--cinit=CInit', '--out-dir=' + os.path.join(d, 'out')] + args + ['RefCountInd.tla'], cwd=d, capture_output=True, text=True, timeout=600)
                out = p.stdout + p.stderr
                ok = 'The outcome is: NoError' in out
                err = 'The outcome is: Error' in out
            except Exception as e:      # tool missing / timeout: nothing is concluded
                ok = err = False
                out = str(e)
            res[name] = 'holds' if ok else 'violated' if err else 'no answer'
            if (want_ok and not ok) or (not want_ok and not err):
                rep.inconclusive.append('Apalache obligation %s of RefCountInd.tla: %s (expected %s)' % (name, res[name], 'holds' if want_ok else 'violated'))
        rep.parts['apalache:RefCountInd'] = res
    finally:
        shutil.rmtree(d, ignore_errors=True)


def impl_trace_part(rep, n, seeds, park):
    """Direction B for ShareImpl.tla: every recorded run of the real Share must be a behaviour of the lock-grain model (internal steps placed by TLC)."""
    d = vlib.scratch('shi-')
    label = 'share-impl-park' if park else 'share-impl'
    try:
        total = 0
        for s in seeds:
            out = os.path.join(d, 't-%d.ndjson' % s)
            scen = os.path.join(d, 's-%d.ndjson' % s)
            vlib.run_harness(['drive-share', '-shareonly', '-n', str(n), '-seed', str(s), '-par', '16', '-out', out, '-scenarios', scen] + (['-park'] if park else []))
            v = vlib.validate_traces('ShareImplTrace', 'ShareImplTrace_x.cfg', out, dfs=True)
            rep.add_states(v['result'])
            scenarios = {}
            for line in open(scen):
                o = json.loads(line)
                scenarios[o['t']] = o
            total += len(v['order'])
            if v['order']:
                t0 = v['order'][0]
                rep.sample(dict(driver=label, seed=s, trace=[json.loads(x) for x in v['traces'][t0][:14]]), maxn=4)
            for t, info in v['rejected'].items():
                os.makedirs(os.path.join(vlib.REPLAYS, PID), exist_ok=True)
                rp = os.path.join(vlib.REPLAYS, PID, '%s-seed%d-trace%d.ndjson' % (label, s, t))
                with open(rp, 'w') as fh:
                    fh.write(''.join(v['traces'][t]))
                hang = any(json.loads(x).get('e') == 'hang' for x in v['traces'][t])
                desc = ('run of the real Share is not a behaviour of ShareImpl.tla (no placement of the internal steps explains the observed subscriptions / releases of the '
                        'source and terminals); %s' % json.dumps(scenarios.get(t, {}))[:400])
                rep.add_violation('%s.%s' % (label, 'hang' if hang else 'trace'), desc, replay_path=rp,
                                  case=dict(events=[json.loads(x) for x in v['traces'][t]]), mismatch=info)
        rep.cov['traces_validated_against_impl'] += total
        rep.cov['evaluations'] += total
        rep.cov['distinct_nontrivial'] += total
        rep.parts[label] = dict(traces=total, seeds=list(seeds))
    finally:
        shutil.rmtree(d, ignore_errors=True)


def main(argv):
    rep = vlib.Report(PID, 'model_checking', argv)
    vlib.build_harness()
    th = rep.tier == 'thorough'
    parts_subject.model_part(rep)
    impl_model_part(rep, th)
    inductive_part(rep)
    parts_share.run_seq(rep, PID, th)
    impl_trace_part(rep, 3000 if th else 1200, [rep.seed * 100 + 20 + i for i in range(4 if th else 1)], park=False)
    impl_trace_part(rep, 80 if th else 40, [rep.seed * 100 + 30 + i for i in range(3 if th else 1)], park=True)
    gauge_part(rep, 1000 if th else 300, [rep.seed * 100 + i for i in range(5 if th else 1)], park=False)
    gauge_part(rep, 120 if th else 30, [rep.seed * 100 + 50 + i for i in range(3 if th else 1)], park=True)
    # the connector of Share / ShareReplay / connectables is a publish / behavior / replay subject: a subscriber that joins while the source keeps
    # emitting receives the replay and then the live values with nothing missing in between (linearizability, SubjectLin.tla)
    for kd in ('replay', 'publish', 'behavior'):
        parts_subject.lin_part(rep, PID, 300 if th else 150, [rep.seed * 100 + 70], park=False, kind=kd)
        parts_subject.lin_part(rep, PID, 40 if th else 12, [rep.seed * 100 + 80], park=True, kind=kd)
    rep.cov['rule'] = ('(a) TLC enumerates every operation sequence (subscribe i, re-entrant subscribe, unsubscribe i, source next/error/complete; for connectables also connect/disconnect) '
                       'up to 4-5 operations for all 8 reset-flag combinations x connectors {publish, behavior, replay 1, replay 2} (ShareSeq.tla) and 8 connectable configurations (ConnSeq.tla); '
                       'the real Share/ShareReplay/ShareWithConfig/Connectable are driven through each over an instrumented source (deliveries per subscriber, live and total upstream '
                       'subscriptions compared after each operation); (b) concurrent traces (free-running + park mode) validated by TLC against ShareGauge.tla (<= 1 live upstream at quiescent '
                       'points, per-subscriber grammar, nothing before Connect, release at reference count zero)')
    rep.cov['exhaustive'] = True
    rep.assumptions += ['the concurrent clause: gauge and grammar (ShareGauge.tla) and refinement of the lock-grain model ShareImpl.tla (connectables: gauge only)', 'bounds: <= 5 operations, 3 subscribers']
    return rep.finish()


def replay(path):
    vlib.build_harness()
    if path.endswith('.ndjson') and 'subject-lin' in path:
        return parts_subject.replay_lin(PID, path)
    if path.endswith('.ndjson') and 'share-impl' in path:
        v = vlib.validate_traces('ShareImplTrace', 'ShareImplTrace_x.cfg', path, dfs=True)
        for t in v['rejected']:
            print('VIOLATION property=%s replay=%s  # run rejected by ShareImplTrace' % (PID, path))
        return 1 if v['rejected'] else 0
    if path.endswith('.ndjson'):
        v = vlib.validate_traces('ShareGauge', 'ShareGauge_C11.cfg', path)
        for t in v['rejected']:
            print('VIOLATION property=%s replay=%s  # trace rejected by ShareGauge' % (PID, path))
        return 1 if v['rejected'] else 0
    return parts_share.replay_case(PID, path)
