module verif/harness

go 1.23

require (
	github.com/samber/ro v0.2.0
	github.com/samber/ro/ee/plugins/prometheus v0.0.0
	github.com/samber/ro/plugins/bytes v0.0.0
	github.com/samber/ro/plugins/encoding/base64 v0.0.0
	github.com/samber/ro/plugins/encoding/csv v0.0.0
	github.com/samber/ro/plugins/encoding/gob v0.0.0
	github.com/samber/ro/plugins/encoding/json v0.0.0
	github.com/samber/ro/plugins/ratelimit/native v0.0.0
	github.com/samber/ro/plugins/ratelimit/ulule v0.0.0
	github.com/samber/ro/plugins/regexp v0.0.0
	github.com/samber/ro/plugins/sort v0.0.0
	github.com/samber/ro/plugins/stdio v0.0.0
	github.com/samber/ro/plugins/strconv v0.0.0
	github.com/samber/ro/plugins/strings v0.0.0
	github.com/samber/ro/plugins/template v0.0.0
	github.com/samber/ro/plugins/time v0.0.0
	github.com/samber/ro/plugins/testify v0.0.0
	github.com/samber/ro/plugins/observability/log v0.0.0
	github.com/samber/ro/ee v0.0.0
	github.com/alecthomas/kingpin/v2 v2.3.2
	github.com/alecthomas/units v0.0.0-20211218093645-b94a6e3cc137
	github.com/andybalholm/brotli v1.0.5
	github.com/asaskevich/govalidator v0.0.0-20200108200545-475eaeb16496
	github.com/beorn7/perks v1.0.1
	github.com/bsm/ginkgo/v2 v2.12.0
	github.com/bsm/gomega v1.27.10
	github.com/bytedance/sonic v1.8.0
	github.com/cespare/xxhash/v2 v2.3.0
	github.com/chenzhuoyu/base64x v0.0.0-20221115062448-fe3a3abad311
	github.com/coreos/go-systemd/v22 v22.5.0
	github.com/creack/pty v1.1.9
	github.com/davecgh/go-spew v1.1.1
	github.com/dgryski/go-rendezvous v0.0.0-20200823014737-9f7001d12a5f
	github.com/ebitengine/purego v0.8.1
	github.com/fsnotify/fsnotify v1.9.0
	github.com/gin-contrib/sse v0.1.0
	github.com/gin-gonic/gin v1.9.0
	github.com/go-kit/log v0.2.1
	github.com/go-logfmt/logfmt v0.5.1
	github.com/go-ole/go-ole v1.2.6
	github.com/go-ozzo/ozzo-validation/v4 v4.3.0
	github.com/go-playground/locales v0.14.1
	github.com/go-playground/universal-translator v0.18.1
	github.com/go-playground/validator/v10 v10.11.2
	github.com/goccy/go-json v0.10.0
	github.com/godbus/dbus/v5 v5.0.4
	github.com/golang/protobuf v1.5.3
	github.com/google/go-cmp v0.6.0
	github.com/gorilla/websocket v1.5.3
	github.com/inconshreveable/mousetrap v1.1.0
	github.com/jpillora/backoff v1.0.0
	github.com/json-iterator/go v1.1.12
	github.com/julienschmidt/httprouter v1.3.0
	github.com/klauspost/compress v1.16.3
	github.com/klauspost/cpuid/v2 v2.0.9
	github.com/kr/pretty v0.3.1
	github.com/kr/pty v1.1.1
	github.com/kr/text v0.2.0
	github.com/leodido/go-urn v1.2.1
	github.com/lufia/plan9stats v0.0.0-20211012122336-39d0f177ccd0
	github.com/mattn/go-colorable v0.1.13
	github.com/mattn/go-isatty v0.0.19
	github.com/matttproud/golang_protobuf_extensions v1.0.4
	github.com/modern-go/concurrent v0.0.0-20180306012644-bacd9c7ef1dd
	github.com/modern-go/reflect2 v1.0.2
	github.com/mwitkow/go-conntrack v0.0.0-20190716064945-2f068394615f
	github.com/niemeyer/pretty v0.0.0-20200227124842-a10e7caefd8e
	github.com/pelletier/go-toml/v2 v2.0.6
	github.com/pkg/diff v0.0.0-20210226163009-20ebb0f2a09e
	github.com/pkg/errors v0.9.1
	github.com/pmezard/go-difflib v1.0.0
	github.com/power-devops/perfstat v0.0.0-20210106213030-5aafc221ea8c
	github.com/prometheus/client_golang v1.16.0
	github.com/prometheus/client_model v0.6.1
	github.com/prometheus/common v0.44.0
	github.com/prometheus/procfs v0.15.1
	github.com/redis/go-redis/v9 v9.7.3
	github.com/rogpeppe/go-internal v1.10.0
	github.com/rs/xid v1.5.0
	github.com/rs/zerolog v1.33.0
	github.com/samber/go-psi v1.0.1
	github.com/samber/lo v1.52.0
	github.com/shirou/gopsutil/v4 v4.24.11
	github.com/sirupsen/logrus v1.9.3
	github.com/spf13/cobra v1.10.2
	github.com/spf13/pflag v1.0.9
	github.com/stretchr/objx v0.5.2
	github.com/stretchr/testify v1.11.1
	github.com/tklauser/go-sysconf v0.3.12
	github.com/tklauser/numcpus v0.6.1
	github.com/twitchyliquid64/golang-asm v0.15.1
	github.com/ugorji/go/codec v1.2.9
	github.com/ulule/limiter/v3 v3.11.2
	github.com/valyala/bytebufferpool v1.0.0
	github.com/valyala/fasthttp v1.47.0
	github.com/xhit/go-str2duration/v2 v2.1.0
	github.com/yuin/goldmark v1.4.13
	github.com/yusufpapurcu/wmi v1.2.4
	go.uber.org/goleak v1.2.1
	golang.org/x/arch v0.0.0-20210923205945-b76863e36670
	golang.org/x/crypto v0.24.0
	golang.org/x/exp v0.0.0-20240613232115-7f521ea00fb8
	golang.org/x/mod v0.18.0
	golang.org/x/net v0.26.0
	golang.org/x/oauth2 v0.8.0
	golang.org/x/sync v0.11.0
	golang.org/x/sys v0.26.0
	golang.org/x/telemetry v0.0.0-20240521205824-bda55230c457
	golang.org/x/term v0.21.0
	golang.org/x/text v0.22.0
	golang.org/x/tools v0.22.0
	golang.org/x/xerrors v0.0.0-20200804184101-5ec99f83aff1
	google.golang.org/appengine v1.6.7
	google.golang.org/protobuf v1.34.2
	gopkg.in/check.v1 v1.0.0-20201130134442-10cb98267c6c
	gopkg.in/yaml.v2 v2.4.0
	gopkg.in/yaml.v3 v3.0.1
)

replace (
	github.com/samber/ro => /repo
	github.com/samber/ro/ee => /repo/ee
	github.com/samber/ro/ee/plugins/prometheus => /repo/ee/plugins/prometheus
	github.com/samber/ro/plugins/bytes => /repo/plugins/bytes
	github.com/samber/ro/plugins/encoding/base64 => /repo/plugins/encoding/base64
	github.com/samber/ro/plugins/encoding/csv => /repo/plugins/encoding/csv
	github.com/samber/ro/plugins/encoding/gob => /repo/plugins/encoding/gob
	github.com/samber/ro/plugins/encoding/json => /repo/plugins/encoding/json
	github.com/samber/ro/plugins/ratelimit/native => /repo/plugins/ratelimit/native
	github.com/samber/ro/plugins/ratelimit/ulule => /repo/plugins/ratelimit/ulule
	github.com/samber/ro/plugins/regexp => /repo/plugins/regexp
	github.com/samber/ro/plugins/sort => /repo/plugins/sort
	github.com/samber/ro/plugins/stdio => /repo/plugins/stdio
	github.com/samber/ro/plugins/strconv => /repo/plugins/strconv
	github.com/samber/ro/plugins/strings => /repo/plugins/strings
	github.com/samber/ro/plugins/template => /repo/plugins/template
	github.com/samber/ro/plugins/time => /repo/plugins/time
	github.com/samber/ro/plugins/testify => /repo/plugins/testify
	github.com/samber/ro/plugins/observability/log => /repo/plugins/observability/log
)
