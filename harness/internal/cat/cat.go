// Package cat is the catalogue that maps the operator instances of /verif/spec/Catalog.tla
// (field g = exported Go constructor) to the real constructors of samber/ro, instantiated at element type `any`,
// with the fixed callback catalogue that Ops.tla defines (FMap, FPred, FKey, FAcc, FErrOn).
package cat

import (
	"context"
	"errors"
	"fmt"
	"math"
	"sort"
	"strings"
	"sync/atomic"
	"time"

	"github.com/samber/lo"
	"github.com/samber/ro"

	"verif/harness/internal/rec"
)

// Stage is one element of a chain (JSON of a TLA+ stage record).
type Stage struct {
	Op string `json:"op"`
	G  string `json:"g"`
	F  string `json:"f"`
	P  int    `json:"p"`
	Q  int    `json:"q"`
}

// Fault: panic / error injected into a user callback.
type Fault struct {
	Stage int    `json:"stage"` // 1-based stage index; 0 = none
	At    int    `json:"at"`    // invocation index (0-based) of that stage's callback
	Kind  string `json:"kind"`  // "panic-err" | "panic-val"
}

// Env is shared by the callbacks of one built pipeline.
type Env struct {
	Cb     []int64 // callback invocations per stage (index 0 unused)
	Fault  Fault
	OnSubs int64 // TapOnSubscribe invocations
	Finals int64 // TapOnFinalize invocations
}

func NewEnv(n int) *Env { return &Env{Cb: make([]int64, n+1)} }

var ErrCb = errors.New("verif: callback error (cause 11)")
var ErrThrowIfEmpty = errors.New("verif: throw-if-empty (cause 12)")

// ErrSrc[0] is the NIL error: Error(nil) is a legal terminal (Throw documents it) and must travel like any other error.
var ErrSrc = []error{nil, errors.New("verif: source error 1"), errors.New("verif: source error 2"), errors.New("verif: source error 3"),
	errors.New("verif: source error 4"), errors.New("verif: source error 5"), errors.New("verif: source error 6")}
var ErrFault = errors.New("verif: injected fault (cause 13)")

// CauseOf projects an error to the cause ids of Ops.tla.
func CauseOf(err error) int {
	switch {
	case err == nil:
		return 0 // the nil error is cause 0 of the specification
	case errors.Is(err, ErrFault):
		return 13
	case errors.Is(err, ErrCb):
		return 11
	case errors.Is(err, ErrThrowIfEmpty):
		return 12
	case errors.Is(err, ro.ErrHeadEmpty):
		return 101
	case errors.Is(err, ro.ErrTailEmpty):
		return 102
	case errors.Is(err, ro.ErrFirstEmpty):
		return 103
	case errors.Is(err, ro.ErrLastEmpty):
		return 104
	case errors.Is(err, ro.ErrElementAtNotFound):
		return 105
	}
	for i, e := range ErrSrc {
		if e != nil && errors.Is(err, e) {
			return i
		}
	}
	if strings.Contains(err.Error(), "injected fault value 13") {
		return 13
	}
	return -1
}

// enter counts a callback invocation of stage i and injects the planned fault.
func (e *Env) enter(i int) {
	n := atomic.AddInt64(&e.Cb[i], 1) - 1
	if e.Fault.Stage == i && int(n) == e.Fault.At {
		if e.Fault.Kind == "panic-val" {
			panic("injected fault value 13")
		}
		panic(ErrFault)
	}
}

func withCb(ctx context.Context) context.Context { return context.WithValue(ctx, rec.KeyCb, true) }

// Markers projects a context to the marker set of Ops.tla.
func Markers(ctx context.Context) []string {
	if ctx == nil {
		return []string{"nil"}
	}
	var m []string
	if ctx.Value(rec.KeySub) != nil {
		m = append(m, "sub")
	}
	if v, ok := ctx.Value(rec.KeyItem).(int); ok {
		if v == -1 {
			m = append(m, "t")
		} else if v < 0 {
			m = append(m, fmt.Sprintf("t%d", -v))
		} else {
			m = append(m, fmt.Sprintf("i%d", v))
		}
	}
	if ctx.Value(rec.KeyCb) != nil {
		m = append(m, "cb")
	}
	if ctx.Value(rec.KeyMid) != nil {
		m = append(m, "mid")
	}
	if ctx.Value(rec.KeyRst) != nil {
		m = append(m, "rst")
	}
	if ctx.Value(rec.KeyHot) != nil {
		m = append(m, "hot")
	}
	sort.Strings(m)
	if m == nil {
		m = []string{}
	}
	return m
}

// ---- the callback catalogue (same definitions as Ops.tla) -------------------------------------------

func asInt(v any) int {
	switch x := v.(type) {
	case int:
		return x
	case int64:
		return int(x)
	case float64:
		return int(x)
	}
	panic(fmt.Sprintf("verif harness: value %#v is not an integer (ill-typed chain)", v))
}

func fMap(v any, i int64, indexed bool) any {
	r := asInt(v) + 1
	if indexed {
		r += 10 * int(i)
	}
	return r
}

func fPred(v any, i int64, indexed bool) bool {
	x := asInt(v)
	if indexed {
		x += int(i)
	}
	return x%2 == 0
}

func fKey(v any) int { return ((asInt(v) % 2) + 2) % 2 }

func fAcc(a any, v any, i int64, indexed bool) any {
	r := asInt(a) + asInt(v)
	if indexed {
		r += 10 * int(i)
	}
	return r
}

func fErrOn(v any) bool { return asInt(v) == 2 }

type Op = func(ro.Observable[any]) ro.Observable[any]

// typed adapters
func viaInt(op func(ro.Observable[int]) ro.Observable[int]) Op {
	return func(src ro.Observable[any]) ro.Observable[any] {
		return ro.Map(func(x int) any { return x })(op(ro.Map(func(a any) int { return asInt(a) })(src)))
	}
}

// viaHalf runs a float operator of the rounding family on v / 2 and reads the result back as an integer (times k).
func viaHalf(op func(ro.Observable[float64]) ro.Observable[float64], k float64) Op {
	return func(src ro.Observable[any]) ro.Observable[any] {
		return ro.Map(func(x float64) any { return int(x * k) })(op(ro.Map(func(a any) float64 { return float64(asInt(a)) / 2 })(src)))
	}
}

// viaBig feeds v * 10^9 (v * 10^309 overflows float64: the operator takes its arbitrary-precision path) and reads the result back as an integer
func viaBig(op func(ro.Observable[float64]) ro.Observable[float64]) Op {
	return func(src ro.Observable[any]) ro.Observable[any] {
		return ro.Map(func(x float64) any { return int(math.Round(x / 1e9)) })(op(ro.Map(func(a any) float64 { return float64(asInt(a)) * 1e9 })(src)))
	}
}

func anyOf[T any](o ro.Observable[T]) ro.Observable[any] {
	return ro.Map(func(x T) any { return any(x) })(o)
}

func seq(n, from int) []any {
	out := make([]any, n)
	for j := range out {
		out[j] = from + j
	}
	return out
}

// Build returns the real operator for a stage (stage index i is 1-based).
func Build(st Stage, i int, e *Env) (Op, error) {
	ix := strings.HasPrefix(st.F, "I")
	_ = ix
	g := st.G
	switch g {
	// ------------------------------------------------------------------ transformations
	case "Map":
		return ro.Map(func(v any) any { e.enter(i); return fMap(v, 0, false) }), nil
	case "MapI":
		return ro.MapI(func(v any, n int64) any { e.enter(i); return fMap(v, n, true) }), nil
	case "MapWithContext":
		return ro.MapWithContext(func(ctx context.Context, v any) (context.Context, any) {
			e.enter(i)
			return withCb(ctx), fMap(v, 0, false)
		}), nil
	case "MapIWithContext":
		return ro.MapIWithContext(func(ctx context.Context, v any, n int64) (context.Context, any) {
			e.enter(i)
			return withCb(ctx), fMap(v, n, true)
		}), nil
	case "MergeMap":
		return ro.MergeMap(func(v any) ro.Observable[any] { e.enter(i); return ro.Just(fMap(v, 0, false)) }), nil
	case "MergeMapI":
		return ro.MergeMapI(func(v any, n int64) ro.Observable[any] { e.enter(i); return ro.Just(fMap(v, n, true)) }), nil
	case "MergeMapWithContext":
		return ro.MergeMapWithContext(func(ctx context.Context, v any) ro.Observable[any] { e.enter(i); return ro.Just(fMap(v, 0, false)) }), nil
	case "MergeMapIWithContext":
		return ro.MergeMapIWithContext(func(ctx context.Context, v any, n int64) (context.Context, ro.Observable[any]) {
			e.enter(i)
			return withCb(ctx), ro.Just(fMap(v, n, true))
		}), nil
	case "FlatMap":
		return ro.FlatMap(func(v any) ro.Observable[any] { e.enter(i); return ro.Just(fMap(v, 0, false)) }), nil
	case "FlatMapI":
		return ro.FlatMapI(func(v any, n int64) ro.Observable[any] { e.enter(i); return ro.Just(fMap(v, n, true)) }), nil
	case "FlatMapWithContext":
		return ro.FlatMapWithContext(func(ctx context.Context, v any) ro.Observable[any] { e.enter(i); return ro.Just(fMap(v, 0, false)) }), nil
	case "FlatMapIWithContext":
		return ro.FlatMapIWithContext(func(ctx context.Context, v any, n int64) ro.Observable[any] {
			e.enter(i)
			return ro.Just(fMap(v, n, true))
		}), nil
	case "MapTo":
		return ro.MapTo[any, any](st.P), nil
	case "MapErr":
		return ro.MapErr(func(v any) (any, error) {
			e.enter(i)
			if fErrOn(v) {
				return nil, ErrCb
			}
			return fMap(v, 0, false), nil
		}), nil
	case "MapErrI":
		return ro.MapErrI(func(v any, n int64) (any, error) {
			e.enter(i)
			if fErrOn(v) {
				return nil, ErrCb
			}
			return fMap(v, n, true), nil
		}), nil
	case "MapErrWithContext":
		return ro.MapErrWithContext(func(ctx context.Context, v any) (any, context.Context, error) {
			e.enter(i)
			if fErrOn(v) {
				return nil, withCb(ctx), ErrCb
			}
			return fMap(v, 0, false), withCb(ctx), nil
		}), nil
	case "MapErrIWithContext":
		return ro.MapErrIWithContext(func(ctx context.Context, v any, n int64) (any, context.Context, error) {
			e.enter(i)
			if fErrOn(v) {
				return nil, withCb(ctx), ErrCb
			}
			return fMap(v, n, true), withCb(ctx), nil
		}), nil
	case "Flatten":
		return func(src ro.Observable[any]) ro.Observable[any] {
			return ro.Flatten[any]()(ro.Map(func(a any) []any { return a.([]any) })(src))
		}, nil
	case "Scan":
		return ro.Scan(func(a any, v any) any { e.enter(i); return fAcc(a, v, 0, false) }, any(st.P)), nil
	case "ScanI":
		return ro.ScanI(func(a any, v any, n int64) any { e.enter(i); return fAcc(a, v, n, true) }, any(st.P)), nil
	case "ScanWithContext":
		return ro.ScanWithContext(func(ctx context.Context, a any, v any) (context.Context, any) {
			e.enter(i)
			return withCb(ctx), fAcc(a, v, 0, false)
		}, any(st.P)), nil
	case "ScanIWithContext":
		return ro.ScanIWithContext(func(ctx context.Context, a any, v any, n int64) (context.Context, any) {
			e.enter(i)
			return withCb(ctx), fAcc(a, v, n, true)
		}, any(st.P)), nil
	case "BufferWithCount":
		return func(src ro.Observable[any]) ro.Observable[any] { return anyOf(ro.BufferWithCount[any](st.P)(src)) }, nil
	case "Pairwise":
		return func(src ro.Observable[any]) ro.Observable[any] { return anyOf(ro.Pairwise[any]()(src)) }, nil
	case "StartWith":
		return ro.StartWith(seq(st.P, 7)...), nil
	case "EndWith":
		return ro.EndWith(seq(st.P, 7)...), nil
	// ------------------------------------------------------------------ filtering
	case "Filter":
		return ro.Filter(func(v any) bool { e.enter(i); return fPred(v, 0, false) }), nil
	case "FilterI":
		return ro.FilterI(func(v any, n int64) bool { e.enter(i); return fPred(v, n, true) }), nil
	case "FilterWithContext":
		return ro.FilterWithContext(func(ctx context.Context, v any) (context.Context, bool) {
			e.enter(i)
			return withCb(ctx), fPred(v, 0, false)
		}), nil
	case "FilterIWithContext":
		return ro.FilterIWithContext(func(ctx context.Context, v any, n int64) (context.Context, bool) {
			e.enter(i)
			return withCb(ctx), fPred(v, n, true)
		}), nil
	case "Distinct":
		return ro.Distinct[any](), nil
	case "DistinctBy":
		return ro.DistinctBy(func(v any) int { e.enter(i); return fKey(v) }), nil
	case "DistinctByWithContext":
		return ro.DistinctByWithContext(func(ctx context.Context, v any) (context.Context, int) { e.enter(i); return withCb(ctx), fKey(v) }), nil
	case "IgnoreElements":
		return ro.IgnoreElements[any](), nil
	case "Skip":
		return ro.Skip[any](int64(st.P)), nil
	case "SkipWhile":
		return ro.SkipWhile(func(v any) bool { e.enter(i); return fPred(v, 0, false) }), nil
	case "SkipWhileI":
		return ro.SkipWhileI(func(v any, n int64) bool { e.enter(i); return fPred(v, n, true) }), nil
	case "SkipWhileWithContext":
		return ro.SkipWhileWithContext(func(ctx context.Context, v any) (context.Context, bool) {
			e.enter(i)
			return withCb(ctx), fPred(v, 0, false)
		}), nil
	case "SkipWhileIWithContext":
		return ro.SkipWhileIWithContext(func(ctx context.Context, v any, n int64) (context.Context, bool) {
			e.enter(i)
			return withCb(ctx), fPred(v, n, true)
		}), nil
	case "SkipLast":
		return ro.SkipLast[any](st.P), nil
	case "Take":
		return ro.Take[any](int64(st.P)), nil
	case "TakeWhile":
		return ro.TakeWhile(func(v any) bool { e.enter(i); return fPred(v, 0, false) }), nil
	case "TakeWhileI":
		return ro.TakeWhileI(func(v any, n int64) bool { e.enter(i); return fPred(v, n, true) }), nil
	case "TakeWhileWithContext":
		return ro.TakeWhileWithContext(func(ctx context.Context, v any) (context.Context, bool) {
			e.enter(i)
			return withCb(ctx), fPred(v, 0, false)
		}), nil
	case "TakeWhileIWithContext":
		return ro.TakeWhileIWithContext(func(ctx context.Context, v any, n int64) (context.Context, bool) {
			e.enter(i)
			return withCb(ctx), fPred(v, n, true)
		}), nil
	case "TakeLast":
		return ro.TakeLast[any](st.P), nil
	case "Head":
		return ro.Head[any](), nil
	case "Tail":
		return ro.Tail[any](), nil
	case "First":
		return ro.First(func(v any) bool { e.enter(i); return fPred(v, 0, false) }), nil
	case "FirstI":
		return ro.FirstI(func(v any, n int64) bool { e.enter(i); return fPred(v, n, true) }), nil
	case "FirstWithContext":
		return ro.FirstWithContext(func(ctx context.Context, v any) (context.Context, bool) {
			e.enter(i)
			return withCb(ctx), fPred(v, 0, false)
		}), nil
	case "FirstIWithContext":
		return ro.FirstIWithContext(func(ctx context.Context, v any, n int64) (context.Context, bool) {
			e.enter(i)
			return withCb(ctx), fPred(v, n, true)
		}), nil
	case "Last":
		return ro.Last(func(v any) bool { e.enter(i); return fPred(v, 0, false) }), nil
	case "LastI":
		return ro.LastI(func(v any, n int64) bool { e.enter(i); return fPred(v, n, true) }), nil
	case "LastWithContext":
		return ro.LastWithContext(func(ctx context.Context, v any) (context.Context, bool) {
			e.enter(i)
			return withCb(ctx), fPred(v, 0, false)
		}), nil
	case "LastIWithContext":
		return ro.LastIWithContext(func(ctx context.Context, v any, n int64) (context.Context, bool) {
			e.enter(i)
			return withCb(ctx), fPred(v, n, true)
		}), nil
	case "ElementAt":
		return ro.ElementAt[any](st.P), nil
	case "ElementAtOrDefault":
		return ro.ElementAtOrDefault[any](int64(st.P), st.Q), nil
	// ------------------------------------------------------------------ conditional
	case "All":
		return func(src ro.Observable[any]) ro.Observable[any] {
			return anyOf(ro.All(func(v any) bool { e.enter(i); return fPred(v, 0, false) })(src))
		}, nil
	case "AllI":
		return func(src ro.Observable[any]) ro.Observable[any] {
			return anyOf(ro.AllI(func(v any, n int64) bool { e.enter(i); return fPred(v, n, true) })(src))
		}, nil
	case "AllWithContext":
		return func(src ro.Observable[any]) ro.Observable[any] {
			return anyOf(ro.AllWithContext(func(ctx context.Context, v any) bool { e.enter(i); return fPred(v, 0, false) })(src))
		}, nil
	case "AllIWithContext":
		return func(src ro.Observable[any]) ro.Observable[any] {
			return anyOf(ro.AllIWithContext(func(ctx context.Context, v any, n int64) bool { e.enter(i); return fPred(v, n, true) })(src))
		}, nil
	case "Contains":
		return func(src ro.Observable[any]) ro.Observable[any] {
			return anyOf(ro.Contains(func(v any) bool { e.enter(i); return fPred(v, 0, false) })(src))
		}, nil
	case "ContainsI":
		return func(src ro.Observable[any]) ro.Observable[any] {
			return anyOf(ro.ContainsI(func(v any, n int64) bool { e.enter(i); return fPred(v, n, true) })(src))
		}, nil
	case "ContainsWithContext":
		return func(src ro.Observable[any]) ro.Observable[any] {
			return anyOf(ro.ContainsWithContext(func(ctx context.Context, v any) bool { e.enter(i); return fPred(v, 0, false) })(src))
		}, nil
	case "ContainsIWithContext":
		return func(src ro.Observable[any]) ro.Observable[any] {
			return anyOf(ro.ContainsIWithContext(func(ctx context.Context, v any, n int64) bool { e.enter(i); return fPred(v, n, true) })(src))
		}, nil
	case "Find":
		return ro.Find(func(v any) bool { e.enter(i); return fPred(v, 0, false) }), nil
	case "FindI":
		return ro.FindI(func(v any, n int64) bool { e.enter(i); return fPred(v, n, true) }), nil
	case "FindWithContext":
		return ro.FindWithContext(func(ctx context.Context, v any) bool { e.enter(i); return fPred(v, 0, false) }), nil
	case "FindIWithContext":
		return ro.FindIWithContext(func(ctx context.Context, v any, n int64) bool { e.enter(i); return fPred(v, n, true) }), nil
	case "DefaultIfEmpty":
		return ro.DefaultIfEmpty[any](st.P), nil
	// ------------------------------------------------------------------ math
	case "Count":
		return func(src ro.Observable[any]) ro.Observable[any] {
			return ro.Map(func(x int64) any { return int(x) })(ro.Count[any]()(src))
		}, nil
	case "Sum":
		return viaInt(ro.Sum[int]()), nil
	case "Min":
		return viaInt(ro.Min[int]()), nil
	case "Max":
		return viaInt(ro.Max[int]()), nil
	case "Clamp":
		return viaInt(ro.Clamp(st.P, st.Q)), nil
	case "Reduce":
		return ro.Reduce(func(a any, v any) any { e.enter(i); return fAcc(a, v, 0, false) }, any(st.P)), nil
	case "ReduceI":
		return ro.ReduceI(func(a any, v any, n int64) any { e.enter(i); return fAcc(a, v, n, true) }, any(st.P)), nil
	case "ReduceWithContext":
		return ro.ReduceWithContext(func(ctx context.Context, a any, v any) (context.Context, any) {
			e.enter(i)
			return withCb(ctx), fAcc(a, v, 0, false)
		}, any(st.P)), nil
	case "ReduceIWithContext":
		return ro.ReduceIWithContext(func(ctx context.Context, a any, v any, n int64) (context.Context, any) {
			e.enter(i)
			return withCb(ctx), fAcc(a, v, n, true)
		}, any(st.P)), nil
	// ------------------------------------------------------------------ error handling
	case "OnErrorReturn":
		return ro.OnErrorReturn[any](st.P), nil
	case "ThrowIfEmpty":
		return ro.ThrowIfEmpty[any](func() error { e.enter(i); return ErrThrowIfEmpty }), nil
	// ------------------------------------------------------------------ utility
	case "Tap", "Do":
		f := lo.Ternary(g == "Tap", ro.Tap[any], ro.Do[any])
		return f(func(any) { e.enter(i) }, func(error) { e.enter(i) }, func() { e.enter(i) }), nil
	case "TapWithContext", "DoWithContext":
		f := lo.Ternary(g == "TapWithContext", ro.TapWithContext[any], ro.DoWithContext[any])
		return f(func(context.Context, any) { e.enter(i) }, func(context.Context, error) { e.enter(i) }, func(context.Context) { e.enter(i) }), nil
	case "TapOnNext", "DoOnNext":
		f := lo.Ternary(g == "TapOnNext", ro.TapOnNext[any], ro.DoOnNext[any])
		return f(func(any) { e.enter(i) }), nil
	case "TapOnNextWithContext", "DoOnNextWithContext":
		f := lo.Ternary(g == "TapOnNextWithContext", ro.TapOnNextWithContext[any], ro.DoOnNextWithContext[any])
		return f(func(context.Context, any) { e.enter(i) }), nil
	case "TapOnError", "DoOnError":
		f := lo.Ternary(g == "TapOnError", ro.TapOnError[any], ro.DoOnError[any])
		return f(func(error) { e.enter(i) }), nil
	case "TapOnErrorWithContext", "DoOnErrorWithContext":
		f := lo.Ternary(g == "TapOnErrorWithContext", ro.TapOnErrorWithContext[any], ro.DoOnErrorWithContext[any])
		return f(func(context.Context, error) { e.enter(i) }), nil
	case "TapOnComplete", "DoOnComplete":
		f := lo.Ternary(g == "TapOnComplete", ro.TapOnComplete[any], ro.DoOnComplete[any])
		return f(func() { e.enter(i) }), nil
	case "TapOnCompleteWithContext", "DoOnCompleteWithContext":
		f := lo.Ternary(g == "TapOnCompleteWithContext", ro.TapOnCompleteWithContext[any], ro.DoOnCompleteWithContext[any])
		return f(func(context.Context) { e.enter(i) }), nil
	case "TapOnSubscribe", "DoOnSubscribe":
		f := lo.Ternary(g == "TapOnSubscribe", ro.TapOnSubscribe[any], ro.DoOnSubscribe[any])
		return f(func() { atomic.AddInt64(&e.OnSubs, 1) }), nil
	case "TapOnSubscribeWithContext", "DoOnSubscribeWithContext":
		f := lo.Ternary(g == "TapOnSubscribeWithContext", ro.TapOnSubscribeWithContext[any], ro.DoOnSubscribeWithContext[any])
		return f(func(context.Context) { atomic.AddInt64(&e.OnSubs, 1) }), nil
	case "TapOnFinalize", "DoOnFinalize":
		f := lo.Ternary(g == "TapOnFinalize", ro.TapOnFinalize[any], ro.DoOnFinalize[any])
		return f(func() { atomic.AddInt64(&e.Finals, 1) }), nil
	case "Materialize":
		return func(src ro.Observable[any]) ro.Observable[any] { return anyOf(ro.Materialize[any]()(src)) }, nil
	case "Dematerialize":
		return func(src ro.Observable[any]) ro.Observable[any] {
			return ro.Dematerialize[any]()(ro.Map(func(a any) ro.Notification[any] { return a.(ro.Notification[any]) })(src))
		}, nil
	case "Serialize":
		return ro.Serialize[any](), nil
	// ------------------------------------------------------------------ sink
	case "ToSlice":
		return func(src ro.Observable[any]) ro.Observable[any] { return anyOf(ro.ToSlice[any]()(src)) }, nil
	case "ToMap":
		return func(src ro.Observable[any]) ro.Observable[any] {
			return anyOf(ro.ToMap(func(v any) (int, any) { e.enter(i); return fKey(v), v })(src))
		}, nil
	case "ToMapI":
		return func(src ro.Observable[any]) ro.Observable[any] {
			return anyOf(ro.ToMapI(func(v any, n int64) (int, any) { e.enter(i); return fKey(v), v })(src))
		}, nil
	case "ToMapWithContext":
		return func(src ro.Observable[any]) ro.Observable[any] {
			return anyOf(ro.ToMapWithContext(func(ctx context.Context, v any) (int, any) { e.enter(i); return fKey(v), v })(src))
		}, nil
	case "ToMapIWithContext":
		return func(src ro.Observable[any]) ro.Observable[any] {
			return anyOf(ro.ToMapIWithContext(func(ctx context.Context, v any, n int64) (int, any) { e.enter(i); return fKey(v), v })(src))
		}, nil
	// ------------------------------------------------------------------ context
	case "ContextWithValue":
		return ro.ContextWithValue[any](rec.KeyMid, true), nil
	case "ContextReset":
		return ro.ContextReset[any](context.WithValue(context.Background(), rec.KeyRst, true)), nil
	case "ContextMap":
		return ro.ContextMap[any](func(ctx context.Context) context.Context { e.enter(i); return context.WithValue(ctx, rec.KeyMid, true) }), nil
	case "ContextMapI":
		return ro.ContextMapI[any](func(ctx context.Context, n int64) context.Context {
			e.enter(i)
			return context.WithValue(ctx, rec.KeyMid, true)
		}), nil
	case "ContextWithTimeout":
		return ro.ContextWithTimeout[any](3600 * 1e9), nil
	case "ContextWithDeadline":
		return ro.ContextWithDeadline[any](time.Now().Add(time.Hour)), nil
	case "Cast":
		return func(src ro.Observable[any]) ro.Observable[any] { return anyOf(ro.Cast[any, int]()(src)) }, nil
	case "TimeInterval":
		// the measured interval is abstracted away: the value passes through unchanged
		return func(src ro.Observable[any]) ro.Observable[any] {
			return ro.Map(func(x ro.IntervalValue[any]) any { return x.Value })(ro.TimeInterval[any]()(src))
		}, nil
	case "Timestamp":
		return func(src ro.Observable[any]) ro.Observable[any] {
			return ro.Map(func(x ro.TimestampValue[any]) any { return x.Value })(ro.Timestamp[any]()(src))
		}, nil
	case "Ceil":
		return viaHalf(ro.Ceil(), 1), nil
	case "Floor":
		return viaHalf(ro.Floor(), 1), nil
	case "Round":
		return viaHalf(ro.Round(), 1), nil
	case "Trunc":
		return viaHalf(ro.Trunc(), 1), nil
	case "Abs":
		return viaHalf(ro.Abs(), 2), nil
	case "CeilP1":
		return viaHalf(ro.CeilWithPrecision(1), 2), nil
	case "FloorP1":
		return viaHalf(ro.FloorWithPrecision(1), 2), nil
	case "CeilBig":
		return viaBig(ro.CeilWithPrecision(300)), nil
	case "FloorBig":
		return viaBig(ro.FloorWithPrecision(300)), nil
	case "Average":
		return func(src ro.Observable[any]) ro.Observable[any] {
			return ro.Map(func(x float64) any {
				if math.IsNaN(x) {
					return -999
				}
				return int(math.Round(x * 12))
			})(ro.Average[int]()(ro.Map(func(a any) int { return asInt(a) })(src)))
		}, nil
	}
	return nil, fmt.Errorf("catalogue: no constructor for %q", g)
}

// Canon renders a delivered value in the canonical form also produced from the TLA+ JSON (see CanonJSON).
func Canon(v any) string {
	switch x := v.(type) {
	case nil:
		return "null"
	case int:
		return fmt.Sprint(x)
	case int64:
		return fmt.Sprint(x)
	case float64:
		if x == float64(int64(x)) {
			return fmt.Sprint(int64(x))
		}
		return fmt.Sprint(x)
	case bool:
		return fmt.Sprint(x)
	case string:
		return x
	case []any:
		parts := make([]string, len(x))
		for i := range x {
			parts[i] = Canon(x[i])
		}
		return "[" + strings.Join(parts, ",") + "]"
	case []int:
		parts := make([]string, len(x))
		for i := range x {
			parts[i] = fmt.Sprint(x[i])
		}
		return "[" + strings.Join(parts, ",") + "]"
	case ro.Notification[any]:
		switch x.Kind {
		case ro.KindNext:
			return "{N:" + Canon(x.Value) + "}"
		case ro.KindError:
			return fmt.Sprintf("{E:%d}", CauseOf(x.Err))
		default:
			return "{C:0}"
		}
	case map[int]any:
		keys := make([]int, 0, len(x))
		for k := range x {
			keys = append(keys, k)
		}
		sort.Ints(keys)
		parts := make([]string, len(keys))
		for i, k := range keys {
			parts[i] = fmt.Sprintf("[%d,%s]", k, Canon(x[k]))
		}
		return "[" + strings.Join(parts, ",") + "]"
	case map[string]any: // a materialised notification coming from the TLA+ JSON
		if k, ok := x["k"].(string); ok {
			return "{" + k + ":" + Canon(x["v"]) + "}"
		}
	case lo.Tuple2[any, any]:
		return "[" + Canon(x.A) + "," + Canon(x.B) + "]"
	}
	if ExtraCanon != nil {
		if s, ok := ExtraCanon(v); ok {
			return s
		}
	}
	return fmt.Sprintf("?%T:%v", v, v)
}

// ExtraCanon lets other packages render further value types.
var ExtraCanon func(v any) (string, bool)
