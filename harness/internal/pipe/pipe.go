// Package pipe replays TLC-generated pipeline cases (Pipeline.tla, direction A) on the real operators and
// compares the observation after every step with the expected one.
package pipe

import (
	"bufio"
	"context"
	"encoding/json"
	"errors"
	"fmt"
	"os"
	"runtime"
	"sort"
	"strconv"
	"strings"
	"sync"
	"time"

	"github.com/samber/ro"

	"verif/harness/internal/cat"
	"verif/harness/internal/rec"
)

type Notif struct {
	K string   `json:"k"`
	V any      `json:"v"`
	C []string `json:"c"`
}

type Exp struct {
	Log    []Notif `json:"log"`
	Closed bool    `json:"closed"`
	Sub    int     `json:"sub"`
	Torn   int     `json:"torn"`
}

type Step struct {
	Do  string `json:"do"`
	N   Notif  `json:"n"`
	Exp Exp    `json:"exp"`
}

type Case struct {
	Chain []cat.Stage `json:"chain"`
	Steps []Step      `json:"steps"`
	Cbn   []int       `json:"cbn"`
	Fault *cat.Fault  `json:"fault,omitempty"`
	NSubs int         `json:"nsubs"`
	Hot   bool        `json:"hot"` // the source emits with a context of its own, not derived from the subscription context
	Raw   string      `json:"-"`
}

type Mismatch struct {
	Case   int    `json:"case"`
	Chain  string `json:"chain"`
	Mode   string `json:"mode"`
	Step   int    `json:"step"`
	Class  string `json:"class"`
	Detail string `json:"detail"`
}

// ReadCases parses TLC output: every line that is a TLA+ string literal holding a JSON object is a case.
func ReadCases(path string, fn func(i int, c *Case)) (int, error) {
	f, err := os.Open(path)
	if err != nil {
		return 0, err
	}
	defer f.Close()
	sc := bufio.NewScanner(f)
	sc.Buffer(make([]byte, 1<<20), 1<<26)
	n := 0
	for sc.Scan() {
		line := sc.Text()
		if !strings.HasPrefix(line, "\"{") {
			continue
		}
		s, err := strconv.Unquote(line)
		if err != nil {
			return n, fmt.Errorf("unquote: %v: %.80s", err, line)
		}
		c := &Case{Raw: s}
		if err := json.Unmarshal([]byte(s), c); err != nil {
			return n, fmt.Errorf("case json: %v: %.200s", err, s)
		}
		fn(n, c)
		n++
	}
	return n, sc.Err()
}

func ChainName(ch []cat.Stage) string {
	parts := make([]string, len(ch))
	for i, s := range ch {
		parts[i] = fmt.Sprintf("%s(%d,%d)", s.G, s.P, s.Q)
	}
	return strings.Join(parts, "|")
}

// ---- controllable source ---------------------------------------------------------------------------

type ctlSub struct {
	dest   ro.Observer[any]
	subCtx context.Context
	items  int
	hot    bool
}

// Ctl is a cold, controllable source: every subscription registers its destination; the replayer emits on demand.
type Ctl struct {
	mu              sync.Mutex
	subs            []*ctlSub
	Subs            int
	Torn            int
	SubCtxMarkers   []string
	PanicOnSub      bool
	Hot             bool // emit with a context of the producer's own (hot source)
	PanicOnTeardown bool
	OnTeardown      func()           // runs inside the teardown (after the counter)
	OnSub           func(cs *ctlSub) // runs inside the subscription, before the teardown is returned (a source that ends synchronously)
}

func (c *Ctl) Observable(mode string, script []Step) ro.Observable[any] {
	fn := func(ctx context.Context, dest ro.Observer[any]) ro.Teardown {
		c.mu.Lock()
		c.Subs++
		cs := &ctlSub{dest: dest, subCtx: ctx, hot: c.Hot}
		c.subs = append(c.subs, cs)
		c.SubCtxMarkers = cat.Markers(ctx)
		c.mu.Unlock()
		if c.PanicOnSub {
			panic(cat.ErrFault)
		}
		if c.OnSub != nil {
			c.OnSub(cs)
		}
		if mode == "sync" {
			for _, st := range script {
				if st.Do == "push" {
					emit(cs, st.N)
				}
			}
		}
		return func() {
			c.mu.Lock()
			c.Torn++
			c.mu.Unlock()
			if c.OnTeardown != nil {
				c.OnTeardown()
			}
			if c.PanicOnTeardown {
				panic(errors.New("verif: this teardown panics"))
			}
		}
	}
	if mode == "ctl-safe" {
		return ro.NewObservableWithContext(fn)
	}
	return ro.NewUnsafeObservableWithContext(fn)
}

func (c *Ctl) counts() (int, int) {
	c.mu.Lock()
	defer c.mu.Unlock()
	return c.Subs, c.Torn
}

// DestOf exposes the destination and context of the k-th subscription (drivers outside this package).
type DestOf struct {
	D   ro.Observer[any]
	Ctx context.Context
}

func (c *Ctl) Dest(k int) *DestOf {
	if cs := c.nth(k); cs != nil {
		return &DestOf{D: cs.dest, Ctx: cs.subCtx}
	}
	return nil
}

func (c *Ctl) nth(k int) *ctlSub {
	c.mu.Lock()
	defer c.mu.Unlock()
	if k < len(c.subs) {
		return c.subs[k]
	}
	return nil
}

var hotCtx = context.WithValue(context.Background(), rec.KeyHot, true)

func emit(cs *ctlSub, n Notif) {
	base := cs.subCtx
	if cs.hot {
		base = hotCtx
	}
	switch n.K {
	case "N":
		ctx := context.WithValue(base, rec.KeyItem, cs.items)
		cs.items++
		cs.dest.NextWithContext(ctx, toVal(n.V))
	case "E":
		cs.dest.ErrorWithContext(context.WithValue(base, rec.KeyItem, -1), cat.ErrSrc[int(n.V.(float64))])
	case "C":
		cs.dest.CompleteWithContext(context.WithValue(base, rec.KeyItem, -1))
	}
}

func toVal(v any) any {
	switch x := v.(type) {
	case float64:
		return int(x)
	case []any:
		out := make([]any, len(x))
		for i := range x {
			out[i] = toVal(x[i])
		}
		return out
	}
	return v
}

type got struct {
	K   string
	V   string
	C   []string
	Gid uint64
}

func gid() uint64 {
	var buf [64]byte
	n := runtime.Stack(buf[:], false)
	// "goroutine 123 ["
	s := string(buf[10:n])
	i := strings.IndexByte(s, ' ')
	id, _ := strconv.ParseUint(s[:i], 10, 64)
	return id
}

// replica is one subscription stream being driven and observed.
type replica struct {
	name        string
	o           ro.Observable[any]
	ctl         *Ctl
	ctlBase     int // index of this replica's first subscription inside ctl.subs
	ctlStride   int // replicas sharing one Ctl subscribe alternately: my k-th subscription is subs[ctlBase+k*ctlStride]
	nsub        int
	share       int // number of replicas sharing ctl (expected counters are multiplied / offset accordingly)
	mu          sync.Mutex
	log         []got
	pos         int
	sub         ro.Subscription
	terminated  bool
	unsubbed    bool
	expAll      []string
	gotAll      []string
	firstVal    int
	me          uint64
	checkGid    bool
	obsFault    *cat.Fault // C07: stage 99 = the observer's value callback panics at invocation At; 98 = its terminal callback panics
	obsN        int
	cutOnGroup  int // higher-order outputs: leave the OUTER stream inside the callback that hands out this group (0 = never)
	cutFn       func()
	leaveGroups bool // higher-order outputs: unsubscribe from every inner observable after its first value
}

func (r *replica) observer() ro.Observer[any] {
	recv := func(k string, v string, ctx context.Context) {
		g := got{K: k, V: v, C: cat.Markers(ctx), Gid: r.me}
		if r.checkGid {
			g.Gid = gid()
		}
		r.mu.Lock()
		r.log = append(r.log, g)
		r.mu.Unlock()
	}
	nwin := 0
	return ro.NewObserverWithContext(
		func(ctx context.Context, v any) {
			if w, ok := v.(ro.Observable[any]); ok {
				// higher-order output (a window / group): number it and observe it at once
				nwin++
				j := nwin
				recv("N", fmt.Sprint(1000+j), ctx)
				// the window / group is subscribed with a context of its own (subscription marker only): what it delivers must carry the
				// context of the source notification, not the context of whoever subscribed it (C09: stored values keep their context)
				var me ro.Subscriber[any]
				first := true
				me = ro.NewSubscriber(ro.NewObserverWithContext(
					func(ctx context.Context, x any) {
						recv("I", fmt.Sprint(100*j+x.(int)), ctx)
						if r.leaveGroups && first {
							first = false
							me.Unsubscribe() // the observer leaves the group after its first value
						}
					},
					func(ctx context.Context, err error) { recv("IE", fmt.Sprint(j), ctx) },
					func(ctx context.Context) { recv("IC", fmt.Sprint(j), ctx) },
				))
				w.SubscribeWithContext(context.WithValue(context.Background(), rec.KeySub, true), me)
				if r.cutOnGroup == j && r.cutFn != nil {
					r.cutFn()
				}
				return
			}
			recv("N", cat.Canon(v), ctx)
			if f := r.obsFault; f != nil && f.Stage == 99 {
				r.obsN++
				if r.obsN-1 == f.At {
					obsPanic(f)
				}
			}
		},
		func(ctx context.Context, err error) {
			recv("E", fmt.Sprint(cat.CauseOf(err)), ctx)
			if f := r.obsFault; f != nil && f.Stage == 98 {
				obsPanic(f)
			}
		},
		func(ctx context.Context) {
			recv("C", "0", ctx)
			if f := r.obsFault; f != nil && f.Stage == 98 {
				obsPanic(f)
			}
		},
	)
}

func obsPanic(f *cat.Fault) {
	if f.Kind == "panic-val" {
		panic("injected fault value 13")
	}
	panic(cat.ErrFault)
}

// Replay runs one case in one mode.
//
//	ctl-unsafe / ctl-safe : controllable source, observation compared after every step
//	sync                  : synchronous cold source, concatenated log and final counters compared
//	interleave            : TWO subscriptions of the same pipeline object stepped alternately (C12)
//	multi-apply           : the same operator VALUES applied to two sources, both pipelines stepped alternately (C12)
func Replay(idx int, c *Case, mode string, out *[]Mismatch) {
	done := make(chan struct{})
	var res []Mismatch
	go func() {
		defer close(done)
		replay(idx, c, mode, &res)
	}()
	select {
	case <-done:
		*out = append(*out, res...)
	case <-time.After(20 * time.Second):
		// the calling goroutine is stuck inside the library (a lock left held, a Wait that never returns)
		buf := make([]byte, 1<<16)
		n := runtime.Stack(buf, true)
		st := string(buf[:n])
		if k := strings.Index(st, "samber/ro."); k >= 0 {
			lo, hi := k-200, k+400
			if lo < 0 {
				lo = 0
			}
			if hi > len(st) {
				hi = len(st)
			}
			st = st[lo:hi]
		} else if len(st) > 600 {
			st = st[:600]
		}
		*out = append(*out, Mismatch{Case: idx, Chain: ChainName(c.Chain), Mode: mode, Step: -1, Class: "hang", Detail: "a call into the library did not return within 20s: " + st})
	}
}

func replay(idx int, c *Case, mode string, out *[]Mismatch) {
	name := ChainName(c.Chain)
	prefix := ""
	if mode == "interleave" || mode == "multi-apply" || mode == "concurrent" {
		prefix = "reuse-"
	}
	secondSub := 1 << 30 // index of the step that re-subscribes the same pipeline object (C12), if any
	nsubSteps := 0
	for i, st := range c.Steps {
		if st.Do == "sub" {
			nsubSteps++
			if nsubSteps == 2 {
				secondSub = i
			}
		}
	}
	var outMu sync.Mutex
	add := func(step int, class, detail string) {
		outMu.Lock()
		defer outMu.Unlock()
		p := prefix
		if step >= secondSub {
			p = "resub-"
		}
		if c.Fault != nil && c.Fault.Stage != 0 {
			p = "fault-" // any deviation of a run with an injected fault is a C07 matter
		}
		*out = append(*out, Mismatch{Case: idx, Chain: name, Mode: mode, Step: step, Class: p + class, Detail: detail})
	}
	env := cat.NewEnv(len(c.Chain))
	faulty := c.Fault != nil && c.Fault.Stage != 0
	if faulty {
		env.Fault = *c.Fault
	}
	ops := make([]cat.Op, len(c.Chain))
	for i, st := range c.Chain {
		op, err := cat.Build(st, i+1, env)
		if err != nil {
			add(0, "catalogue", err.Error())
			return
		}
		ops[i] = op
	}
	srcMode := mode
	if prefix != "" {
		srcMode = "ctl-unsafe"
	}
	if mode == "concurrent" {
		srcMode = "sync"
	}
	if mode == "ctl-sync1" {
		srcMode = "ctl-unsafe"
	}
	build := func(ctl *Ctl) ro.Observable[any] {
		ctl.Hot = c.Hot
		var o ro.Observable[any] = ctl.Observable(srcMode, c.Steps)
		for _, op := range ops {
			o = op(o)
		}
		return o
	}
	var reps []*replica
	switch mode {
	case "interleave":
		ctl := &Ctl{}
		o := build(ctl)
		reps = []*replica{{name: "A", o: o, ctl: ctl, ctlBase: 0, ctlStride: 2, share: 2}, {name: "B", o: o, ctl: ctl, ctlBase: 1, ctlStride: 2, share: 2}}
	case "multi-apply":
		ca, cb := &Ctl{}, &Ctl{}
		oa := build(ca)
		ob := build(cb)
		reps = []*replica{{name: "A", o: oa, ctl: ca, ctlStride: 1, share: 1}, {name: "B", o: ob, ctl: cb, ctlStride: 1, share: 1}}
	case "concurrent":
		// C12: SEVERAL goroutines subscribe to the same pipeline object at the same time; every subscription plays the whole script
		for _, st := range c.Steps[1:] {
			if st.Do != "push" {
				return // cases with an Unsubscribe or a second Subscribe are not run in this mode
			}
		}
		ctl := &Ctl{}
		o := build(ctl)
		for g := 0; g < 4; g++ {
			reps = append(reps, &replica{name: fmt.Sprint(g), o: o, ctl: ctl, ctlStride: 1, share: 4})
		}
	default:
		ctl := &Ctl{PanicOnSub: faulty && c.Fault.Stage == -1}
		reps = []*replica{{name: "", o: build(ctl), ctl: ctl, ctlStride: 1, share: 1}}
	}
	for _, r := range reps {
		if s, _ := r.ctl.counts(); s != 0 {
			add(0, "sub", "source subscribed at construction time")
		}
		r.firstVal = -1
		if faulty && c.Fault.Stage >= 98 {
			r.obsFault = c.Fault
		}
		r.checkGid = mode == "ctl-unsafe"
		if r.checkGid {
			r.me = gid()
		}
	}
	base := context.WithValue(context.Background(), rec.KeySub, true)
	guard := func(step int, f func()) {
		defer func() {
			if e := recover(); e != nil {
				add(step, "panic", fmt.Sprint(e))
			}
		}()
		f()
	}
	check := func(r *replica, step int, exp Exp, expLog []Notif, counters bool) {
		r.mu.Lock()
		delta := append([]got(nil), r.log[r.pos:]...)
		r.pos = len(r.log)
		r.mu.Unlock()
		for _, g := range delta {
			if r.terminated {
				add(step, "grammar", fmt.Sprintf("%s:%s delivered after a terminal notification", g.K, g.V))
			}
			if r.unsubbed {
				add(step, "after-unsub", fmt.Sprintf("%s:%s delivered after Unsubscribe returned", g.K, g.V))
			}
			if g.K != "N" {
				r.terminated = true
			}
			r.gotAll = append(r.gotAll, g.K+":"+g.V)
		}
		for _, e := range expLog {
			r.expAll = append(r.expAll, e.K+":"+cat.Canon(e.V))
		}
		before := len(*out)
		compareLog(step, expLog, delta, r.me, add)
		if r.firstVal < 0 {
			for _, m := range (*out)[before:] {
				if strings.HasSuffix(m.Class, "values") {
					r.firstVal = before
				}
			}
		}
		if r.sub != nil {
			if cl := r.sub.IsClosed(); cl != exp.Closed {
				add(step, "closed", fmt.Sprintf("IsClosed=%v expected %v", cl, exp.Closed))
			}
		}
		if !counters {
			return
		}
		s, t := r.ctl.counts()
		if s != exp.Sub {
			add(step, "sub", fmt.Sprintf("source subscribed %d times, expected %d", s, exp.Sub))
		}
		if t != exp.Torn {
			cls := "torn"
			if mode != "sync" && step < len(c.Steps) && c.Steps[step].Do == "push" && c.Steps[step].N.K == "N" {
				cls = "torn-early" // the pipeline was closed by an operator terminating on a value (downstream termination)
			}
			add(step, cls, fmt.Sprintf("source teardown ran %d times, expected %d (closed=%v)", t, exp.Torn, exp.Closed))
		}
	}
	subscribe := func(r *replica, step int) {
		r.terminated, r.unsubbed = false, false
		guard(step, func() { r.sub = r.o.SubscribeWithContext(base, r.observer()) })
		r.nsub++
	}
	cur := func(r *replica) *ctlSub { return r.ctl.nth(r.ctlBase + (r.nsub-1)*r.ctlStride) }

	if mode == "concurrent" {
		var all []Notif
		last := c.Steps[len(c.Steps)-1].Exp
		for _, st := range c.Steps {
			all = append(all, st.Exp.Log...)
		}
		for round := 0; round < 3; round++ {
			var wg sync.WaitGroup
			start := make(chan struct{})
			for _, r := range reps {
				r := r
				wg.Add(1)
				go func() {
					defer wg.Done()
					<-start
					subscribe(r, 0)
				}()
			}
			close(start)
			wg.Wait()
			for _, r := range reps {
				check(r, len(c.Steps)-1, last, all, false)
			}
		}
		s, t := reps[0].ctl.counts()
		if want := 12 * last.Sub; s != want {
			add(len(c.Steps)-1, "sub", fmt.Sprintf("source subscribed %d times by 12 subscriptions of the pipeline, expected %d", s, want))
		}
		if want := 12 * last.Torn; t != want {
			add(len(c.Steps)-1, "torn", fmt.Sprintf("source teardown ran %d times after 12 subscriptions of the pipeline, expected %d", t, want))
		}
	} else if mode == "sync" {
		// the whole script is emitted inside Subscribe; only the concatenated log and the final counters are compared
		r := reps[0]
		var all []Notif
		last := c.Steps[len(c.Steps)-1].Exp
		for _, st := range c.Steps {
			all = append(all, st.Exp.Log...)
		}
		subscribe(r, 0)
		for i, st := range c.Steps {
			if st.Do == "unsub" {
				guard(i, r.sub.Unsubscribe)
			}
		}
		check(r, len(c.Steps)-1, last, all, true)
	} else {
		skip := -1
		for i, st := range c.Steps {
			if i == skip {
				continue // this push was emitted inside the subscription of the previous step (ctl-sync1)
			}
			for _, r := range reps {
				switch st.Do {
				case "sub":
					if mode == "ctl-sync1" && i+1 < len(c.Steps) && c.Steps[i+1].Do == "push" {
						// the source emits its first notification SYNCHRONOUSLY, inside its own subscription, and stays open afterwards (a hot
						// source with a current value, a source with a synchronous prefix): sub + push are one step, observed after both
						nx := c.Steps[i+1]
						r.ctl.OnSub = func(cs *ctlSub) { emit(cs, nx.N) }
						subscribe(r, i)
						r.ctl.OnSub = nil
						skip = i + 1
						st = Step{Do: "sub", N: st.N, Exp: Exp{Log: append(append([]Notif(nil), st.Exp.Log...), nx.Exp.Log...), Closed: nx.Exp.Closed, Sub: nx.Exp.Sub, Torn: nx.Exp.Torn}}
						break
					}
					subscribe(r, i)
					if s, _ := r.ctl.counts(); s > 0 && !hasMarker(r.ctl.SubCtxMarkers, "sub") {
						add(i, "ctx-missing", fmt.Sprintf("source subscribed with context %v (marker sub missing)", r.ctl.SubCtxMarkers))
					}
				case "push":
					if cs := cur(r); cs != nil {
						guard(i, func() { emit(cs, st.N) })
					}
				case "unsub":
					guard(i, r.sub.Unsubscribe)
				}
				// with two subscriptions sharing one source the counters are only compared once both have taken the step
				check(r, i, st.Exp, st.Exp.Log, r.share == 1)
				if st.Do == "unsub" {
					r.unsubbed = true
				}
			}
			if reps[0].share == 2 {
				s, t := reps[0].ctl.counts()
				if s != 2*st.Exp.Sub {
					add(i, "sub", fmt.Sprintf("source subscribed %d times by two subscriptions, expected %d", s, 2*st.Exp.Sub))
				}
				if t != 2*st.Exp.Torn {
					add(i, "torn", fmt.Sprintf("source teardown ran %d times for two subscriptions, expected %d", t, 2*st.Exp.Torn))
				}
			}
		}
		for _, r := range reps {
			// right notifications at the wrong step = a backpressure (C08) problem, not a value (C04) problem
			if r.firstVal >= 0 && strings.Join(r.expAll, " ") == strings.Join(r.gotAll, " ") {
				for k := range *out {
					if k >= r.firstVal && (*out)[k].Class == prefix+"values" {
						(*out)[k].Class = prefix + "timing"
					}
				}
			}
		}
		if !faulty && prefix == "" {
			for i, want := range c.Cbn {
				if int(env.Cb[i+1]) != want {
					add(len(c.Steps)-1, "cbn", fmt.Sprintf("callback of stage %d invoked %d times, expected %d", i+1, env.Cb[i+1], want))
				}
			}
		}
	}
	// nothing may arrive later (hidden goroutines / queues)
	for i := 0; i < 3; i++ {
		runtime.Gosched()
	}
	for _, r := range reps {
		r.mu.Lock()
		late := len(r.log) - r.pos
		r.mu.Unlock()
		if late > 0 {
			add(len(c.Steps)-1, "late", fmt.Sprintf("%d notifications arrived after the step that caused them returned", late))
		}
		if r.sub != nil && !r.sub.IsClosed() {
			r.sub.Unsubscribe()
		}
	}
}

func hasMarker(ms []string, m string) bool {
	for _, x := range ms {
		if x == m {
			return true
		}
	}
	return false
}

func compareLog(step int, exp []Notif, act []got, me uint64, add func(int, string, string)) {
	render := func() string {
		var a, b []string
		for _, e := range exp {
			a = append(a, e.K+":"+cat.Canon(e.V))
		}
		for _, g := range act {
			b = append(b, g.K+":"+g.V)
		}
		return fmt.Sprintf("expected [%s] got [%s]", strings.Join(a, " "), strings.Join(b, " "))
	}
	same := len(exp) == len(act)
	if same {
		for i := range exp {
			if exp[i].K != act[i].K || cat.Canon(exp[i].V) != act[i].V {
				same = false
			}
		}
	}
	if !same {
		add(step, "values", render())
	}
	for i, g := range act {
		if g.Gid != me {
			add(step, "gid", fmt.Sprintf("callback %d ran on goroutine %d, the producer is goroutine %d", i, g.Gid, me))
		}
		if len(g.C) == 1 && g.C[0] == "nil" {
			add(step, "ctx-nil", fmt.Sprintf("callback %s:%s invoked with a nil context", g.K, g.V))
			continue
		}
		if same {
			want := append([]string(nil), exp[i].C...)
			sort.Strings(want)
			var missing, extra []string
			for _, m := range want {
				if !hasMarker(g.C, m) {
					missing = append(missing, m)
				}
			}
			for _, m := range g.C {
				if !hasMarker(want, m) {
					extra = append(extra, m)
				}
			}
			if len(missing) > 0 {
				add(step, "ctx-missing", fmt.Sprintf("callback %s:%s context %v lacks %v", g.K, g.V, g.C, missing))
			} else if len(extra) > 0 {
				add(step, "ctx-extra", fmt.Sprintf("callback %s:%s context %v has unexpected %v", g.K, g.V, g.C, extra))
			}
		}
	}
}
