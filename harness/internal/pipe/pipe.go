// Package pipe replays TLC-generated pipeline cases (Pipeline.tla, direction A) on the real operators and
// compares the observation after every step with the expected one.
package pipe

import (
	"bufio"
	"context"
	"encoding/json"
	"fmt"
	"os"
	"runtime"
	"sort"
	"strconv"
	"strings"
	"sync"

	"github.com/samber/ro"

	"verif/harness/internal/cat"
	"verif/harness/internal/rec"
)

type Notif struct {
	K string   `json:"k"`
	V any      `json:"v"`
	C []string `json:"c"`
}

type Exp struct {
	Log    []Notif `json:"log"`
	Closed bool    `json:"closed"`
	Sub    int     `json:"sub"`
	Torn   int     `json:"torn"`
}

type Step struct {
	Do  string `json:"do"`
	N   Notif  `json:"n"`
	Exp Exp    `json:"exp"`
}

type Case struct {
	Chain []cat.Stage `json:"chain"`
	Steps []Step      `json:"steps"`
	Cbn   []int       `json:"cbn"`
	Fault *cat.Fault  `json:"fault,omitempty"`
	Raw   string      `json:"-"`
}

type Mismatch struct {
	Case   int    `json:"case"`
	Chain  string `json:"chain"`
	Mode   string `json:"mode"`
	Step   int    `json:"step"`
	Class  string `json:"class"`
	Detail string `json:"detail"`
}

// ReadCases parses TLC output: every line that is a TLA+ string literal holding a JSON object is a case.
func ReadCases(path string, fn func(i int, c *Case)) (int, error) {
	f, err := os.Open(path)
	if err != nil {
		return 0, err
	}
	defer f.Close()
	sc := bufio.NewScanner(f)
	sc.Buffer(make([]byte, 1<<20), 1<<26)
	n := 0
	for sc.Scan() {
		line := sc.Text()
		if !strings.HasPrefix(line, "\"{") {
			continue
		}
		s, err := strconv.Unquote(line)
		if err != nil {
			return n, fmt.Errorf("unquote: %v: %.80s", err, line)
		}
		c := &Case{Raw: s}
		if err := json.Unmarshal([]byte(s), c); err != nil {
			return n, fmt.Errorf("case json: %v: %.200s", err, s)
		}
		fn(n, c)
		n++
	}
	return n, sc.Err()
}

func ChainName(ch []cat.Stage) string {
	parts := make([]string, len(ch))
	for i, s := range ch {
		parts[i] = fmt.Sprintf("%s(%d,%d)", s.G, s.P, s.Q)
	}
	return strings.Join(parts, "|")
}

// ---- controllable source ---------------------------------------------------------------------------

type Ctl struct {
	mu     sync.Mutex
	dest   ro.Observer[any]
	subCtx context.Context
	Subs   int
	Torn   int
	SubCtxMarkers []string
}

func (c *Ctl) Observable(mode string, script []Step) ro.Observable[any] {
	fn := func(ctx context.Context, dest ro.Observer[any]) ro.Teardown {
		c.mu.Lock()
		c.Subs++
		c.dest = dest
		c.subCtx = ctx
		c.SubCtxMarkers = cat.Markers(ctx)
		c.mu.Unlock()
		if mode == "sync" {
			items := 0
			for _, st := range script {
				if st.Do == "push" {
					emit(dest, ctx, st.N, &items)
				}
			}
		}
		return func() {
			c.mu.Lock()
			c.Torn++
			c.mu.Unlock()
		}
	}
	if mode == "ctl-safe" {
		return ro.NewObservableWithContext(fn)
	}
	return ro.NewUnsafeObservableWithContext(fn)
}

func emit(dest ro.Observer[any], subCtx context.Context, n Notif, items *int) {
	switch n.K {
	case "N":
		ctx := context.WithValue(subCtx, rec.KeyItem, *items)
		*items++
		dest.NextWithContext(ctx, toVal(n.V))
	case "E":
		dest.ErrorWithContext(context.WithValue(subCtx, rec.KeyItem, -1), cat.ErrSrc[int(n.V.(float64))])
	case "C":
		dest.CompleteWithContext(context.WithValue(subCtx, rec.KeyItem, -1))
	}
}

func toVal(v any) any {
	switch x := v.(type) {
	case float64:
		return int(x)
	case []any:
		out := make([]any, len(x))
		for i := range x {
			out[i] = toVal(x[i])
		}
		return out
	}
	return v
}

type got struct {
	K   string
	V   string
	C   []string
	Gid uint64
}

func gid() uint64 {
	var buf [64]byte
	n := runtime.Stack(buf[:], false)
	// "goroutine 123 ["
	s := string(buf[10:n])
	i := strings.IndexByte(s, ' ')
	id, _ := strconv.ParseUint(s[:i], 10, 64)
	return id
}

// Replay runs one case in one source mode.
func Replay(idx int, c *Case, mode string, out *[]Mismatch) {
	name := ChainName(c.Chain)
	add := func(step int, class, detail string) {
		*out = append(*out, Mismatch{Case: idx, Chain: name, Mode: mode, Step: step, Class: class, Detail: detail})
	}
	env := cat.NewEnv(len(c.Chain))
	if c.Fault != nil {
		env.Fault = *c.Fault
	}
	ctl := &Ctl{}
	var o ro.Observable[any] = ctl.Observable(mode, c.Steps)
	for i, st := range c.Chain {
		op, err := cat.Build(st, i+1, env)
		if err != nil {
			add(0, "catalogue", err.Error())
			return
		}
		o = op(o)
	}
	if ctl.Subs != 0 {
		add(0, "sub", "source subscribed at construction time")
	}
	var mu sync.Mutex
	var log []got
	checkGid := mode == "ctl-unsafe"
	me := uint64(0)
	if checkGid {
		me = gid()
	}
	recv := func(k string, v string, ctx context.Context) {
		g := got{K: k, V: v, C: cat.Markers(ctx), Gid: me}
		if checkGid {
			g.Gid = gid()
		}
		mu.Lock()
		log = append(log, g)
		mu.Unlock()
	}
	obs := ro.NewObserverWithContext(
		func(ctx context.Context, v any) { recv("N", cat.Canon(v), ctx) },
		func(ctx context.Context, err error) { recv("E", fmt.Sprint(cat.CauseOf(err)), ctx) },
		func(ctx context.Context) { recv("C", "0", ctx) },
	)
	base := context.WithValue(context.Background(), rec.KeySub, true)
	var sub ro.Subscription
	pos := 0
	items := 0
	guard := func(step int, f func()) {
		defer func() {
			if e := recover(); e != nil {
				add(step, "panic", fmt.Sprint(e))
			}
		}()
		f()
	}
	terminated := false
	unsubbed := false
	var firstValues = -1
	var expAll, gotAll []string
	check := func(step int, exp Exp, expLog []Notif) {
		mu.Lock()
		delta := append([]got(nil), log[pos:]...)
		pos = len(log)
		mu.Unlock()
		for _, g := range delta {
			if terminated {
				add(step, "grammar", fmt.Sprintf("%s:%s delivered after a terminal notification", g.K, g.V))
			}
			if unsubbed {
				add(step, "after-unsub", fmt.Sprintf("%s:%s delivered after Unsubscribe returned", g.K, g.V))
			}
			if g.K != "N" {
				terminated = true
			}
			gotAll = append(gotAll, g.K+":"+g.V)
		}
		for _, e := range expLog {
			expAll = append(expAll, e.K+":"+cat.Canon(e.V))
		}
		before := len(*out)
		compareLog(step, expLog, delta, me, add)
		if firstValues < 0 {
			for _, m := range (*out)[before:] {
				if m.Class == "values" {
					firstValues = before
				}
			}
		}
		if sub != nil {
			if cl := sub.IsClosed(); cl != exp.Closed {
				add(step, "closed", fmt.Sprintf("IsClosed=%v expected %v", cl, exp.Closed))
			}
		}
		ctl.mu.Lock()
		s, t := ctl.Subs, ctl.Torn
		ctl.mu.Unlock()
		if s != exp.Sub {
			add(step, "sub", fmt.Sprintf("source subscribed %d times, expected %d", s, exp.Sub))
		}
		if t != exp.Torn {
			cls := "torn"
			if mode != "sync" && step < len(c.Steps) && c.Steps[step].Do == "push" && c.Steps[step].N.K == "N" {
				cls = "torn-early" // the pipeline was closed by an operator terminating on a value (downstream termination)
			}
			add(step, cls, fmt.Sprintf("source teardown ran %d times, expected %d (closed=%v)", t, exp.Torn, exp.Closed))
		}
	}
	if mode == "sync" {
		// the whole script is emitted inside Subscribe; only the concatenated log and the final counters are compared
		var all []Notif
		last := c.Steps[len(c.Steps)-1].Exp
		for _, st := range c.Steps {
			all = append(all, st.Exp.Log...)
		}
		guard(0, func() { sub = o.SubscribeWithContext(base, obs) })
		for i, st := range c.Steps {
			if st.Do == "unsub" {
				guard(i, sub.Unsubscribe)
			}
		}
		check(len(c.Steps)-1, last, all)
	} else {
		for i, st := range c.Steps {
			switch st.Do {
			case "sub":
				guard(i, func() { sub = o.SubscribeWithContext(base, obs) })
				if ctl.Subs > 0 && !hasMarker(ctl.SubCtxMarkers, "sub") {
					add(i, "ctx-missing", fmt.Sprintf("source subscribed with context %v (marker sub missing)", ctl.SubCtxMarkers))
				}
			case "push":
				if ctl.dest != nil {
					guard(i, func() { emit(ctl.dest, ctl.subCtx, st.N, &items) })
				}
			case "unsub":
				guard(i, sub.Unsubscribe)
			}
			check(i, st.Exp, st.Exp.Log)
			if st.Do == "unsub" {
				unsubbed = true
			}
		}
		// right notifications at the wrong step = a backpressure (C08) problem, not a value (C04) problem
		if firstValues >= 0 && strings.Join(expAll, " ") == strings.Join(gotAll, " ") {
			for k := range *out {
				if k >= firstValues && (*out)[k].Class == "values" && (*out)[k].Case == idx && (*out)[k].Mode == mode {
					(*out)[k].Class = "timing"
				}
			}
		}
		if c.Fault == nil {
			for i, want := range c.Cbn {
				if int(env.Cb[i+1]) != want {
					add(len(c.Steps)-1, "cbn", fmt.Sprintf("callback of stage %d invoked %d times, expected %d", i+1, env.Cb[i+1], want))
				}
			}
		}
	}
	// nothing may arrive later (hidden goroutines / queues)
	for i := 0; i < 3; i++ {
		runtime.Gosched()
	}
	mu.Lock()
	late := len(log) - pos
	mu.Unlock()
	if late > 0 {
		add(len(c.Steps)-1, "late", fmt.Sprintf("%d notifications arrived after the step that caused them returned", late))
	}
	if sub != nil && !sub.IsClosed() {
		sub.Unsubscribe()
	}
}

func hasMarker(ms []string, m string) bool {
	for _, x := range ms {
		if x == m {
			return true
		}
	}
	return false
}

func compareLog(step int, exp []Notif, act []got, me uint64, add func(int, string, string)) {
	render := func() string {
		var a, b []string
		for _, e := range exp {
			a = append(a, e.K+":"+cat.Canon(e.V))
		}
		for _, g := range act {
			b = append(b, g.K+":"+g.V)
		}
		return fmt.Sprintf("expected [%s] got [%s]", strings.Join(a, " "), strings.Join(b, " "))
	}
	same := len(exp) == len(act)
	if same {
		for i := range exp {
			if exp[i].K != act[i].K || cat.Canon(exp[i].V) != act[i].V {
				same = false
			}
		}
	}
	if !same {
		add(step, "values", render())
	}
	for i, g := range act {
		if g.Gid != me {
			add(step, "gid", fmt.Sprintf("callback %d ran on goroutine %d, the producer is goroutine %d", i, g.Gid, me))
		}
		if len(g.C) == 1 && g.C[0] == "nil" {
			add(step, "ctx-nil", fmt.Sprintf("callback %s:%s invoked with a nil context", g.K, g.V))
			continue
		}
		if same {
			want := append([]string(nil), exp[i].C...)
			sort.Strings(want)
			var missing, extra []string
			for _, m := range want {
				if !hasMarker(g.C, m) {
					missing = append(missing, m)
				}
			}
			for _, m := range g.C {
				if !hasMarker(want, m) {
					extra = append(extra, m)
				}
			}
			if len(missing) > 0 {
				add(step, "ctx-missing", fmt.Sprintf("callback %s:%s context %v lacks %v", g.K, g.V, g.C, missing))
			} else if len(extra) > 0 {
				add(step, "ctx-extra", fmt.Sprintf("callback %s:%s context %v has unexpected %v", g.K, g.V, g.C, extra))
			}
		}
	}
}
