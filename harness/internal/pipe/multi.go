package pipe

import (
	"bufio"
	"context"
	"encoding/json"
	"fmt"
	"os"
	"runtime"
	"sort"
	"strconv"
	"strings"
	"time"

	"github.com/samber/lo"
	"github.com/samber/ro"

	"verif/harness/internal/cat"
	"verif/harness/internal/rec"
)

// Multi-source cases (Multi.tla, C05).

type MInst struct {
	Op string `json:"op"`
	G  string `json:"g"`
	K  int    `json:"k"`
}

type MExp struct {
	Log    []Notif `json:"log"`
	Closed bool    `json:"closed"`
	Subs   []int   `json:"subs"`
	Torn   []int   `json:"torn"`
	Blk    int     `json:"blk"` // HO.tla: 1 = the outer notification of this step has not returned yet
}

type MStep struct {
	Do  string `json:"do"`
	Src int    `json:"src"`
	N   Notif  `json:"n"`
	Exp MExp   `json:"exp"`
}

type MCase struct {
	M     MInst   `json:"m"`
	Steps []MStep `json:"steps"`
	Panic int     `json:"panic"` // source whose teardown panics (0 = none)
	Tail  string  `json:"tail"`  // downstream stage placed after the operator: "" / "none", "Take1", "Throw1"
	ISync struct {
		J int    `json:"j"`
		K string `json:"k"`
	} `json:"isync"` // HO.tla: inner source J ends (K) synchronously inside its subscription (J = 0: none)
	SyncK string `json:"synck"` // "C" / "E": that source ends; "U": the downstream subscriber unsubscribes while that source is being subscribed
	Sync  int    `json:"sync"`  // source that ends synchronously inside its subscription (0 = none)
	Raw   string `json:"-"`
}

func ReadMCases(path string, fn func(i int, c *MCase)) (int, error) {
	f, err := os.Open(path)
	if err != nil {
		return 0, err
	}
	defer f.Close()
	sc := bufio.NewScanner(f)
	sc.Buffer(make([]byte, 1<<20), 1<<26)
	n := 0
	for sc.Scan() {
		line := sc.Text()
		if !strings.HasPrefix(line, "\"{") {
			continue
		}
		s, err := strconv.Unquote(line)
		if err != nil {
			return n, err
		}
		c := &MCase{Raw: s}
		if err := json.Unmarshal([]byte(s), c); err != nil {
			return n, fmt.Errorf("case json: %v: %.200s", err, s)
		}
		fn(n, c)
		n++
	}
	return n, sc.Err()
}

func tupleAny[T any](o ro.Observable[T]) ro.Observable[any] {
	return ro.Map(func(x T) any { return any(x) })(o)
}

// BuildMulti builds the real multi-source operator over the given sources.
func BuildMulti(g string, s []ro.Observable[any]) (ro.Observable[any], error) {
	switch g {
	case "Merge":
		return ro.Merge(s...), nil
	case "MergeWith":
		return ro.MergeWith(s[1:]...)(s[0]), nil
	case "MergeWith1":
		return ro.MergeWith1(s[1])(s[0]), nil
	case "MergeWith2":
		return ro.MergeWith2(s[1], s[2])(s[0]), nil
	case "MergeAll":
		return ro.MergeAll[any]()(ro.Just(s...)), nil
	case "CombineLatest2":
		return tupleAny(ro.CombineLatest2(s[0], s[1])), nil
	case "CombineLatest3":
		return tupleAny(ro.CombineLatest3(s[0], s[1], s[2])), nil
	case "CombineLatestWith":
		return tupleAny(ro.CombineLatestWith[any](s[1])(s[0])), nil
	case "CombineLatestWith1":
		return tupleAny(ro.CombineLatestWith1[any](s[1])(s[0])), nil
	case "CombineLatestAny":
		return tupleAny(ro.CombineLatestAny(s...)), nil
	case "Zip":
		return tupleAny(ro.Zip(s...)), nil
	case "Zip2":
		return tupleAny(ro.Zip2(s[0], s[1])), nil
	case "Zip3":
		return tupleAny(ro.Zip3(s[0], s[1], s[2])), nil
	case "MergeWith3":
		return ro.MergeWith3(s[1], s[2], s[3])(s[0]), nil
	case "MergeWith4":
		return ro.MergeWith4(s[1], s[2], s[3], s[4])(s[0]), nil
	case "MergeWith5":
		return ro.MergeWith5(s[1], s[2], s[3], s[4], s[5])(s[0]), nil
	case "CombineLatest4":
		return tupleAny(ro.CombineLatest4(s[0], s[1], s[2], s[3])), nil
	case "CombineLatest5":
		return tupleAny(ro.CombineLatest5(s[0], s[1], s[2], s[3], s[4])), nil
	case "CombineLatestWith2":
		return tupleAny(ro.CombineLatestWith2[any](s[1], s[2])(s[0])), nil
	case "CombineLatestWith3":
		return tupleAny(ro.CombineLatestWith3[any](s[1], s[2], s[3])(s[0])), nil
	case "CombineLatestWith4":
		return tupleAny(ro.CombineLatestWith4[any](s[1], s[2], s[3], s[4])(s[0])), nil
	case "Zip4":
		return tupleAny(ro.Zip4(s[0], s[1], s[2], s[3])), nil
	case "Zip5":
		return tupleAny(ro.Zip5(s[0], s[1], s[2], s[3], s[4])), nil
	case "Zip6":
		return tupleAny(ro.Zip6(s[0], s[1], s[2], s[3], s[4], s[5])), nil
	case "ZipWith3":
		return tupleAny(ro.ZipWith3[any](s[1], s[2], s[3])(s[0])), nil
	case "ZipWith4":
		return tupleAny(ro.ZipWith4[any](s[1], s[2], s[3], s[4])(s[0])), nil
	case "ZipWith5":
		return tupleAny(ro.ZipWith5[any](s[1], s[2], s[3], s[4], s[5])(s[0])), nil
	case "ZipWith2":
		return tupleAny(ro.ZipWith2[any](s[1], s[2])(s[0])), nil
	case "ZipWith":
		return tupleAny(ro.ZipWith[any](s[1])(s[0])), nil
	case "ZipWith1":
		return tupleAny(ro.ZipWith1[any](s[1])(s[0])), nil
	case "Race":
		return ro.Race(s...), nil
	case "Amb":
		return ro.Amb(s...), nil
	case "RaceWith":
		return ro.RaceWith(s[1:]...)(s[0]), nil
	case "TakeUntil":
		return ro.TakeUntil[any](s[1])(s[0]), nil
	case "SkipUntil":
		return ro.SkipUntil[any](s[1])(s[0]), nil
	case "BufferWhen":
		return tupleAny(ro.BufferWhen[any](s[1])(s[0])), nil
	case "SampleWhen":
		return ro.SampleWhen[any](s[1])(s[0]), nil
	case "ThrottleWhen":
		return ro.ThrottleWhen[any](s[1])(s[0]), nil
	case "GroupBy":
		return tupleAny(ro.GroupBy(func(v any) int { return v.(int) % 2 })(s[0])), nil
	case "GroupByWithContext":
		return tupleAny(ro.GroupByWithContext(func(ctx context.Context, v any) (context.Context, int) {
			return context.WithValue(ctx, rec.KeyCb, true), v.(int) % 2
		})(s[0])), nil
	case "GroupByIWithContext":
		return tupleAny(ro.GroupByIWithContext(func(ctx context.Context, v any, _ int64) (context.Context, int) {
			return context.WithValue(ctx, rec.KeyCb, true), v.(int) % 2
		})(s[0])), nil
	case "GroupByI":
		return tupleAny(ro.GroupByI(func(v any, _ int64) int { return v.(int) % 2 })(s[0])), nil
	case "WindowWhen":
		return tupleAny(ro.WindowWhen[any](s[1])(s[0])), nil
	case "SequenceEqual":
		// MultiDef!SeqKeyEq: values are compared by their digit; the second value of source 2 never matches
		a := ro.Map(func(v any) int { return asIntM(v) % 10 })(s[0])
		b := ro.Map(func(v any) int {
			if j := asIntM(v) % 10; j != 1 {
				return j
			}
			return 9
		})(s[1])
		return ro.Map(func(eq bool) any {
			if eq {
				return 1
			}
			return 0
		})(ro.SequenceEqual(b)(a)), nil
	}
	return nil, fmt.Errorf("multi catalogue: no constructor for %q", g)
}

// BuildMultiOp returns the OPERATOR VALUE of the operator forms (the function that is applied to the first source), built once
// from the remaining sources; ok = false for creation forms.
func BuildMultiOp(g string, rest []ro.Observable[any]) (func(ro.Observable[any]) ro.Observable[any], bool) {
	wrap := func(f func(ro.Observable[any]) ro.Observable[any]) (func(ro.Observable[any]) ro.Observable[any], bool) {
		return f, true
	}
	switch g {
	case "MergeWith":
		return wrap(ro.MergeWith(rest...))
	case "MergeWith1":
		return wrap(ro.MergeWith1(rest[0]))
	case "MergeWith2":
		return wrap(ro.MergeWith2(rest[0], rest[1]))
	case "RaceWith":
		return wrap(ro.RaceWith(rest...))
	case "TakeUntil":
		return wrap(ro.TakeUntil[any](rest[0]))
	case "SkipUntil":
		return wrap(ro.SkipUntil[any](rest[0]))
	case "SampleWhen":
		return wrap(ro.SampleWhen[any](rest[0]))
	case "ThrottleWhen":
		return wrap(ro.ThrottleWhen[any](rest[0]))
	case "CombineLatestWith":
		op := ro.CombineLatestWith[any](rest[0])
		return wrap(func(a ro.Observable[any]) ro.Observable[any] { return tupleAny(op(a)) })
	case "CombineLatestWith1":
		op := ro.CombineLatestWith1[any](rest[0])
		return wrap(func(a ro.Observable[any]) ro.Observable[any] { return tupleAny(op(a)) })
	case "ZipWith":
		op := ro.ZipWith[any](rest[0])
		return wrap(func(a ro.Observable[any]) ro.Observable[any] { return tupleAny(op(a)) })
	case "ZipWith1":
		op := ro.ZipWith1[any](rest[0])
		return wrap(func(a ro.Observable[any]) ro.Observable[any] { return tupleAny(op(a)) })
	case "BufferWhen":
		op := ro.BufferWhen[any](rest[0])
		return wrap(func(a ro.Observable[any]) ro.Observable[any] { return tupleAny(op(a)) })
	case "WindowWhen":
		op := ro.WindowWhen[any](rest[0])
		return wrap(func(a ro.Observable[any]) ro.Observable[any] { return tupleAny(op(a)) })
	}
	return nil, false
}

// withTail places an early-terminating downstream stage after the operator (MultiDef!TailCut).
func withTail(o ro.Observable[any], tail string) ro.Observable[any] {
	switch tail {
	case "Take1":
		return ro.Take[any](1)(o)
	case "Throw1":
		return ro.MapErr(func(v any) (any, error) { return nil, cat.ErrCb })(o)
	}
	return o
}

func init() {
	cat.ExtraCanon = func(v any) (string, bool) {
		switch x := v.(type) {
		case lo.Tuple3[any, any, any]:
			return "[" + cat.Canon(x.A) + "," + cat.Canon(x.B) + "," + cat.Canon(x.C) + "]", true
		case lo.Tuple4[any, any, any, any]:
			return "[" + cat.Canon(x.A) + "," + cat.Canon(x.B) + "," + cat.Canon(x.C) + "," + cat.Canon(x.D) + "]", true
		case lo.Tuple5[any, any, any, any, any]:
			return "[" + cat.Canon(x.A) + "," + cat.Canon(x.B) + "," + cat.Canon(x.C) + "," + cat.Canon(x.D) + "," + cat.Canon(x.E) + "]", true
		case lo.Tuple6[any, any, any, any, any, any]:
			return "[" + cat.Canon(x.A) + "," + cat.Canon(x.B) + "," + cat.Canon(x.C) + "," + cat.Canon(x.D) + "," + cat.Canon(x.E) + "," + cat.Canon(x.F) + "]", true
		}
		return "", false
	}
}

func ReplayMulti(idx int, c *MCase, mode string, out *[]Mismatch) {
	done := make(chan struct{})
	var res []Mismatch
	go func() {
		defer close(done)
		replayMulti(idx, c, mode, &res)
	}()
	select {
	case <-done:
		*out = append(*out, res...)
	case <-time.After(20 * time.Second):
		*out = append(*out, Mismatch{Case: idx, Chain: c.M.G, Mode: mode, Step: -1, Class: "hang", Detail: "a call into the library did not return within 20s"})
	}
}

func replayMulti(idx int, c *MCase, mode string, out *[]Mismatch) {
	if isHO(c.M.Op) {
		replayHO(idx, c, mode, out)
		return
	}
	name := fmt.Sprintf("%s/%d", c.M.G, c.M.K)
	add0 := func(step int, class, detail string) {
		if mode == "multi-apply" {
			class = "reuse-" + class
		}
		*out = append(*out, Mismatch{Case: idx, Chain: name, Mode: mode, Step: step, Class: class, Detail: detail})
	}
	add := func(step int, class, detail string) {
		if c.Panic > 0 && !(class == "torn" && step == len(c.Steps)-1 && c.Steps[step].Exp.Closed) && class != "hang" {
			// a panicking teardown may legitimately surface as an Error when the OPERATOR disposes a source (e.g. Race releasing the
			// losers); with such a source only the C03 clause is judged: at the end every teardown has run exactly once
			return
		}
		add0(step, class, detail)
	}
	var dest ro.Subscriber[any] // the downstream subscriber (it can be cut from inside the subscription of a source)
	ctls := make([]*Ctl, c.M.K)
	srcs := make([]ro.Observable[any], c.M.K)
	for i := range ctls {
		ctls[i] = &Ctl{PanicOnTeardown: c.Panic == i+1}
		srcs[i] = ctls[i].Observable(lo.Ternary(mode == "multi-apply", "ctl-unsafe", mode), nil)
	}
	if c.Sync > 0 {
		// this source ends synchronously, inside its own subscription (the first step carries the terminal)
		k, n := c.Sync, c.Steps[0].N
		if c.SyncK == "U" {
			ctls[k-1].OnSub = func(cs *ctlSub) { dest.Unsubscribe() }
		} else if c.SyncK == "V" {
			// while source k is being subscribed the first source emits its first value
			ctls[k-1].OnSub = func(*ctlSub) {
				if first := ctls[0].nth(0); first != nil {
					emitMulti(first, 1, 0, n)
				}
			}
		} else {
			ctls[k-1].OnSub = func(cs *ctlSub) { emitMulti(cs, k, 0, n) }
		}
	}
	var o ro.Observable[any]
	var err error
	if mode == "multi-apply" {
		// C12: ONE operator value applied to the real first source AND to a decoy source; the pipeline over the real source must not be
		// influenced by the later application
		// the other sources are handed over as a slice with SPARE CAPACITY (rest...): an operator that inserts in place would write into the caller's array
		rest := append(make([]ro.Observable[any], 0, len(srcs)+4), srcs[1:]...)
		opv, ok := BuildMultiOp(c.M.G, rest)
		if !ok {
			return
		}
		decoy := &Ctl{}
		o = opv(srcs[0])
		_ = opv(decoy.Observable("ctl-unsafe", nil))
		defer func() {
			if s, _ := decoy.counts(); s != 0 {
				add(len(c.Steps)-1, "sub", "the decoy source of another application of the same operator value was subscribed")
			}
		}()
	} else {
		o, err = BuildMulti(c.M.G, srcs)
	}
	if err != nil {
		add(0, "catalogue", err.Error())
		return
	}
	o = withTail(o, c.Tail)
	for i := range ctls {
		if s, _ := ctls[i].counts(); s != 0 {
			add(0, "sub", fmt.Sprintf("source %d subscribed at construction time", i+1))
		}
	}
	r := &replica{firstVal: -1}
	r.checkGid = true
	r.leaveGroups = c.M.Op == "GroupByLeave"
	if c.M.Op == "GroupByCut" {
		r.cutOnGroup = 2
		r.cutFn = func() { dest.Unsubscribe() }
	}
	r.me = gid()
	base := context.WithValue(context.Background(), rec.KeySub, true)
	guard := func(step int, f func()) {
		defer func() {
			if e := recover(); e != nil && c.Panic == 0 {
				// with a panicking teardown the joined panic legitimately surfaces in the disposing call; what matters is that every other teardown ran
				add(step, "panic", fmt.Sprint(e))
			}
		}()
		f()
	}
	sent := make([]int, c.M.K)
	if c.SyncK == "V" {
		sent[0] = 1 // the first value of source 1 was emitted during the subscription phase
	}
	for i, st := range c.Steps {
		switch st.Do {
		case "sub":
			dest = ro.NewSubscriber(r.observer())
			guard(i, func() { r.sub = o.SubscribeWithContext(base, dest) })
		case "push":
			k := st.Src - 1
			if cs := ctls[k].nth(0); cs != nil {
				guard(i, func() { emitMulti(cs, st.Src, sent[k], st.N) })
			}
			sent[k]++
		case "unsub":
			if r.sub != nil { // nil: the Subscribe call itself panicked (reported by the guard / judged by the teardown counters below)
				guard(i, r.sub.Unsubscribe)
			}
		}
		r.mu.Lock()
		delta := append([]got(nil), r.log[r.pos:]...)
		r.pos = len(r.log)
		r.mu.Unlock()
		for _, g := range delta {
			if r.terminated && (g.K == "N" || g.K == "E" || g.K == "C") {
				add(i, "grammar", fmt.Sprintf("%s:%s delivered after a terminal notification", g.K, g.V))
			}
			if r.unsubbed {
				add(i, "after-unsub", fmt.Sprintf("%s:%s delivered after Unsubscribe returned", g.K, g.V))
			}
			if g.K == "E" || g.K == "C" {
				r.terminated = true
			}
		}
		sortInnerTerminals(delta)
		compareLog(i, st.Exp.Log, delta, r.me, add)
		if r.sub != nil {
			if cl := r.sub.IsClosed(); cl != st.Exp.Closed {
				add(i, "closed", fmt.Sprintf("IsClosed=%v expected %v", cl, st.Exp.Closed))
			}
		}
		for k := range ctls {
			s, t := ctls[k].counts()
			if c.Sync > 0 && (k != c.Sync-1 || c.SyncK == "V") && k != 0 && s == 0 && t == 0 && st.Exp.Torn[k] == 1 {
				// a source the operator no longer needed after the synchronous end of another one was never subscribed at all: nothing to release
				continue
			}
			if s != st.Exp.Subs[k] {
				add(i, "sub", fmt.Sprintf("source %d subscribed %d times, expected %d", k+1, s, st.Exp.Subs[k]))
			}
			if t != st.Exp.Torn[k] {
				add(i, "torn", fmt.Sprintf("source %d teardown ran %d times, expected %d (output closed=%v)", k+1, t, st.Exp.Torn[k], st.Exp.Closed))
			}
		}
		if st.Do == "unsub" || (c.SyncK == "U" && i == 0) {
			r.unsubbed = true
		}
	}
	for i := 0; i < 3; i++ {
		runtime.Gosched()
	}
	r.mu.Lock()
	late := len(r.log) - r.pos
	r.mu.Unlock()
	if late > 0 {
		add(len(c.Steps)-1, "late", fmt.Sprintf("%d notifications arrived after the step that caused them returned", late))
	}
	if r.sub != nil && !r.sub.IsClosed() {
		func() {
			defer func() { _ = recover() }() // a panicking teardown re-raises here
			r.sub.Unsubscribe()
		}()
	}
}

// sortInnerTerminals puts every run of consecutive inner terminals (IC / IE of several groups: the code notifies them in map order)
// into ascending group order, the order the model prints.
func sortInnerTerminals(d []got) {
	for i := 0; i < len(d); {
		j := i
		for j < len(d) && (d[j].K == "IC" || d[j].K == "IE") {
			j++
		}
		if j-i > 1 {
			sort.SliceStable(d[i:j], func(a, b int) bool { return d[i+a].V < d[i+b].V })
		}
		if j == i {
			j++
		}
		i = j
	}
}

// emitMulti: source s (1-based) emits; item marker 10*s+j, terminal marker -s.
func emitMulti(cs *ctlSub, s, j int, n Notif) {
	switch n.K {
	case "N":
		cs.dest.NextWithContext(context.WithValue(cs.subCtx, rec.KeyItem, 10*s+j), toVal(n.V))
	case "E":
		cs.dest.ErrorWithContext(context.WithValue(cs.subCtx, rec.KeyItem, -s), cat.ErrSrc[int(n.V.(float64))])
	case "C":
		cs.dest.CompleteWithContext(context.WithValue(cs.subCtx, rec.KeyItem, -s))
	}
}

func asIntM(v any) int {
	switch x := v.(type) {
	case int:
		return x
	case int64:
		return int(x)
	case float64:
		return int(x)
	}
	panic(fmt.Sprintf("verif: not an integer: %T", v))
}
