package pipe

import (
	"bufio"
	"encoding/json"
	"fmt"
	"os"
	"strconv"
	"strings"
	"time"

	"github.com/samber/ro"
)

// PipeForms cases (PipeForms.tla): Pipe / PipeOp / PipeN / PipeOpN over n non-commuting operators.

type PFCase struct {
	Form   string `json:"form"`
	N      int    `json:"n"`
	Inputs []int  `json:"inputs"`
	Exp    []int  `json:"exp"`
	Raw    string `json:"-"`
}

func ReadPFCases(path string, fn func(i int, c *PFCase)) (int, error) {
	f, err := os.Open(path)
	if err != nil {
		return 0, err
	}
	defer f.Close()
	sc := bufio.NewScanner(f)
	sc.Buffer(make([]byte, 1<<20), 1<<26)
	n := 0
	for sc.Scan() {
		line := sc.Text()
		if !strings.HasPrefix(line, "\"{") {
			continue
		}
		s, err := strconv.Unquote(line)
		if err != nil {
			return n, err
		}
		c := &PFCase{Raw: s}
		if err := json.Unmarshal([]byte(s), c); err != nil {
			return n, fmt.Errorf("case json: %v: %.200s", err, s)
		}
		fn(n, c)
		n++
	}
	return n, sc.Err()
}

func ReplayPipeForm(idx int, c *PFCase, out *[]Mismatch) {
	done := make(chan struct{})
	var res []Mismatch
	go func() {
		defer close(done)
		replayPipeForm(idx, c, &res)
	}()
	select {
	case <-done:
		*out = append(*out, res...)
	case <-time.After(10 * time.Second):
		*out = append(*out, Mismatch{Case: idx, Chain: fmt.Sprintf("%s/%d", c.Form, c.N), Mode: "sync", Step: -1, Class: "hang", Detail: "a call into the library did not return within 10s"})
	}
}

func replayPipeForm(idx int, c *PFCase, out *[]Mismatch) {
	add := func(class, detail string) {
		*out = append(*out, Mismatch{Case: idx, Chain: fmt.Sprintf("%s/%d", c.Form, c.N), Mode: "sync", Step: 0, Class: class, Detail: detail})
	}
	defer func() {
		if e := recover(); e != nil {
			add("panic", fmt.Sprint(e))
		}
	}()
	ops := make([]intOp, c.N)
	anyOps := make([]any, c.N)
	for i := range ops {
		k := i + 1
		ops[i] = ro.Map(func(v int) int { return 2*v + k }) // operator k: they do not commute
		anyOps[i] = ops[i]
	}
	src := ro.FromSlice(c.Inputs)
	// the reflective forms are given a chain whose element TYPE changes on the way (int -> string -> int -> int ...): operator k still maps the
	// number v to 2*v+k, but every third operator hands it on as a string and the next one reads it back
	hetero := make([]any, c.N)
	for i := range hetero {
		k := i + 1
		switch {
		case k%3 == 2:
			hetero[i] = ro.Map(func(v int) string { return strconv.Itoa(2*v + k) })
		case k%3 == 0:
			hetero[i] = ro.Map(func(s string) int { v, _ := strconv.Atoi(s); return 2*v + k })
		default:
			hetero[i] = ops[i]
		}
	}
	endsInString := c.N%3 == 2
	backToInt := ro.Map(func(s string) int { v, _ := strconv.Atoi(s); return v })
	var o ro.Observable[int]
	switch c.Form {
	case "PipeN":
		o = pipeN(src, ops)
	case "PipeOpN":
		o = pipeOpN(ops)(src)
	case "Pipe":
		if endsInString {
			o = backToInt(ro.Pipe[int, string](src, hetero...))
		} else {
			o = ro.Pipe[int, int](src, hetero...)
		}
	case "PipeOp":
		if endsInString {
			o = backToInt(ro.PipeOp[int, string](hetero...)(src))
		} else {
			o = ro.PipeOp[int, int](hetero...)(src)
		}
	case "PipeHomogeneous":
		o = ro.Pipe[int, int](src, anyOps...)
	default:
		add("catalogue", "unknown form "+c.Form)
		return
	}
	got, err := ro.Collect(o)
	if err != nil {
		add("values", fmt.Sprintf("unexpected error %v", err))
		return
	}
	if fmt.Sprint(got) != fmt.Sprint(c.Exp) {
		add("values", fmt.Sprintf("got %v, the composition of operators 1..%d gives %v", got, c.N, c.Exp))
	}
	// the same pipeline value again (C12)
	if again, _ := ro.Collect(o); fmt.Sprint(again) != fmt.Sprint(c.Exp) {
		add("values", fmt.Sprintf("second subscription: got %v, expected %v", again, c.Exp))
	}
}
