package pipe

import (
	"bufio"
	"context"
	"encoding/json"
	"errors"
	"fmt"
	"os"
	"strconv"
	"strings"
	"sync"
	"time"

	"github.com/samber/ro"

	"verif/harness/internal/cat"
	"verif/harness/internal/rec"
)

// Subject cases (SubjectSeq.tla, C10 sequential clause).

type SCfg struct {
	Kind string `json:"kind"`
	Buf  int    `json:"buf"`
}

type SGet struct {
	Has       bool `json:"has"`
	Count     int  `json:"count"`
	Closed    bool `json:"closed"`
	Thrown    bool `json:"thrown"`
	Completed bool `json:"completed"`
}

type SOp struct {
	Op    string    `json:"op"`
	Arg   int       `json:"arg"`
	Deliv [][]Notif `json:"deliv"`
	Get   SGet      `json:"get"`
}

type SCase struct {
	Cfg SCfg   `json:"cfg"`
	Ops []SOp  `json:"ops"`
	Raw string `json:"-"`
}

func ReadSCases(path string, fn func(i int, c *SCase)) (int, error) {
	f, err := os.Open(path)
	if err != nil {
		return 0, err
	}
	defer f.Close()
	sc := bufio.NewScanner(f)
	sc.Buffer(make([]byte, 1<<20), 1<<26)
	n := 0
	for sc.Scan() {
		line := sc.Text()
		if !strings.HasPrefix(line, "\"{") {
			continue
		}
		s, err := strconv.Unquote(line)
		if err != nil {
			return n, err
		}
		c := &SCase{Raw: s}
		if err := json.Unmarshal([]byte(s), c); err != nil {
			return n, fmt.Errorf("case json: %v: %.200s", err, s)
		}
		fn(n, c)
		n++
	}
	return n, sc.Err()
}

func NewSubject(cfg SCfg) ro.Subject[any] {
	switch cfg.Kind {
	case "publish":
		return ro.NewPublishSubject[any]()
	case "behavior":
		return ro.NewBehaviorSubject[any](any(7))
	case "replay":
		return ro.NewReplaySubject[any](cfg.Buf)
	case "async":
		return ro.NewAsyncSubject[any]()
	case "unicast":
		return ro.NewUnicastSubject[any](cfg.Buf)
	}
	panic("unknown subject kind " + cfg.Kind)
}

func subjCause(err error) int {
	if errors.Is(err, ro.ErrUnicastSubjectConcurrent) {
		return 106
	}
	return cat.CauseOf(err)
}

func ReplaySubject(idx int, c *SCase, out *[]Mismatch) {
	done := make(chan struct{})
	var res []Mismatch
	var mu sync.Mutex
	go func() {
		defer close(done)
		replaySubject(idx, c, &res, &mu)
	}()
	select {
	case <-done:
		*out = append(*out, res...)
	case <-time.After(10 * time.Second):
		mu.Lock()
		*out = append(*out, res...)
		mu.Unlock()
		*out = append(*out, Mismatch{Case: idx, Chain: fmt.Sprintf("%s(%d)", c.Cfg.Kind, c.Cfg.Buf), Mode: "seq", Step: -1, Class: "hang",
			Detail: "a call into the subject did not return within 10s"})
	}
}

func replaySubject(idx int, c *SCase, out *[]Mismatch, omu *sync.Mutex) {
	name := fmt.Sprintf("%s(%d)", c.Cfg.Kind, c.Cfg.Buf)
	step := 0
	add := func(class, detail string) {
		omu.Lock()
		*out = append(*out, Mismatch{Case: idx, Chain: name, Mode: "seq", Step: step, Class: class, Detail: detail})
		omu.Unlock()
	}
	subj := NewSubject(c.Cfg)
	base := context.WithValue(context.Background(), rec.KeySub, true)
	var mu sync.Mutex
	logs := map[int][]string{}
	pos := map[int]int{}
	subs := map[int]ro.Subscription{}
	mkObs := func(i int, self bool) ro.Observer[any] {
		var me ro.Subscriber[any]
		first := true
		o := ro.NewObserverWithContext(
			func(ctx context.Context, v any) {
				mu.Lock()
				logs[i] = append(logs[i], "N:"+cat.Canon(v))
				mu.Unlock()
				if ctx == nil {
					add("ctx-nil", "value callback invoked with a nil context")
				}
				if self && first {
					first = false
					me.Unsubscribe()
				}
			},
			func(ctx context.Context, err error) {
				mu.Lock()
				logs[i] = append(logs[i], fmt.Sprintf("E:%d", subjCause(err)))
				mu.Unlock()
				if ctx == nil {
					add("ctx-nil", "error callback invoked with a nil context")
				}
			},
			func(ctx context.Context) {
				mu.Lock()
				logs[i] = append(logs[i], "C:0")
				mu.Unlock()
				if ctx == nil {
					add("ctx-nil", "completion callback invoked with a nil context")
				}
			},
		)
		if self {
			me = ro.NewSubscriber(o) // a pre-built subscriber: the subject reuses it, so the observer can unsubscribe itself
			return me
		}
		return o
	}
	for k, op := range c.Ops {
		step = k
		func() {
			defer func() {
				if e := recover(); e != nil {
					add("panic", fmt.Sprint(e))
				}
			}()
			switch op.Op {
			case "next":
				subj.NextWithContext(base, any(op.Arg))
			case "error":
				subj.ErrorWithContext(base, cat.ErrSrc[1])
			case "complete":
				subj.CompleteWithContext(base)
			case "sub":
				subs[op.Arg] = subj.SubscribeWithContext(base, mkObs(op.Arg, false))
			case "subU":
				subs[op.Arg] = subj.SubscribeWithContext(base, mkObs(op.Arg, true))
			case "subX":
				// a pre-built subscriber that is already unsubscribed when it is handed to Subscribe
				pre := ro.NewSubscriber(mkObs(op.Arg, false))
				pre.Unsubscribe()
				subs[op.Arg] = subj.SubscribeWithContext(base, pre)
			case "unsub":
				subs[op.Arg].Unsubscribe()
			}
		}()
		mu.Lock()
		for i := 1; i <= len(op.Deliv); i++ {
			var exp []string
			for _, n := range op.Deliv[i-1] {
				exp = append(exp, n.K+":"+cat.Canon(n.V))
			}
			got := append([]string(nil), logs[i][pos[i]:]...)
			pos[i] = len(logs[i])
			if strings.Join(exp, " ") != strings.Join(got, " ") {
				add("deliveries", fmt.Sprintf("after %s(%d) subscriber %d received [%s], the definition says [%s]", op.Op, op.Arg, i, strings.Join(got, " "), strings.Join(exp, " ")))
			}
		}
		mu.Unlock()
		g := SGet{Has: subj.HasObserver(), Count: subj.CountObservers(), Closed: subj.IsClosed(), Thrown: subj.HasThrown(), Completed: subj.IsCompleted()}
		if g != op.Get {
			add("getters", fmt.Sprintf("after %s(%d): getters %+v, the definition says %+v", op.Op, op.Arg, g, op.Get))
		}
	}
}
