package pipe

import (
	"context"
	"fmt"
	"runtime"
	"time"

	"github.com/samber/ro"

	"verif/harness/internal/rec"
)

// Higher-order cases (HO.tla): source 1 is an asynchronous outer source whose j-th value introduces inner source j (= source j+1).

func isHO(op string) bool {
	switch op {
	case "MergeAll", "ConcatAll", "CombineLatestAll", "ZipAll":
		return true
	}
	return false
}

// BuildHO builds the operator over the controllable outer source; inner[j-1] is the observable introduced by outer value j.
func BuildHO(g string, outer ro.Observable[any], inner []ro.Observable[any]) (ro.Observable[any], error) {
	pick := func(x any) ro.Observable[any] { return inner[toInt(x)-1] }
	asObs := ro.Map(pick)(outer)
	// the index flavours: the j-th outer value (value j) is handed over with index j-1; a wrong index or a nil context picks a poisoned source
	poisoned := ro.Throw[any](fmt.Errorf("verif: projection called with a wrong index or a nil context"))
	pickI := func(x any, i int64) ro.Observable[any] {
		if int(i) != toInt(x)-1 {
			return poisoned
		}
		return pick(x)
	}
	pickC := func(ctx context.Context, x any, i int64) ro.Observable[any] {
		if ctx == nil || (i >= 0 && int(i) != toInt(x)-1) {
			return poisoned
		}
		return pick(x)
	}
	switch g {
	case "MergeAll":
		return ro.MergeAll[any]()(asObs), nil
	case "MergeMap":
		return ro.MergeMap(pick)(outer), nil
	case "ConcatAll":
		return ro.ConcatAll[any]()(asObs), nil
	case "FlatMap":
		return ro.FlatMap(pick)(outer), nil
	case "MergeMapI":
		return ro.MergeMapI(pickI)(outer), nil
	case "MergeMapWithContext":
		return ro.MergeMapWithContext(func(ctx context.Context, x any) ro.Observable[any] { return pickC(ctx, x, -1) })(outer), nil
	case "MergeMapIWithContext":
		return ro.MergeMapIWithContext(func(ctx context.Context, x any, i int64) (context.Context, ro.Observable[any]) {
			return ctx, pickC(ctx, x, i)
		})(outer), nil
	case "FlatMapI":
		return ro.FlatMapI(pickI)(outer), nil
	case "FlatMapWithContext":
		return ro.FlatMapWithContext(func(ctx context.Context, x any) ro.Observable[any] { return pickC(ctx, x, -1) })(outer), nil
	case "FlatMapIWithContext":
		return ro.FlatMapIWithContext(pickC)(outer), nil
	case "CombineLatestAllAny":
		return tupleAny(ro.CombineLatestAllAny()(asObs)), nil
	case "CombineLatestAll":
		return tupleAny(ro.CombineLatestAll[any]()(asObs)), nil
	case "ZipAll":
		return tupleAny(ro.ZipAll[any]()(asObs)), nil
	}
	return nil, fmt.Errorf("unknown higher-order constructor %q", g)
}

func toInt(x any) int {
	switch v := x.(type) {
	case int:
		return v
	case int64:
		return int(v)
	case float64:
		return int(v)
	}
	panic(fmt.Sprintf("verif: not an integer: %T", x))
}

func replayHO(idx int, c *MCase, mode string, out *[]Mismatch) {
	name := c.M.G
	add := func(step int, class, detail string) {
		*out = append(*out, Mismatch{Case: idx, Chain: name, Mode: mode, Step: step, Class: class, Detail: detail})
	}
	ctls := make([]*Ctl, 3)
	srcs := make([]ro.Observable[any], 3)
	for i := range ctls {
		ctls[i] = &Ctl{}
		srcs[i] = ctls[i].Observable(mode, nil)
	}
	var dest ro.Subscriber[any] // the downstream subscriber: it can be cut from anywhere, also from inside the subscription of an inner source
	if j := c.ISync.J; j > 0 {
		n := Notif{K: c.ISync.K, V: float64(j + 1)}
		if n.K == "U" {
			ctls[j].OnSub = func(cs *ctlSub) { dest.Unsubscribe() }
		} else {
			ctls[j].OnSub = func(cs *ctlSub) { emitMulti(cs, j+1, 0, n) }
		}
	}
	o, err := BuildHO(c.M.G, srcs[0], srcs[1:])
	if err != nil {
		add(0, "catalogue", err.Error())
		return
	}
	o = withTail(o, c.Tail)
	r := &replica{firstVal: -1}
	r.checkGid = false // an outer notification that blocks inside the pipeline is emitted from a helper goroutine
	r.me = gid()
	base := context.WithValue(context.Background(), rec.KeySub, true)
	guard := func(step int, f func()) {
		defer func() {
			if e := recover(); e != nil {
				add(step, "panic", fmt.Sprint(e))
			}
		}()
		f()
	}
	sent := make([]int, 3)
	var inflight chan struct{} // the outer notification that has not returned yet (ConcatAll / FlatMap wait for the inner source inside it)
	returned := func(d time.Duration) bool {
		if inflight == nil {
			return true
		}
		select {
		case <-inflight:
			inflight = nil
			return true
		case <-time.After(d):
			return false
		}
	}
	for i, st := range c.Steps {
		switch st.Do {
		case "sub":
			dest = ro.NewSubscriber(r.observer())
			guard(i, func() { r.sub = o.SubscribeWithContext(base, dest) })
		case "push":
			k := st.Src - 1
			cs := ctls[k].nth(0)
			if cs != nil {
				n, j := st.N, sent[k]
				if n.K == "N" && k == 0 {
					n.V = toInt(n.V)
				}
				emit := func() {
					if k == 0 && n.K == "N" {
						cs.dest.NextWithContext(context.WithValue(cs.subCtx, rec.KeyItem, 10+j), n.V)
					} else {
						emitMulti(cs, st.Src, j, n)
					}
				}
				if st.Exp.Blk == 1 && k == 0 {
					// the model says this notification does not return before the inner source it introduces is over: emit it from a helper
					// goroutine and go on as soon as the inner source has been subscribed
					ch := make(chan struct{})
					inflight = ch
					want := st.Exp.Subs
					go func() {
						defer close(ch)
						guard(i, emit)
					}()
					deadline := time.Now().Add(6 * time.Second)
					for time.Now().Before(deadline) {
						ok := true
						for x := range ctls {
							if s, _ := ctls[x].counts(); s != want[x] {
								ok = false
							}
						}
						if ok {
							break
						}
						select {
						case <-ch:
							deadline = time.Now()
						default:
							runtime.Gosched()
							time.Sleep(50 * time.Microsecond)
						}
					}
				} else {
					guard(i, emit)
				}
			}
			sent[k]++
		case "unsub":
			if r.sub != nil {
				guard(i, r.sub.Unsubscribe)
			}
		}
		// C14: a notification that was waiting inside the pipeline returns as soon as what it waited for is over or cut
		if st.Exp.Blk == 0 {
			if !returned(6 * time.Second) {
				add(i, "blocked", "the outer notification that was waiting inside the pipeline for its inner source did not return within 6s after this step")
				inflight = nil
			}
		} else if inflight != nil {
			select {
			case <-inflight:
				inflight = nil
				add(i, "blocked", "the outer notification returned although the inner source it introduced is still running")
			default:
			}
		}
		r.mu.Lock()
		delta := append([]got(nil), r.log[r.pos:]...)
		r.pos = len(r.log)
		r.mu.Unlock()
		for _, g := range delta {
			if r.terminated {
				add(i, "grammar", fmt.Sprintf("%s:%s delivered after a terminal notification", g.K, g.V))
			}
			if r.unsubbed {
				add(i, "after-unsub", fmt.Sprintf("%s:%s delivered after Unsubscribe returned", g.K, g.V))
			}
			if g.K == "E" || g.K == "C" {
				r.terminated = true
			}
		}
		compareLog(i, st.Exp.Log, delta, r.me, add)
		if r.sub != nil {
			if cl := r.sub.IsClosed(); cl != st.Exp.Closed {
				add(i, "closed", fmt.Sprintf("IsClosed=%v expected %v", cl, st.Exp.Closed))
			}
		}
		for k := range ctls {
			s, t := ctls[k].counts()
			if c.ISync.J > 0 && k != c.ISync.J && k > 0 && s == 0 && t == 0 && st.Exp.Torn[k] == 1 {
				// an inner source the operator no longer needed after the synchronous end of another one was never subscribed at all
				continue
			}
			if s != st.Exp.Subs[k] {
				add(i, "sub", fmt.Sprintf("source %d subscribed %d times, expected %d", k+1, s, st.Exp.Subs[k]))
			}
			if t != st.Exp.Torn[k] {
				add(i, "torn", fmt.Sprintf("source %d teardown ran %d times, expected %d (output closed=%v)", k+1, t, st.Exp.Torn[k], st.Exp.Closed))
			}
		}
		if st.Do == "unsub" || (c.ISync.K == "U" && st.Exp.Closed) {
			r.unsubbed = true
		}
	}
	for i := 0; i < 3; i++ {
		runtime.Gosched()
	}
	r.mu.Lock()
	late := len(r.log) - r.pos
	r.mu.Unlock()
	if late > 0 {
		add(len(c.Steps)-1, "late", fmt.Sprintf("%d notifications arrived after the step that caused them returned", late))
	}
	if r.sub != nil && !r.sub.IsClosed() {
		func() {
			defer func() { _ = recover() }()
			r.sub.Unsubscribe()
		}()
	}
	// a case that ends with the outer notification still waiting (its inner source never ended): the final Unsubscribe above must release it
	if !returned(6 * time.Second) {
		add(len(c.Steps)-1, "blocked", "the outer notification that was waiting inside the pipeline did not return within 6s after the final Unsubscribe")
	}
}
