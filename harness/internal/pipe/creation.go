package pipe

import (
	"bufio"
	"context"
	"encoding/json"
	"errors"
	"fmt"
	"os"
	"strconv"
	"strings"
	"sync"
	"sync/atomic"
	"time"

	"github.com/samber/ro"

	"verif/harness/internal/cat"
	"verif/harness/internal/rec"
)

// Creation cases (Creation.tla): synchronous creation operators as functions of their parameters.

type CInst struct {
	Op string          `json:"op"`
	A  json.RawMessage `json:"a"`
	Cs json.RawMessage `json:"cs"`
}

type CCase struct {
	Inst  CInst   `json:"inst"`
	Take  int     `json:"take"`
	NSubs int     `json:"nsubs"`
	Exp   []Notif `json:"exp"`
	Calls int     `json:"calls"`
	Raw   string  `json:"-"`
}

func ReadCCases(path string, fn func(i int, c *CCase)) (int, error) {
	f, err := os.Open(path)
	if err != nil {
		return 0, err
	}
	defer f.Close()
	sc := bufio.NewScanner(f)
	sc.Buffer(make([]byte, 1<<20), 1<<26)
	n := 0
	for sc.Scan() {
		line := sc.Text()
		if !strings.HasPrefix(line, "\"{") {
			continue
		}
		s, err := strconv.Unquote(line)
		if err != nil {
			return n, err
		}
		c := &CCase{Raw: s}
		if err := json.Unmarshal([]byte(s), c); err != nil {
			return n, fmt.Errorf("case json: %v: %.200s", err, s)
		}
		fn(n, c)
		n++
	}
	return n, sc.Err()
}

func ints(raw json.RawMessage) []int {
	var xs []int
	_ = json.Unmarshal(raw, &xs)
	return xs
}

func anys(xs []int) []any {
	out := make([]any, len(xs))
	for i, x := range xs {
		out[i] = x
	}
	return out
}

// BuildCreation builds the real observable; calls counts the invocations of the user function (Start / Defer / Future).
func BuildCreation(in CInst, calls *int32) (ro.Observable[any], error) {
	a := ints(in.A)
	i64 := func(o ro.Observable[int64]) ro.Observable[any] {
		return ro.Map(func(v int64) any { return int(v) })(o)
	}
	switch in.Op {
	case "Of":
		return ro.Of(anys(a)...), nil
	case "Just":
		return ro.Just(anys(a)...), nil
	case "Range":
		return i64(ro.Range(int64(a[0]), int64(a[1]))), nil
	case "RangeWithStep":
		// the model works in halves: step = a[2] / 2, values are compared doubled
		o := ro.RangeWithStep(float64(a[0]), float64(a[1]), float64(a[2])/2)
		return ro.Map(func(v float64) any {
			d := v * 2
			if d != float64(int(d)) {
				return fmt.Sprintf("non-half value %v", v)
			}
			return int(d)
		})(o), nil
	case "Repeat":
		return ro.Repeat(any(a[0]), int64(a[1])), nil
	case "FromSlice":
		var cs [][]int
		_ = json.Unmarshal(in.Cs, &cs)
		cols := make([][]any, len(cs))
		for i := range cs {
			cols[i] = anys(cs[i])
		}
		return ro.FromSlice(cols...), nil
	case "Empty":
		return ro.Empty[any](), nil
	case "Throw":
		return ro.Throw[any](cat.ErrSrc[a[0]]), nil
	case "Start":
		return ro.Start(func() any { atomic.AddInt32(calls, 1); return any(a[0]) }), nil
	case "Defer":
		return ro.Defer(func() ro.Observable[any] { atomic.AddInt32(calls, 1); return ro.Of(anys(a)...) }), nil
	case "DeferThrow":
		return ro.Defer(func() ro.Observable[any] { atomic.AddInt32(calls, 1); return ro.Throw[any](cat.ErrSrc[a[0]]) }), nil
	case "SyncPanickingTeardown":
		return ro.NewUnsafeObservableWithContext(func(ctx context.Context, d ro.Observer[any]) ro.Teardown {
			for _, v := range a {
				d.NextWithContext(ctx, any(v))
			}
			d.CompleteWithContext(ctx)
			return func() { atomic.AddInt32(calls, 1); panic(errors.New("verif: this teardown panics")) }
		}), nil
	case "OfPanickingFinalizer":
		return ro.TapOnFinalize[any](func() { atomic.AddInt32(calls, 1); panic(errors.New("verif: this finalizer panics")) })(ro.Of(anys(a)...)), nil
	case "Future":
		return ro.Future(func() (any, error) { atomic.AddInt32(calls, 1); return any(a[0]), nil }), nil
	case "FutureErr":
		return ro.Future(func() (any, error) { atomic.AddInt32(calls, 1); return nil, cat.ErrSrc[a[0]] }), nil
	}
	return nil, fmt.Errorf("creation catalogue: no constructor for %q", in.Op)
}

// ReplayCreation runs one case under a watchdog: a Subscribe that never returns (a lock left held) is a hang, not an endless wait.
func ReplayCreation(idx int, c *CCase, out *[]Mismatch) {
	done := make(chan struct{})
	var res []Mismatch
	go func() {
		defer close(done)
		replayCreation(idx, c, &res)
	}()
	select {
	case <-done:
		*out = append(*out, res...)
	case <-time.After(10 * time.Second):
		*out = append(*out, Mismatch{Case: idx, Chain: c.Inst.Op, Mode: "sync", Step: -1, Class: "hang", Detail: "a call into the library did not return within 10s"})
	}
}

func replayCreation(idx int, c *CCase, out *[]Mismatch) {
	name := c.Inst.Op
	add := func(step int, class, detail string) {
		*out = append(*out, Mismatch{Case: idx, Chain: name, Mode: "sync", Step: step, Class: class, Detail: detail})
	}
	var calls int32
	o, err := BuildCreation(c.Inst, &calls)
	if err != nil {
		add(0, "catalogue", err.Error())
		return
	}
	if calls != 0 {
		add(0, "sub", "the user function ran at construction time")
	}
	if c.Take >= 0 {
		o = ro.Take[any](int64(c.Take))(o)
	}
	async := strings.HasPrefix(c.Inst.Op, "Future")
	base := context.WithValue(context.Background(), rec.KeySub, true)
	for k := 0; k < c.NSubs; k++ {
		// the SAME observable value is subscribed again: every subscription sees the whole script (C12)
		var mu sync.Mutex
		var log []got
		done := make(chan struct{})
		var once sync.Once
		recv := func(kind, v string, ctx context.Context) {
			mu.Lock()
			log = append(log, got{K: kind, V: v, C: cat.Markers(ctx)})
			mu.Unlock()
			if kind != "N" {
				once.Do(func() { close(done) })
			}
		}
		before := atomic.LoadInt32(&calls)
		var sub ro.Subscription
		func() {
			defer func() {
				if e := recover(); e != nil {
					add(k, "panic", fmt.Sprint(e))
				}
			}()
			sub = o.SubscribeWithContext(base, ro.NewObserverWithContext(
				func(ctx context.Context, v any) { recv("N", cat.Canon(v), ctx) },
				func(ctx context.Context, err error) { recv("E", fmt.Sprint(cat.CauseOf(err)), ctx) },
				func(ctx context.Context) { recv("C", "0", ctx) },
			))
		}()
		if async {
			select {
			case <-done:
			case <-time.After(2 * time.Second):
			}
		}
		mu.Lock()
		act := append([]got(nil), log...)
		mu.Unlock()
		for i := range act {
			act[i].Gid = 0
		}
		compareLog(k, c.Exp, act, 0, func(step int, class, detail string) {
			if class == "gid" {
				return
			}
			add(step, class, detail)
		})
		if sub != nil && !async && !sub.IsClosed() {
			add(k, "closed", "the subscription of a synchronous creation operator is not closed when Subscribe returns")
		}
		if got := int(atomic.LoadInt32(&calls) - before); got != c.Calls {
			add(k, "sub", fmt.Sprintf("the user function ran %d times during subscription %d, expected %d", got, k+1, c.Calls))
		}
		mu.Lock()
		n1 := len(log)
		mu.Unlock()
		time.Sleep(200 * time.Microsecond)
		mu.Lock()
		if len(log) != n1 {
			add(k, "late", "notifications arrived after the terminal")
		}
		mu.Unlock()
	}
}
