package pipe

import (
	"bufio"
	"context"
	"encoding/json"
	"errors"
	"fmt"
	"os"
	"strconv"
	"strings"
	"sync"
	"time"

	"github.com/samber/lo"
	"github.com/samber/ro"

	"verif/harness/internal/cat"
	"verif/harness/internal/rec"
)

// Re-subscribing operators (Resub.tla, C15).

type ROp struct {
	Op string `json:"op"`
	G  string `json:"g"`
	M  int    `json:"m"`
	R  bool   `json:"r"`
}

type ROutcome struct {
	Nv  int    `json:"nv"`
	End string `json:"end"`
}

type RCase struct {
	Open     bool       `json:"open"` // the first attempt emits a value and never ends; the pipeline is cut by a downstream Take(1) (C14)
	O        ROp        `json:"o"`
	Outs     []ROutcome `json:"outs"`
	Conds    []bool     `json:"conds"`
	CancelAt int        `json:"cancelAt"`
	Exp      struct {
		Log   []Notif `json:"log"`
		NSubs int     `json:"nsubs"`
	} `json:"exp"`
	Raw string `json:"-"`
}

func ReadRCases(path string, fn func(i int, c *RCase)) (int, error) {
	f, err := os.Open(path)
	if err != nil {
		return 0, err
	}
	defer f.Close()
	sc := bufio.NewScanner(f)
	sc.Buffer(make([]byte, 1<<20), 1<<26)
	n := 0
	for sc.Scan() {
		line := sc.Text()
		if !strings.HasPrefix(line, "\"{") {
			continue
		}
		s, err := strconv.Unquote(line)
		if err != nil {
			return n, err
		}
		c := &RCase{Raw: s}
		if err := json.Unmarshal([]byte(s), c); err != nil {
			return n, fmt.Errorf("case json: %v: %.200s", err, s)
		}
		fn(n, c)
		n++
	}
	return n, sc.Err()
}

var attemptErr = []error{nil, errors.New("attempt 1 failed"), errors.New("attempt 2 failed"), errors.New("attempt 3 failed"), errors.New("attempt 4 failed"), errors.New("attempt 5 failed"), errors.New("attempt 6 failed")}

func attemptCause(err error) int {
	for i := 1; i < len(attemptErr); i++ {
		if errors.Is(err, attemptErr[i]) {
			return i
		}
	}
	if errors.Is(err, context.Canceled) {
		return 107
	}
	return -1
}

// attempts is the shared bookkeeping of the scripted sources of one case.
type attempts struct {
	mu      sync.Mutex
	c       *RCase
	mode    string
	started int // attempts subscribed so far (global order)
	live    int
	issues  []string
	cancel  context.CancelFunc
	wg      sync.WaitGroup
	ncond   int           // loop-condition evaluations so far
	epoch   int           // subscription round of the pipeline (mode twice)
	delay   time.Duration // RetryConfig.Delay of the case (0 = none): a retry is subscribed no sooner than this after the failure
	failAt  time.Time     // when the last attempt failed
}

// decoy is a source that must never be subscribed.
func (a *attempts) decoy() ro.Observable[any] {
	return ro.NewUnsafeObservableWithContext(func(ctx context.Context, dest ro.Observer[any]) ro.Teardown {
		a.mu.Lock()
		a.issues = append(a.issues, "the decoy source of another application of the same operator value was subscribed")
		a.mu.Unlock()
		dest.NextWithContext(ctx, any(-99))
		dest.CompleteWithContext(ctx)
		return nil
	})
}

func (a *attempts) outcome(i int) ROutcome {
	if i <= len(a.c.Outs) {
		return a.c.Outs[i-1]
	}
	return ROutcome{Nv: 0, End: "C"}
}

// source returns a cold observable; fixed > 0: this observable IS attempt number `fixed` (Concat / Catch fallback / resume-next sources)
// and must be subscribed at most once; fixed = 0: every subscription is the next attempt.
func (a *attempts) source(fixed int) ro.Observable[any] {
	subscribedIn := -1 // the round in which this fixed source was subscribed
	return ro.NewUnsafeObservableWithContext(func(ctx context.Context, dest ro.Observer[any]) ro.Teardown {
		a.mu.Lock()
		a.started++
		n := a.started
		if fixed > 0 {
			if subscribedIn == a.epoch {
				a.issues = append(a.issues, fmt.Sprintf("source %d subscribed twice", fixed))
			}
			subscribedIn = a.epoch
			if fixed != n {
				a.issues = append(a.issues, fmt.Sprintf("source %d subscribed as attempt number %d (out of order)", fixed, n))
			}
			n = fixed
		}
		if a.live != 0 {
			a.issues = append(a.issues, fmt.Sprintf("attempt %d subscribed while %d earlier attempt(s) were still live (not over and released)", n, a.live))
		}
		if a.delay > 0 && !a.failAt.IsZero() {
			if gap := time.Since(a.failAt); gap < a.delay { // a lower bound only: load can make a retry later, never earlier
				a.issues = append(a.issues, fmt.Sprintf("attempt %d subscribed %v after the previous attempt failed, RetryConfig.Delay is %v", n, gap, a.delay))
			}
		}
		a.live++
		a.mu.Unlock()
		play := func() {
			oc := a.outcome(n)
			for j := 1; j <= oc.Nv; j++ {
				dest.NextWithContext(ctx, any(10*n+j))
			}
			if a.c.CancelAt == n && a.cancel != nil {
				a.cancel()
			}
			switch oc.End {
			case "E":
				a.mu.Lock()
				a.failAt = time.Now()
				a.mu.Unlock()
				dest.ErrorWithContext(ctx, attemptErr[n])
			case "O":
				// never ends: the subscription stays open until somebody releases it
			default:
				dest.CompleteWithContext(ctx)
			}
		}
		if a.mode != "async" {
			play()
		} else {
			a.wg.Add(1)
			go func() { defer a.wg.Done(); time.Sleep(50 * time.Microsecond); play() }()
		}
		return func() {
			if a.mode == "async" {
				// a teardown that takes a moment (it stops a producer, closes a connection): the attempt is released when it has RETURNED;
				// an operator that moves on as soon as the subscription is marked closed subscribes the next attempt inside this window
				time.Sleep(200 * time.Microsecond)
			}
			a.mu.Lock()
			a.live--
			a.mu.Unlock()
		}
	})
}

// buildResub builds the pipeline of a case.  The operator forms are built as an operator VALUE first; in the modes apply-decoy-first /
// apply-real-first that one value is also applied to a decoy source that is never subscribed (C12 / C15: an operator value is a recipe -
// applying it to another source must not change the pipeline over the real source).
func buildResub(c *RCase, a *attempts) (ro.Observable[any], error) {
	op, first, err := buildResubOp(c, a)
	if err != nil {
		return nil, err
	}
	if op == nil {
		return first, nil
	}
	switch a.mode {
	case "apply-decoy-first":
		_ = op(a.decoy())
		return op(first), nil
	case "apply-real-first":
		o := op(first)
		_ = op(a.decoy())
		return o, nil
	}
	return op(first), nil
}

type opFn = func(ro.Observable[any]) ro.Observable[any]

func buildResubOp(c *RCase, a *attempts) (opFn, ro.Observable[any], error) {
	cond := func() bool {
		a.mu.Lock()
		defer a.mu.Unlock()
		v := false
		if a.ncond < len(c.Conds) {
			v = c.Conds[a.ncond]
		}
		a.ncond++
		return v
	}
	condI := func(i int64) bool {
		if int(i) < len(c.Conds) {
			return c.Conds[i]
		}
		return false
	}
	src := a.source(0)
	switch c.O.G {
	case "Retry":
		return ro.Retry[any](), src, nil
	case "RetryWithConfig":
		return ro.RetryWithConfig[any](ro.RetryConfig{MaxRetries: uint64(c.O.M), ResetOnSuccess: c.O.R}), src, nil
	case "RetryWithConfigDelay":
		a.delay = 3 * time.Millisecond
		return ro.RetryWithConfig[any](ro.RetryConfig{MaxRetries: uint64(c.O.M), ResetOnSuccess: c.O.R, Delay: a.delay}), src, nil
	case "RepeatWith":
		return ro.RepeatWith[any](int64(c.O.M)), src, nil
	case "DoWhile":
		return ro.DoWhile[any](cond), src, nil
	case "DoWhileI":
		return ro.DoWhileI[any](condI), src, nil
	case "DoWhileWithContext":
		return ro.DoWhileWithContext[any](func(ctx context.Context) (context.Context, bool) { return ctx, cond() }), src, nil
	case "DoWhileIWithContext":
		return ro.DoWhileIWithContext[any](func(ctx context.Context, i int64) (context.Context, bool) { return ctx, condI(i) }), src, nil
	case "While":
		return ro.While[any](cond), src, nil
	case "WhileI":
		return ro.WhileI[any](condI), src, nil
	case "WhileWithContext":
		return ro.WhileWithContext[any](func(ctx context.Context) (context.Context, bool) { return ctx, cond() }), src, nil
	case "WhileIWithContext":
		return ro.WhileIWithContext[any](func(ctx context.Context, i int64) (context.Context, bool) { return ctx, condI(i) }), src, nil
	case "Catch":
		return ro.Catch(func(err error) ro.Observable[any] { return a.source(2) }), a.source(1), nil
	case "OnErrorResumeNextWith":
		var rest []ro.Observable[any]
		for k := 2; k <= c.O.M; k++ {
			rest = append(rest, a.source(k))
		}
		return ro.OnErrorResumeNextWith(rest...), a.source(1), nil
	case "Concat":
		var all []ro.Observable[any]
		for k := 1; k <= c.O.M; k++ {
			all = append(all, a.source(k))
		}
		return nil, ro.Concat(all...), nil
	case "SubscribeOn":
		return ro.SubscribeOn[any](2), a.source(1), nil
	case "ConcatWith":
		var rest []ro.Observable[any]
		for k := 2; k <= c.O.M; k++ {
			rest = append(rest, a.source(k))
		}
		return ro.ConcatWith(rest...), a.source(1), nil
	}
	return nil, nil, fmt.Errorf("resub catalogue: no constructor for %q", c.O.G)
}

func ReplayResub(idx int, c *RCase, mode string, out *[]Mismatch) {
	name := fmt.Sprintf("%s(%d,%v)", c.O.G, c.O.M, c.O.R)
	add := func(class, detail string) {
		if strings.HasPrefix(mode, "apply-") && class != "hang" && class != "catalogue" && class != "overlap" {
			class = "reuse-" + class // one operator value applied to two sources (C12)
		}
		*out = append(*out, Mismatch{Case: idx, Chain: name, Mode: mode, Step: 0, Class: class, Detail: detail})
	}
	a := &attempts{c: c, mode: mode}
	base, cancel := context.WithCancel(context.WithValue(context.Background(), rec.KeySub, true))
	defer cancel()
	a.cancel = cancel
	if c.Open && mode != "sync" && mode != "async" {
		return
	}
	o, err := buildResub(c, a)
	if err != nil {
		add("catalogue", err.Error())
		return
	}
	if c.Open {
		o = ro.Take[any](1)(o) // the early-terminating downstream
	}
	if a.started != 0 {
		add("sub", "a source was subscribed at construction time")
	}
	rounds := 1
	if mode == "twice" {
		// C15 / C12: the SAME pipeline subscribed again after the first run is over starts from scratch (indexes, counters, attempt numbers)
		if c.CancelAt != 0 {
			return
		}
		rounds = 2
	}
	for round := 0; round < rounds; round++ {
		if round > 0 {
			a.mu.Lock()
			a.started, a.live, a.issues, a.ncond = 0, 0, nil, 0
			a.epoch++
			a.failAt = time.Time{} // a new subscription of the pipeline: its first attempt waits for nothing
			a.mu.Unlock()
		}
		if !replayResubRound(c, a, o, base, mode, add) {
			return
		}
	}
}

// replayResubRound subscribes the pipeline once and compares; false = stop (a hang was reported).
func replayResubRound(c *RCase, a *attempts, o ro.Observable[any], base context.Context, mode string, add func(class, detail string)) bool {
	var mu sync.Mutex
	var log []string
	nilctx := false
	obs := ro.NewObserverWithContext(
		func(ctx context.Context, v any) {
			mu.Lock()
			log = append(log, "N:"+cat.Canon(v))
			nilctx = nilctx || ctx == nil
			mu.Unlock()
		},
		func(ctx context.Context, err error) {
			mu.Lock()
			log = append(log, fmt.Sprintf("E:%d", attemptCause(err)))
			nilctx = nilctx || ctx == nil
			mu.Unlock()
		},
		func(ctx context.Context) {
			mu.Lock()
			log = append(log, "C:0")
			nilctx = nilctx || ctx == nil
			mu.Unlock()
		},
	)
	done := make(chan ro.Subscription, 1)
	go func() {
		defer func() {
			if e := recover(); e != nil {
				mu.Lock()
				log = append(log, fmt.Sprintf("PANIC:%v", e))
				mu.Unlock()
				done <- nil
			}
		}()
		done <- o.SubscribeWithContext(base, obs)
	}()
	var sub ro.Subscription
	select {
	case sub = <-done:
	case <-time.After(lo.Ternary(c.Open, 4*time.Second, 10*time.Second)):
		if c.Open {
			// C14: the downstream completed on the value, yet the call that waits for the attempt inside the pipeline is still running
			a.mu.Lock()
			live := a.live
			a.mu.Unlock()
			add("blocked", fmt.Sprintf("downstream Take(1) completed on the first value of a never-ending attempt, but Subscribe is still running 4s later (%d attempt(s) still subscribed)", live))
			return false
		}
		add("hang", "Subscribe did not return within 10s although every attempt ended")
		return false
	}
	played := make(chan struct{})
	go func() { a.wg.Wait(); close(played) }()
	select {
	case <-played:
	case <-time.After(10 * time.Second):
		add("hang", "the producer of an attempt is still blocked inside the pipeline 10s after Subscribe returned")
		return false
	}
	if mode == "async" && sub != nil {
		// asynchronous attempts: the operators wait inside Subscribe, so everything is over when it returns
	}
	var exp []string
	for _, n := range c.Exp.Log {
		exp = append(exp, n.K+":"+cat.Canon(n.V))
	}
	mu.Lock()
	got := strings.Join(log, " ")
	nc := nilctx
	mu.Unlock()
	if got != strings.Join(exp, " ") {
		add("values", fmt.Sprintf("outcomes %v conds %v cancelAt %d: got [%s], the definition says [%s]", c.Outs, c.Conds, c.CancelAt, got, strings.Join(exp, " ")))
	}
	if nc {
		add("ctx-nil", "a callback was invoked with a nil context")
	}
	// an operator that subscribes its source on a goroutine of its own (SubscribeOn) releases it from that goroutine, possibly a moment after the
	// terminal reached the observer: "released" is judged once that goroutine had the time to do it (2 s), never in the middle of its run
	for k := 0; k < 40000; k++ {
		a.mu.Lock()
		l := a.live
		a.mu.Unlock()
		if l == 0 {
			break
		}
		time.Sleep(50 * time.Microsecond)
	}
	a.mu.Lock()
	started, live, issues := a.started, a.live, a.issues
	a.mu.Unlock()
	if started != c.Exp.NSubs {
		add("attempts", fmt.Sprintf("outcomes %v conds %v cancelAt %d: %d subscriptions to the source(s), the definition says %d", c.Outs, c.Conds, c.CancelAt, started, c.Exp.NSubs))
	}
	for _, is := range issues {
		if strings.Contains(is, "decoy") {
			add("sub", is)
		} else {
			add("overlap", is)
		}
	}
	if sub != nil {
		if !sub.IsClosed() {
			add("closed", "the stream terminated but the subscription is not closed")
		}
		sub.Unsubscribe()
	}
	if live != 0 {
		add("torn", fmt.Sprintf("%d attempt(s) still subscribed after the stream ended and Subscribe returned", live))
	}
	return true
}
