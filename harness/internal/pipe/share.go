package pipe

import (
	"bufio"
	"context"
	"encoding/json"
	"fmt"
	"os"
	"strconv"
	"strings"
	"sync"
	"time"

	"github.com/samber/ro"

	"verif/harness/internal/cat"
	"verif/harness/internal/rec"
)

// Share cases (ShareSeq.tla, C11 sequential clause).

type ShCfg struct {
	Kind string `json:"kind"`
	Buf  int    `json:"buf"`
	Re   bool   `json:"re"`
	Rc   bool   `json:"rc"`
	Rz   bool   `json:"rz"`
	Rd   *bool  `json:"rd,omitempty"` // present: a connectable observable (ConnSeq.tla) with ResetOnDisconnect = rd
}

type ShOp struct {
	Op    string    `json:"op"`
	Arg   int       `json:"arg"`
	Deliv [][]Notif `json:"deliv"`
	Live  int       `json:"live"`
	Total int       `json:"total"`
}

type ShCase struct {
	Cfg ShCfg  `json:"cfg"`
	Ops []ShOp `json:"ops"`
	Raw string `json:"-"`
}

func ReadShCases(path string, fn func(i int, c *ShCase)) (int, error) {
	f, err := os.Open(path)
	if err != nil {
		return 0, err
	}
	defer f.Close()
	sc := bufio.NewScanner(f)
	sc.Buffer(make([]byte, 1<<20), 1<<26)
	n := 0
	for sc.Scan() {
		line := sc.Text()
		if !strings.HasPrefix(line, "\"{") {
			continue
		}
		s, err := strconv.Unquote(line)
		if err != nil {
			return n, err
		}
		c := &ShCase{Raw: s}
		if err := json.Unmarshal([]byte(s), c); err != nil {
			return n, fmt.Errorf("case json: %v: %.200s", err, s)
		}
		fn(n, c)
		n++
	}
	return n, sc.Err()
}

// BuildShare builds the shared observable for a configuration. The named constructors are used where the configuration is
// exactly theirs (Share, ShareReplay, ShareReplayWithConfig), ShareWithConfig otherwise.
func BuildShare(cfg ShCfg, src ro.Observable[any]) ro.Observable[any] {
	if cfg.Kind == "publish" && cfg.Re && cfg.Rc && cfg.Rz {
		return ro.Share[any]()(src)
	}
	if cfg.Kind == "replay" && cfg.Re && !cfg.Rc && !cfg.Rz {
		return ro.ShareReplay[any](cfg.Buf)(src)
	}
	if cfg.Kind == "replay" && cfg.Re && !cfg.Rc {
		return ro.ShareReplayWithConfig[any](cfg.Buf, ro.ShareReplayConfig{ResetOnRefCountZero: cfg.Rz})(src)
	}
	conn := func() ro.Subject[any] {
		switch cfg.Kind {
		case "publish":
			return ro.NewPublishSubject[any]()
		case "behavior":
			return ro.NewBehaviorSubject[any](any(7))
		default:
			return ro.NewReplaySubject[any](cfg.Buf)
		}
	}
	return ro.ShareWithConfig(ro.ShareConfig[any]{Connector: conn, ResetOnError: cfg.Re, ResetOnComplete: cfg.Rc, ResetOnRefCountZero: cfg.Rz})(src)
}

func ReplayShare(idx int, c *ShCase, out *[]Mismatch) {
	done := make(chan struct{})
	var res []Mismatch
	var omu sync.Mutex
	go func() {
		defer close(done)
		replayShare(idx, c, &res, &omu)
	}()
	select {
	case <-done:
		*out = append(*out, res...)
	case <-time.After(10 * time.Second):
		omu.Lock()
		*out = append(*out, res...)
		omu.Unlock()
		*out = append(*out, Mismatch{Case: idx, Chain: shName(c.Cfg), Mode: "seq", Step: -1, Class: "hang", Detail: "a call did not return within 10s"})
	}
}

func shName(c ShCfg) string {
	if c.Rd != nil {
		return fmt.Sprintf("connectable:%s(%d)/rd=%v", c.Kind, c.Buf, *c.Rd)
	}
	return fmt.Sprintf("%s(%d)/re=%v,rc=%v,rz=%v", c.Kind, c.Buf, c.Re, c.Rc, c.Rz)
}

func replayShare(idx int, c *ShCase, out *[]Mismatch, omu *sync.Mutex) {
	name := shName(c.Cfg)
	step := 0
	add := func(class, detail string) {
		omu.Lock()
		*out = append(*out, Mismatch{Case: idx, Chain: name, Mode: "seq", Step: step, Class: class, Detail: detail})
		omu.Unlock()
	}
	ctl := &Ctl{}
	var shared ro.Observable[any]
	var connectable ro.ConnectableObservable[any]
	var connection ro.Subscription
	if c.Cfg.Rd != nil {
		conn := func() ro.Subject[any] {
			switch c.Cfg.Kind {
			case "publish":
				return ro.NewPublishSubject[any]()
			case "behavior":
				return ro.NewBehaviorSubject[any](any(7))
			default:
				return ro.NewReplaySubject[any](c.Cfg.Buf)
			}
		}
		if c.Cfg.Kind == "publish" && *c.Cfg.Rd {
			connectable = ro.Connectable(ctl.Observable("ctl-unsafe", nil)) // the default configuration
		} else {
			connectable = ro.ConnectableWithConfig(ctl.Observable("ctl-unsafe", nil), ro.ConnectableConfig[any]{Connector: conn, ResetOnDisconnect: *c.Cfg.Rd})
		}
		shared = connectable
	} else {
		shared = BuildShare(c.Cfg, ctl.Observable("ctl-unsafe", nil))
	}
	base := context.WithValue(context.Background(), rec.KeySub, true)
	var mu sync.Mutex
	logs := map[int][]string{}
	pos := map[int]int{}
	subs := map[int]ro.Subscription{}
	var mkObs func(i int, re bool) ro.Observer[any]
	mkObs = func(i int, re bool) ro.Observer[any] {
		again := func() {
			if re {
				// re-entrant use: subscribe a new observer (id + 3) to the shared observable from inside the terminal callback
				subs[i+3] = shared.SubscribeWithContext(base, mkObs(i+3, false))
			}
		}
		return ro.NewObserverWithContext(
			func(ctx context.Context, v any) { mu.Lock(); logs[i] = append(logs[i], "N:"+cat.Canon(v)); mu.Unlock() },
			func(ctx context.Context, err error) {
				mu.Lock()
				logs[i] = append(logs[i], fmt.Sprintf("E:%d", cat.CauseOf(err)))
				mu.Unlock()
				again()
			},
			func(ctx context.Context) { mu.Lock(); logs[i] = append(logs[i], "C:0"); mu.Unlock(); again() },
		)
	}
	for k, op := range c.Ops {
		step = k
		func() {
			defer func() {
				if e := recover(); e != nil {
					add("panic", fmt.Sprint(e))
				}
			}()
			// source events go to the most recent source subscription that is still live
			var cs *ctlSub
			s, t := ctl.counts()
			if s > t {
				cs = ctl.nth(s - 1)
			}
			switch op.Op {
			case "sub":
				subs[op.Arg] = shared.SubscribeWithContext(base, mkObs(op.Arg, false))
			case "subR":
				subs[op.Arg] = shared.SubscribeWithContext(base, mkObs(op.Arg, true))
			case "unsub":
				subs[op.Arg].Unsubscribe()
			case "connect":
				connection = connectable.ConnectWithContext(base)
			case "disconnect":
				if connection != nil {
					connection.Unsubscribe()
				}
			case "next":
				if cs != nil {
					emit(cs, Notif{K: "N", V: float64(op.Arg)})
				}
			case "error":
				if cs != nil {
					emit(cs, Notif{K: "E", V: float64(1)})
				}
			case "complete":
				if cs != nil {
					emit(cs, Notif{K: "C"})
				}
			}
		}()
		mu.Lock()
		for i := 1; i <= len(op.Deliv); i++ {
			var exp []string
			for _, n := range op.Deliv[i-1] {
				exp = append(exp, n.K+":"+cat.Canon(n.V))
			}
			got := append([]string(nil), logs[i][pos[i]:]...)
			pos[i] = len(logs[i])
			if strings.Join(exp, " ") != strings.Join(got, " ") {
				add("deliveries", fmt.Sprintf("after %s(%d) subscriber %d received [%s], the definition says [%s]", op.Op, op.Arg, i, strings.Join(got, " "), strings.Join(exp, " ")))
			}
		}
		mu.Unlock()
		s, t := ctl.counts()
		if s-t != op.Live {
			add("upstream-live", fmt.Sprintf("after %s(%d): %d live source subscriptions (subscribed %d, released %d), the definition says %d", op.Op, op.Arg, s-t, s, t, op.Live))
		}
		if s != op.Total {
			add("upstream-total", fmt.Sprintf("after %s(%d): the source was subscribed %d times in total, the definition says %d", op.Op, op.Arg, s, op.Total))
		}
	}
}
