// Package lift is the direction-B driver for the data plugins (C18): every plugin operator is run on seeded and boundary
// inputs, the wrapped standard-library function is called directly on every input (the logged graph of an uninterpreted
// function), values are interned as integers and the trace is validated by TLC against Lift.tla.
package lift

import (
	"bytes"
	"context"
	"encoding/base64"
	"encoding/csv"
	"encoding/gob"
	"encoding/json"
	"fmt"
	"hash/fnv"
	"html/template"
	"io"
	"math/rand"
	"reflect"
	"regexp"
	"sort"
	"strconv"
	"strings"
	"sync"
	ttemplate "text/template"
	"time"
	_ "time/tzdata" // the scenarios do not depend on the host's zoneinfo

	"github.com/samber/ro"
	robytes "github.com/samber/ro/plugins/bytes"
	robase64 "github.com/samber/ro/plugins/encoding/base64"
	rocsv "github.com/samber/ro/plugins/encoding/csv"
	rogob "github.com/samber/ro/plugins/encoding/gob"
	rojson "github.com/samber/ro/plugins/encoding/json"
	roregexp "github.com/samber/ro/plugins/regexp"
	rosort "github.com/samber/ro/plugins/sort"
	rostdio "github.com/samber/ro/plugins/stdio"
	rostrconv "github.com/samber/ro/plugins/strconv"
	rostrings "github.com/samber/ro/plugins/strings"
	rotemplate "github.com/samber/ro/plugins/template"
	rotime "github.com/samber/ro/plugins/time"

	"verif/harness/internal/rec"
)

type interner struct{ ids map[string]int }

func (in *interner) id(v any) int {
	s := fmt.Sprintf("%T|%#v", v, v)
	if t, ok := v.(time.Time); ok {
		s = "time|" + t.UTC().Format(time.RFC3339Nano) + "|" + t.Location().String()
	}
	if id, ok := in.ids[s]; ok {
		return id
	}
	id := len(in.ids) + 1
	in.ids[s] = id
	return id
}

func clone[T any](v T) T {
	rv := reflect.ValueOf(v)
	if rv.Kind() == reflect.Slice && !rv.IsNil() {
		c := reflect.MakeSlice(rv.Type(), rv.Len(), rv.Len())
		reflect.Copy(c, rv)
		return c.Interface().(T)
	}
	return v
}

// runLift runs a map / maperr / filter style operator.
//
//	ref:  the wrapped function, called directly on a private copy of every input
//	keep: for filters, ref's boolean result is in ok and the expected output is the input itself
func runLift[I, O any](lg *rec.Log, name, kind string, inputs []I, op func(ro.Observable[I]) ro.Observable[O], ref func(I) (O, error)) {
	in := &interner{ids: map[string]int{}}
	lg.Add(rec.Ev{E: "hdr", S: name, K: kind})
	for i, x := range inputs {
		lg.Add(rec.Ev{E: "in", I: i + 1, V: in.id(x)})
	}
	for _, x := range inputs {
		o, err := ref(clone(x))
		if kind == "filter" {
			lg.Add(rec.Ev{E: "fx", V: in.id(x), I: 0, B: err == nil})
		} else if err != nil {
			lg.Add(rec.Ev{E: "fx", V: in.id(x), I: 0, B: false})
		} else {
			lg.Add(rec.Ev{E: "fx", V: in.id(x), I: in.id(o), B: true})
		}
	}
	src := ro.NewUnsafeObservableWithContext(func(ctx context.Context, d ro.Observer[I]) ro.Teardown {
		ctx = context.WithValue(ctx, rec.KeyMid, true) // a value attached upstream of the plugin operator
		for _, x := range inputs {
			d.NextWithContext(ctx, x)
		}
		d.CompleteWithContext(ctx)
		return func() { lg.Add(rec.Ev{E: "torn"}) }
	})
	var delivered []O
	func() {
		defer func() {
			if e := recover(); e != nil {
				lg.Add(rec.Ev{E: "panic", S: fmt.Sprint(e)})
			}
		}()
		sub := op(src).SubscribeWithContext(context.WithValue(context.Background(), rec.KeySub, true), ro.NewObserverWithContext(
			func(ctx context.Context, v O) {
				delivered = append(delivered, v)
				lg.Add(rec.Ev{E: "out", K: "N", V: in.id(v)})
				lg.Add(rec.Ev{E: "octx", B: ctxKept(ctx)})
				if ctx == nil {
					lg.Add(rec.Ev{E: "panic", S: "nil context"})
				}
			},
			func(ctx context.Context, err error) {
				lg.Add(rec.Ev{E: "out", K: "E"})
				lg.Add(rec.Ev{E: "octx", B: ctxKept(ctx)})
			},
			func(ctx context.Context) {
				lg.Add(rec.Ev{E: "out", K: "C"})
				lg.Add(rec.Ev{E: "octx", B: ctxKept(ctx)})
			},
		))
		sub.Unsubscribe()
	}()
	for i, x := range inputs {
		lg.Add(rec.Ev{E: "after", I: i + 1, V: in.id(x)})
	}
	for j, v := range delivered {
		lg.Add(rec.Ev{E: "outafter", I: j + 1, V: in.id(v)})
	}
	lg.Add(rec.Ev{E: "end"})
}

// ctxKept: the callback context carries the marker attached at subscription and the one the source attached to its notifications.
func ctxKept(ctx context.Context) bool {
	return ctx != nil && ctx.Value(rec.KeySub) != nil && ctx.Value(rec.KeyMid) != nil
}

func errIf(b bool) error {
	if b {
		return nil
	}
	return fmt.Errorf("rejected")
}

// ---- input domains -----------------------------------------------------------------------------------------------------

func texts(r *rand.Rand) []string {
	base := []string{"", "0", "-1", "42", "+7", " 12", "1e3", "3.14", "-0", "9223372036854775807", "9223372036854775808", "18446744073709551616", "0x1F", "077", "1_000",
		"true", "false", "TRUE", "t", "yes", "abc", "hello world", "Hello, World!", "snake_case_words", "kebab-case-words", "camelCaseWords", "PascalCaseWords",
		"héllo wörld ünïcode", "日本語テキスト", "\xff\xfe\xfd", "a\x00b", "\"quoted\"", "'q'", "\\n", "tab\there", "  spaced   out  ", "MiXeD cAsE 123", "x", strings.Repeat("long ", 300),
		"2024-02-29", "2023-02-29", "2024-13-01", "2024-01-15T10:30:00Z", "foo123bar456", "aaa", "no-digits", "12ab", "ab12"}
	n := 4 + r.Intn(8)
	out := make([]string, n)
	for i := range out {
		out[i] = base[r.Intn(len(base))]
	}
	return out
}

type scenario func(lg *rec.Log, r *rand.Rand)

var reDigits = regexp.MustCompile(`[0-9]+`)
var reWord = regexp.MustCompile(`(\w)(\w*)`)

type payload struct {
	A int
	B string
	C []float64
	D map[string]int
}

func payloads(r *rand.Rand) []payload {
	n := 2 + r.Intn(5)
	out := make([]payload, n)
	for i := range out {
		out[i] = payload{A: r.Intn(1000) - 500, B: texts(r)[0], C: []float64{r.Float64(), -1.5}, D: map[string]int{"k": i}}
		if r.Intn(3) == 0 {
			out[i].C = nil
			out[i].D = nil
		}
	}
	return out
}

// Scenarios is the registry: name -> run one seeded scenario.
var Scenarios = map[string]scenario{
	// ------------------------------------------------------------------ strconv
	"strconv.Atoi": func(lg *rec.Log, r *rand.Rand) {
		runLift(lg, "strconv.Atoi", "maperr", texts(r), rostrconv.Atoi[string](), strconv.Atoi)
	},
	"strconv.ParseInt": func(lg *rec.Log, r *rand.Rand) {
		base, bits := []int{0, 2, 8, 10, 16, 36}[r.Intn(6)], []int{0, 8, 16, 32, 64}[r.Intn(5)]
		runLift(lg, fmt.Sprintf("strconv.ParseInt(%d,%d)", base, bits), "maperr", texts(r), rostrconv.ParseInt[string](base, bits), func(s string) (int64, error) { return strconv.ParseInt(s, base, bits) })
	},
	"strconv.ParseUint": func(lg *rec.Log, r *rand.Rand) {
		base, bits := []int{0, 2, 10, 16}[r.Intn(4)], []int{0, 8, 32, 64}[r.Intn(4)]
		runLift(lg, fmt.Sprintf("strconv.ParseUint(%d,%d)", base, bits), "maperr", texts(r), rostrconv.ParseUint[string](base, bits), func(s string) (uint64, error) { return strconv.ParseUint(s, base, bits) })
	},
	"strconv.ParseFloat": func(lg *rec.Log, r *rand.Rand) {
		bits := []int{32, 64}[r.Intn(2)]
		runLift(lg, fmt.Sprintf("strconv.ParseFloat(%d)", bits), "maperr", texts(r), rostrconv.ParseFloat[string](bits), func(s string) (float64, error) { return strconv.ParseFloat(s, bits) })
	},
	"strconv.ParseBool": func(lg *rec.Log, r *rand.Rand) {
		runLift(lg, "strconv.ParseBool", "maperr", texts(r), rostrconv.ParseBool[string](), strconv.ParseBool)
	},
	"strconv.Itoa": func(lg *rec.Log, r *rand.Rand) {
		runLift(lg, "strconv.Itoa", "map", []int{0, -1, 42, 1 << 40, -(1 << 62), r.Int()}, rostrconv.Itoa(), func(i int) (string, error) { return strconv.Itoa(i), nil })
	},
	"strconv.FormatInt": func(lg *rec.Log, r *rand.Rand) {
		base := []int{2, 8, 10, 16, 36}[r.Intn(5)]
		runLift(lg, fmt.Sprintf("strconv.FormatInt(%d)", base), "map", []int64{0, -1, 255, 1 << 40, -(1 << 62), r.Int63()}, rostrconv.FormatInt[string](base), func(i int64) (string, error) { return strconv.FormatInt(i, base), nil })
	},
	"strconv.FormatBool": func(lg *rec.Log, r *rand.Rand) {
		runLift(lg, "strconv.FormatBool", "map", []bool{true, false, true}, rostrconv.FormatBool(), func(b bool) (string, error) { return strconv.FormatBool(b), nil })
	},
	"strconv.FormatFloat": func(lg *rec.Log, r *rand.Rand) {
		f, prec, bits := []byte{'f', 'e', 'g'}[r.Intn(3)], []int{-1, 0, 2, 6}[r.Intn(4)], []int{32, 64}[r.Intn(2)]
		runLift(lg, "strconv.FormatFloat", "map", []float64{0, -0.5, 3.14159, 1e21, 1e-7, r.NormFloat64()}, rostrconv.FormatFloat(f, prec, bits), func(x float64) (string, error) { return strconv.FormatFloat(x, f, prec, bits), nil })
	},
	"strconv.Quote": func(lg *rec.Log, r *rand.Rand) {
		runLift(lg, "strconv.Quote", "map", texts(r), rostrconv.Quote(), func(s string) (string, error) { return strconv.Quote(s), nil })
	},
	"strconv.Unquote": func(lg *rec.Log, r *rand.Rand) {
		in := texts(r)
		for i := range in {
			if r.Intn(2) == 0 {
				in[i] = strconv.Quote(in[i])
			}
		}
		runLift(lg, "strconv.Unquote", "maperr", in, rostrconv.Unquote(), strconv.Unquote)
	},
	"strconv.roundtrip": func(lg *rec.Log, r *rand.Rand) {
		// Quote then Unquote is the identity
		in := &interner{ids: map[string]int{}}
		lg.Add(rec.Ev{E: "hdr", S: "strconv.Quote|Unquote", K: "roundtrip"})
		xs := texts(r)
		vals, err := ro.Collect(ro.Pipe2(ro.FromSlice(xs), rostrconv.Quote(), rostrconv.Unquote()))
		for i := range vals {
			lg.Add(rec.Ev{E: "rt", V: in.id(xs[i]), I: in.id(vals[i])})
		}
		lg.Add(rec.Ev{E: "out", K: map[bool]string{true: "C", false: "E"}[err == nil && len(vals) == len(xs)]})
		lg.Add(rec.Ev{E: "torn"})
		lg.Add(rec.Ev{E: "end"})
	},
	// ------------------------------------------------------------------ regexp
	"regexp.FindString": func(lg *rec.Log, r *rand.Rand) {
		runLift(lg, "regexp.FindString", "map", texts(r), roregexp.FindString[string](reDigits), func(s string) (string, error) { return reDigits.FindString(s), nil })
	},
	"regexp.Find": func(lg *rec.Log, r *rand.Rand) {
		runLift(lg, "regexp.Find", "map", toBytes(texts(r)), roregexp.Find[[]byte](reDigits), func(s []byte) ([]byte, error) { return reDigits.Find(s), nil })
	},
	"regexp.FindAllString": func(lg *rec.Log, r *rand.Rand) {
		n := []int{-1, 0, 1, 2}[r.Intn(4)]
		runLift(lg, fmt.Sprintf("regexp.FindAllString(%d)", n), "map", texts(r), roregexp.FindAllString[string](reDigits, n), func(s string) ([]string, error) { return reDigits.FindAllString(s, n), nil })
	},
	"regexp.FindStringSubmatch": func(lg *rec.Log, r *rand.Rand) {
		runLift(lg, "regexp.FindStringSubmatch", "map", texts(r), roregexp.FindStringSubmatch[string](reWord), func(s string) ([]string, error) { return reWord.FindStringSubmatch(s), nil })
	},
	"regexp.MatchString": func(lg *rec.Log, r *rand.Rand) {
		runLift(lg, "regexp.MatchString", "map", texts(r), roregexp.MatchString[string](reDigits), func(s string) (bool, error) { return reDigits.MatchString(s), nil })
	},
	"regexp.Match": func(lg *rec.Log, r *rand.Rand) {
		runLift(lg, "regexp.Match", "map", toBytes(texts(r)), roregexp.Match[[]byte](reDigits), func(s []byte) (bool, error) { return reDigits.Match(s), nil })
	},
	"regexp.ReplaceAllString": func(lg *rec.Log, r *rand.Rand) {
		runLift(lg, "regexp.ReplaceAllString", "map", texts(r), roregexp.ReplaceAllString[string](reDigits, "<$0>"), func(s string) (string, error) { return reDigits.ReplaceAllString(s, "<$0>"), nil })
	},
	"regexp.ReplaceAll": func(lg *rec.Log, r *rand.Rand) {
		runLift(lg, "regexp.ReplaceAll", "map", toBytes(texts(r)), roregexp.ReplaceAll[[]byte](reDigits, []byte("<$0>")), func(s []byte) ([]byte, error) { return reDigits.ReplaceAll(s, []byte("<$0>")), nil })
	},
	"regexp.FilterMatchString": func(lg *rec.Log, r *rand.Rand) {
		runLift(lg, "regexp.FilterMatchString", "filter", texts(r), roregexp.FilterMatchString[string](reDigits), func(s string) (string, error) { return s, errIf(reDigits.MatchString(s)) })
	},
	"regexp.FilterMatch": func(lg *rec.Log, r *rand.Rand) {
		runLift(lg, "regexp.FilterMatch", "filter", toBytes(texts(r)), roregexp.FilterMatch[[]byte](reDigits), func(s []byte) ([]byte, error) { return s, errIf(reDigits.Match(s)) })
	},
	// ------------------------------------------------------------------ strings / bytes siblings
	"strings~bytes": func(lg *rec.Log, r *rand.Rand) {
		in := &interner{ids: map[string]int{}}
		xs := texts(r)
		pairs := []struct {
			name string
			s    func(ro.Observable[string]) ro.Observable[string]
			b    func(ro.Observable[[]byte]) ro.Observable[[]byte]
		}{
			{"CamelCase", rostrings.CamelCase[string](), robytes.CamelCase[[]byte]()},
			{"PascalCase", rostrings.PascalCase[string](), robytes.PascalCase[[]byte]()},
			{"SnakeCase", rostrings.SnakeCase[string](), robytes.SnakeCase[[]byte]()},
			{"KebabCase", rostrings.KebabCase[string](), robytes.KebabCase[[]byte]()},
			{"Capitalize", rostrings.Capitalize[string](), robytes.Capitalize[[]byte]()},
			{"Ellipsis", rostrings.Ellipsis[string](5), robytes.Ellipsis[[]byte](5)},
		}
		p := pairs[r.Intn(len(pairs))]
		lg.Add(rec.Ev{E: "hdr", S: "strings~bytes." + p.name, K: "sibling"})
		sv, err1 := ro.Collect(p.s(ro.FromSlice(xs)))
		bs := toBytes(xs)
		keep := toBytes(xs)
		bv, err2 := ro.Collect(p.b(ro.FromSlice(bs)))
		for i := 0; i < len(sv) && i < len(bv); i++ {
			lg.Add(rec.Ev{E: "sib", V: in.id(sv[i]), I: in.id(string(bv[i])), B: isASCII(xs[i])})
		}
		for i := range bs { // the byte flavour must not modify the slice it was handed
			lg.Add(rec.Ev{E: "rt", V: in.id(string(keep[i])), I: in.id(string(bs[i]))})
		}
		ok := err1 == nil && err2 == nil && len(sv) == len(xs) && len(bv) == len(xs)
		lg.Add(rec.Ev{E: "out", K: map[bool]string{true: "C", false: "E"}[ok]})
		if !ok {
			lg.Add(rec.Ev{E: "panic", S: fmt.Sprintf("sibling runs differ in length or failed: %v %v %d %d", err1, err2, len(sv), len(bv))})
		}
		lg.Add(rec.Ev{E: "torn"})
		lg.Add(rec.Ev{E: "end"})
	},
	// ------------------------------------------------------------------ encodings
	"base64": func(lg *rec.Log, r *rand.Rand) {
		enc := []*base64.Encoding{base64.StdEncoding, base64.URLEncoding, base64.RawStdEncoding}[r.Intn(3)]
		runLift(lg, "base64.Encode", "map", toBytes(texts(r)), robase64.Encode[[]byte](enc), func(b []byte) (string, error) { return enc.EncodeToString(b), nil })
	},
	"base64.Decode": func(lg *rec.Log, r *rand.Rand) {
		enc := base64.StdEncoding
		in := texts(r)
		for i := range in {
			if r.Intn(2) == 0 {
				in[i] = enc.EncodeToString([]byte(in[i]))
			}
		}
		runLift(lg, "base64.Decode", "maperr", in, robase64.Decode[string](enc), func(s string) ([]byte, error) { return enc.DecodeString(s) })
	},
	"json.Marshal": func(lg *rec.Log, r *rand.Rand) {
		runLift(lg, "json.Marshal", "maperr", payloads(r), rojson.Marshal[payload](), func(p payload) ([]byte, error) { return json.Marshal(p) })
	},
	"json.Unmarshal": func(lg *rec.Log, r *rand.Rand) {
		var in [][]byte
		for _, p := range payloads(r) {
			b, _ := json.Marshal(p)
			if r.Intn(4) == 0 {
				b = b[:len(b)/2] // malformed
			}
			in = append(in, b)
		}
		runLift(lg, "json.Unmarshal", "maperr", in, rojson.Unmarshal[payload](), func(b []byte) (payload, error) { var p payload; err := json.Unmarshal(b, &p); return p, err })
	},
	"json.Marshal.ptrmethods": func(lg *rec.Log, r *rand.Rand) {
		// a type with (and a type containing by value a type with) marshalling methods on POINTER receivers: json.Marshal(item) does not use them
		in := []reading{{Sensor: "a", T: temp(21.5)}, {Sensor: "b", T: temp(-3)}, {Sensor: "", T: temp(0)}}
		runLift(lg, "json.Marshal(pointer-receiver methods)", "maperr", in, rojson.Marshal[reading](), func(p reading) ([]byte, error) { return json.Marshal(p) })
	},
	"gob.Encode.shared": func(lg *rec.Log, r *rand.Rand) {
		// ONE operator value subscribed from two goroutines at the same time, each over its own items; every output must still be gob(item)
		in := &interner{ids: map[string]int{}}
		lg.Add(rec.Ev{E: "hdr", S: "gob.Encode (one operator value, two concurrent subscriptions)", K: "roundtrip"})
		op := rogob.Encode[slowItem]()
		var wg sync.WaitGroup
		type res struct {
			items []slowItem
			outs  [][]byte
			err   error
		}
		rs := make([]res, 2)
		for g := 0; g < 2; g++ {
			g := g
			for j := 0; j < 4; j++ {
				rs[g].items = append(rs[g].items, slowItem{ID: 100*g + j, Name: strings.Repeat(string(rune('a'+g)), 5+j)})
			}
			wg.Add(1)
			go func() {
				defer wg.Done()
				rs[g].outs, rs[g].err = ro.Collect(op(ro.FromSlice(rs[g].items)))
			}()
		}
		wg.Wait()
		ok := true
		for g := range rs {
			ok = ok && rs[g].err == nil && len(rs[g].outs) == len(rs[g].items)
			for j := 0; j < len(rs[g].outs) && j < len(rs[g].items); j++ {
				var buf bytes.Buffer
				_ = gob.NewEncoder(&buf).Encode(rs[g].items[j])
				lg.Add(rec.Ev{E: "rt", V: in.id(buf.Bytes()), I: in.id(rs[g].outs[j])})
			}
		}
		lg.Add(rec.Ev{E: "out", K: map[bool]string{true: "C", false: "E"}[ok]})
		lg.Add(rec.Ev{E: "torn"})
		lg.Add(rec.Ev{E: "end"})
	},
	"gob.roundtrip": func(lg *rec.Log, r *rand.Rand) {
		in := &interner{ids: map[string]int{}}
		lg.Add(rec.Ev{E: "hdr", S: "gob.Encode|Decode", K: "roundtrip"})
		xs := payloads(r)
		vals, err := ro.Collect(ro.Pipe2(ro.FromSlice(xs), rogob.Encode[payload](), rogob.Decode[payload]()))
		for i := range vals {
			lg.Add(rec.Ev{E: "rt", V: in.id(normPayload(xs[i])), I: in.id(normPayload(vals[i]))})
		}
		lg.Add(rec.Ev{E: "out", K: map[bool]string{true: "C", false: "E"}[err == nil && len(vals) == len(xs)]})
		lg.Add(rec.Ev{E: "torn"})
		lg.Add(rec.Ev{E: "end"})
	},
	"gob.Encode": func(lg *rec.Log, r *rand.Rand) {
		runLift(lg, "gob.Encode", "maperr", payloads(r), rogob.Encode[payload](), func(p payload) ([]byte, error) {
			var buf bytes.Buffer
			err := gob.NewEncoder(&buf).Encode(p)
			return buf.Bytes(), err
		})
	},
	// ------------------------------------------------------------------ time / template
	"time.Format": func(lg *rec.Log, r *rand.Rand) {
		layout := []string{time.RFC3339, time.RFC1123, "2006-01-02", time.Kitchen}[r.Intn(4)]
		runLift(lg, "time.Format", "map", times(r), rotime.Format(layout), func(t time.Time) (string, error) { return t.Format(layout), nil })
	},
	"time.Parse": func(lg *rec.Log, r *rand.Rand) {
		layout := []string{time.RFC3339, "2006-01-02"}[r.Intn(2)]
		runLift(lg, "time.Parse", "maperr", texts(r), rotime.Parse[string](layout), func(s string) (time.Time, error) { return time.Parse(layout, s) })
	},
	"time.Add": func(lg *rec.Log, r *rand.Rand) {
		d := time.Duration(r.Intn(1e9)) * time.Microsecond
		runLift(lg, "time.Add", "map", times(r), rotime.Add(d), func(t time.Time) (time.Time, error) { return t.Add(d), nil })
	},
	"time.AddDate": func(lg *rec.Log, r *rand.Rand) {
		y, m, d := r.Intn(3), r.Intn(14), r.Intn(40)
		runLift(lg, "time.AddDate", "map", times(r), rotime.AddDate(y, m, d), func(t time.Time) (time.Time, error) { return t.AddDate(y, m, d), nil })
	},
	"time.StartOfDay": func(lg *rec.Log, r *rand.Rand) {
		// midnight of the same calendar day IN THE VALUE'S LOCATION (daylight-saving switch days included: the day is 23 or 25 hours long)
		runLift(lg, "time.StartOfDay", "map", zonedTimes(r), rotime.StartOfDay(), func(t time.Time) (time.Time, error) {
			y, m, d := t.Date()
			return time.Date(y, m, d, 0, 0, 0, 0, t.Location()), nil
		})
	},
	"time.In": func(lg *rec.Log, r *rand.Rand) {
		loc := zones()[r.Intn(len(zones()))]
		runLift(lg, "time.In", "map", zonedTimes(r), rotime.In(loc), func(t time.Time) (time.Time, error) { return t.In(loc), nil })
	},
	"template.Text": func(lg *rec.Log, r *rand.Rand) {
		tpl := "A={{.A}} B={{.B}} {{range .C}}[{{.}}]{{end}}"
		t := ttemplate.Must(ttemplate.New("t").Parse(tpl))
		runLift(lg, "template.TextTemplate", "maperr", payloads(r), rotemplate.TextTemplate[payload](tpl), func(p payload) (string, error) {
			var buf bytes.Buffer
			err := t.Execute(&buf, p)
			return buf.String(), err
		})
	},
	"template.HTML": func(lg *rec.Log, r *rand.Rand) {
		tpl := "<b>{{.B}}</b>{{.A}}"
		t := template.Must(template.New("t").Parse(tpl))
		runLift(lg, "template.HTMLTemplate", "maperr", payloads(r), rotemplate.HTMLTemplate[payload](tpl), func(p payload) (string, error) {
			var buf bytes.Buffer
			err := t.Execute(&buf, p)
			return buf.String(), err
		})
	},
	// ------------------------------------------------------------------ sort
	"sort": func(lg *rec.Log, r *rand.Rand) {
		type item struct{ Key, Tag int }
		sortRound++
		variant := []string{"SortStableFunc", "SortFunc", "Sort"}[sortRound%3] // every variant in turn
		n := []int{0, 1, 2, 11, 12, 13, 30, 200}[r.Intn(8)]                    // the standard library switches algorithm at 12 elements
		if variant == "SortStableFunc" && (sortRound/3)%4 != 3 {
			n = []int{13, 30, 200}[r.Intn(3)] // stability only shows above the insertion-sort threshold
		}
		nkeys := 1 + r.Intn(4)
		items := make([]item, n)
		for i := range items {
			items[i] = item{Key: r.Intn(nkeys), Tag: i + 1}
		}
		lg.Add(rec.Ev{E: "hdr", S: "sort." + variant, K: "sort", B: variant == "SortStableFunc"})
		for i := range items {
			lg.Add(rec.Ev{E: "in", I: i + 1, V: i + 1})
			lg.Add(rec.Ev{E: "key", I: i + 1, V: items[i].Key})
		}
		cmp := func(a, b item) int { return a.Key - b.Key }
		src := ro.NewUnsafeObservableWithContext(func(ctx context.Context, d ro.Observer[item]) ro.Teardown {
			ctx = context.WithValue(ctx, rec.KeyMid, true) // a value attached upstream of the plugin operator
			for _, x := range items {
				d.NextWithContext(ctx, x)
			}
			d.CompleteWithContext(ctx)
			return func() { lg.Add(rec.Ev{E: "torn"}) }
		})
		var o ro.Observable[item]
		switch variant {
		case "SortFunc":
			o = rosort.SortFunc(cmp)(src)
		case "SortStableFunc":
			o = rosort.SortStableFunc(cmp)(src)
		default:
			// Sort works on ordered values: sort the (distinct) encodings key*1000+tag and map back
			enc := ro.Map(func(x item) int { return x.Key*1000 + x.Tag })(src)
			o = ro.Map(func(v int) item { return item{Key: v / 1000, Tag: v % 1000} })(rosort.Sort(func(a, b int) int { return a - b })(enc))
		}
		sub := o.SubscribeWithContext(context.WithValue(context.Background(), rec.KeySub, true), ro.NewObserverWithContext(
			func(ctx context.Context, v item) {
				lg.Add(rec.Ev{E: "out", K: "N", V: v.Tag})
				lg.Add(rec.Ev{E: "octx", B: ctxKept(ctx)})
			},
			func(ctx context.Context, err error) {
				lg.Add(rec.Ev{E: "out", K: "E"})
				lg.Add(rec.Ev{E: "octx", B: ctxKept(ctx)})
			},
			func(ctx context.Context) {
				lg.Add(rec.Ev{E: "out", K: "C"})
				lg.Add(rec.Ev{E: "octx", B: ctxKept(ctx)})
			},
		))
		sub.Unsubscribe()
		lg.Add(rec.Ev{E: "end"})
	},
	"strconv.FormatUint": func(lg *rec.Log, r *rand.Rand) {
		base := []int{2, 10, 16, 36}[r.Intn(4)]
		runLift(lg, fmt.Sprintf("strconv.FormatUint(%d)", base), "map", []uint64{0, 1, 255, 1 << 40, 1<<64 - 1, r.Uint64()}, rostrconv.FormatUint[string](base), func(i uint64) (string, error) { return strconv.FormatUint(i, base), nil })
	},
	"strconv.FormatComplex": func(lg *rec.Log, r *rand.Rand) {
		f, prec, bits := []byte{'f', 'e', 'g'}[r.Intn(3)], []int{-1, 0, 3}[r.Intn(3)], []int{64, 128}[r.Intn(2)]
		runLift(lg, "strconv.FormatComplex", "map", []complex128{0, complex(1, -1), complex(3.14159, 1e21), complex(r.NormFloat64(), r.NormFloat64())}, rostrconv.FormatComplex(f, prec, bits), func(x complex128) (string, error) { return strconv.FormatComplex(x, f, prec, bits), nil })
	},
	"strconv.ParseUint64": func(lg *rec.Log, r *rand.Rand) {
		base, bits := []int{0, 2, 10, 16}[r.Intn(4)], []int{8, 32, 64}[r.Intn(3)]
		runLift(lg, fmt.Sprintf("strconv.ParseUint64(%d,%d)", base, bits), "maperr", texts(r), rostrconv.ParseUint64[string](base, bits), func(s string) (uint64, error) { return strconv.ParseUint(s, base, bits) })
	},
	"strconv.QuoteRune": func(lg *rec.Log, r *rand.Rand) {
		runLift(lg, "strconv.QuoteRune", "map", []rune{'a', '\n', '\'', 0, 0x65e5, 0xfffd, 0x10ffff, -1}, rostrconv.QuoteRune(), func(c rune) (string, error) { return strconv.QuoteRune(c), nil })
	},
	"regexp.FindAll": func(lg *rec.Log, r *rand.Rand) {
		n := []int{-1, 0, 1, 2}[r.Intn(4)]
		runLift(lg, fmt.Sprintf("regexp.FindAll(%d)", n), "map", toBytes(texts(r)), roregexp.FindAll[[]byte](reDigits, n), func(s []byte) ([][]byte, error) { return reDigits.FindAll(s, n), nil })
	},
	"regexp.FindSubmatch": func(lg *rec.Log, r *rand.Rand) {
		runLift(lg, "regexp.FindSubmatch", "map", toBytes(texts(r)), roregexp.FindSubmatch[[]byte](reWord), func(s []byte) ([][]byte, error) { return reWord.FindSubmatch(s), nil })
	},
	"regexp.FindAllSubmatch": func(lg *rec.Log, r *rand.Rand) {
		n := []int{-1, 0, 1, 2}[r.Intn(4)]
		runLift(lg, fmt.Sprintf("regexp.FindAllSubmatch(%d)", n), "map", toBytes(texts(r)), roregexp.FindAllSubmatch[[]byte](reWord, n), func(s []byte) ([][][]byte, error) { return reWord.FindAllSubmatch(s, n), nil })
	},
	"regexp.FindAllStringSubmatch": func(lg *rec.Log, r *rand.Rand) {
		n := []int{-1, 0, 1, 2}[r.Intn(4)]
		runLift(lg, fmt.Sprintf("regexp.FindAllStringSubmatch(%d)", n), "map", texts(r), roregexp.FindAllStringSubmatch[string](reWord, n), func(s string) ([][]string, error) { return reWord.FindAllStringSubmatch(s, n), nil })
	},
	"time.ParseInLocation": func(lg *rec.Log, r *rand.Rand) {
		layout := []string{"2006-01-02 15:04", "2006-01-02"}[r.Intn(2)]
		loc := time.UTC
		if l, err := time.LoadLocation([]string{"Europe/Paris", "America/New_York", "Australia/Lord_Howe"}[r.Intn(3)]); err == nil {
			loc = l
		}
		in := append(texts(r), "2024-03-31 02:30", "2024-10-27 02:30", "2024-03-10 02:30", "2024-02-29") // local times that do not exist / exist twice
		runLift(lg, "time.ParseInLocation", "maperr", in, rotime.ParseInLocation[string](layout, loc), func(s string) (time.Time, error) { return time.ParseInLocation(layout, s, loc) })
	},
	"strings~bytes.Words": func(lg *rec.Log, r *rand.Rand) {
		in := &interner{ids: map[string]int{}}
		xs := texts(r)
		lg.Add(rec.Ev{E: "hdr", S: "strings~bytes.Words", K: "sibling"})
		sv, err1 := ro.Collect(rostrings.Words[string]()(ro.FromSlice(xs)))
		bs := toBytes(xs)
		keep := toBytes(xs)
		bv, err2 := ro.Collect(robytes.Words[[]byte]()(ro.FromSlice(bs)))
		for i := 0; i < len(sv) && i < len(bv); i++ {
			bw := make([]string, len(bv[i]))
			for j := range bv[i] {
				bw[j] = string(bv[i][j])
			}
			lg.Add(rec.Ev{E: "sib", V: in.id(strings.Join(sv[i], "\x1f")), I: in.id(strings.Join(bw, "\x1f")), B: isASCII(xs[i])})
		}
		for i := range bs {
			lg.Add(rec.Ev{E: "rt", V: in.id(string(keep[i])), I: in.id(string(bs[i]))})
		}
		ok := err1 == nil && err2 == nil && len(sv) == len(xs) && len(bv) == len(xs)
		lg.Add(rec.Ev{E: "out", K: map[bool]string{true: "C", false: "E"}[ok]})
		if !ok {
			lg.Add(rec.Ev{E: "panic", S: fmt.Sprintf("sibling runs differ in length or failed: %v %v %d %d", err1, err2, len(sv), len(bv))})
		}
		lg.Add(rec.Ev{E: "torn"})
		lg.Add(rec.Ev{E: "end"})
	},
	// ------------------------------------------------------------------ CSV reader / writer, io.Writer sink
	"csv.reader": func(lg *rec.Log, r *rand.Rand) {
		// records of awkward fields, written by encoding/csv itself; one run in three is damaged (a bare quote, or a record with one field less)
		n := 1 + r.Intn(6)
		nf := 1 + r.Intn(3)
		pool := []string{"", "a", "b c", "x,y", "he said \"hi\"", "line\nbreak", " lead", "trail ", "é", "1", "-2.5", "'q'", ";", "\t"}
		var buf bytes.Buffer
		w := csv.NewWriter(&buf)
		for i := 0; i < n; i++ {
			rec0 := make([]string, nf)
			for j := range rec0 {
				rec0[j] = pool[r.Intn(len(pool))]
			}
			_ = w.Write(rec0)
		}
		w.Flush()
		text := buf.String()
		switch r.Intn(3) {
		case 0:
			lines := strings.SplitAfter(text, "\n")
			k := r.Intn(len(lines))
			if r.Intn(2) == 0 {
				lines[k] = "oops\"bare," + lines[k]
			} else if nf > 1 {
				lines[k] = "short\n" + lines[k]
			}
			text = strings.Join(lines, "")
		}
		in := &interner{ids: map[string]int{}}
		lg.Add(rec.Ev{E: "hdr", S: "csv.NewCSVReader", K: "maperr"})
		// the graph of the wrapped function: csv.Reader.Read called until it fails or reports io.EOF
		ref := csv.NewReader(strings.NewReader(text))
		type res struct {
			rec []string
			ok  bool
		}
		var want []res
		for {
			rc, err := ref.Read()
			if err == io.EOF {
				break
			}
			want = append(want, res{rc, err == nil})
			if err != nil {
				break
			}
		}
		for i := range want {
			lg.Add(rec.Ev{E: "in", I: i + 1, V: 1000 + i})
		}
		for i, x := range want {
			if x.ok {
				lg.Add(rec.Ev{E: "fx", V: 1000 + i, I: in.id(x.rec), B: true})
			} else {
				lg.Add(rec.Ev{E: "fx", V: 1000 + i, I: 0, B: false})
			}
		}
		var delivered [][]string
		sub := rocsv.NewCSVReader(csv.NewReader(strings.NewReader(text))).SubscribeWithContext(context.WithValue(context.Background(), rec.KeySub, true), ro.NewObserverWithContext(
			func(ctx context.Context, v []string) {
				delivered = append(delivered, v)
				lg.Add(rec.Ev{E: "out", K: "N", V: in.id(v)})
				lg.Add(rec.Ev{E: "octx", B: ctx != nil && ctx.Value(rec.KeySub) != nil})
			},
			func(ctx context.Context, err error) {
				lg.Add(rec.Ev{E: "out", K: "E"})
				lg.Add(rec.Ev{E: "octx", B: ctx != nil && ctx.Value(rec.KeySub) != nil})
			},
			func(ctx context.Context) {
				lg.Add(rec.Ev{E: "out", K: "C"})
				lg.Add(rec.Ev{E: "octx", B: ctx != nil && ctx.Value(rec.KeySub) != nil})
			},
		))
		sub.Unsubscribe()
		for j, v := range delivered { // a delivered record must not change afterwards
			lg.Add(rec.Ev{E: "outafter", I: j + 1, V: in.id(v)})
		}
		lg.Add(rec.Ev{E: "torn"})
		lg.Add(rec.Ev{E: "end"})
	},
	"csv.writer": func(lg *rec.Log, r *rand.Rand) {
		// rows through NewCSVWriter into a csv.Writer over a sink that may fail from its k-th Write on; the reference is csv.Writer itself
		// (Write per row, then Flush and Error): items = the rows plus the final flush, weight 1 per row and 0 for the flush
		n := 1 + r.Intn(5)
		pool := []string{"", "a", "x,y", "q\"q", "line\nbreak", strings.Repeat("wide", 700)} // the wide field overflows csv.Writer's 4 KiB buffer: the sink is hit before the flush
		rows := make([][]string, n)
		for i := range rows {
			rows[i] = []string{pool[r.Intn(len(pool))], pool[r.Intn(len(pool))]}
		}
		failFrom := []int{0, 0, 1, 2}[r.Intn(4)] // 0 = the sink never fails
		refSink := &failingWriter{failFrom: failFrom}
		ref := csv.NewWriter(refSink)
		lg.Add(rec.Ev{E: "hdr", S: "csv.NewCSVWriter", K: "writer", B: false})
		for i := range rows {
			lg.Add(rec.Ev{E: "in", I: i + 1, V: 1})
		}
		lg.Add(rec.Ev{E: "in", I: n + 1, V: 0})
		for _, row := range rows {
			lg.Add(rec.Ev{E: "fx", B: ref.Write(row) == nil})
		}
		ref.Flush()
		lg.Add(rec.Ev{E: "fx", B: ref.Error() == nil})
		sink := &failingWriter{failFrom: failFrom}
		runSink(lg, rows, rocsv.NewCSVWriter(csv.NewWriter(sink)))
		if failFrom == 0 {
			// encoding followed by decoding is the identity
			back, err := csv.NewReader(bytes.NewReader(sink.buf.Bytes())).ReadAll()
			in := &interner{ids: map[string]int{}}
			if err != nil {
				back = nil
			}
			lg.Add(rec.Ev{E: "rt", V: in.id(rows), I: in.id(back)})
		}
		lg.Add(rec.Ev{E: "end"})
	},
	"stdio.writer": func(lg *rec.Log, r *rand.Rand) {
		// chunks through NewIOWriter into a writer that fails at its k-th Write (that call only, or from then on): the count is the bytes accepted
		// before the failure, the Error is the writer's, and nothing is written after the failure was reported
		n := 1 + r.Intn(6)
		chunks := make([][]byte, n)
		for i := range chunks {
			chunks[i] = []byte(strings.Repeat(string(rune('a'+i)), r.Intn(5)))
		}
		failFrom := []int{0, 0, 1, 2, 3}[r.Intn(5)]
		once := r.Intn(2) == 0
		lg.Add(rec.Ev{E: "hdr", S: "stdio.NewIOWriter", K: "writer", B: true})
		var prefix []byte
		failed := false
		for i, c := range chunks {
			lg.Add(rec.Ev{E: "in", I: i + 1, V: len(c)})
		}
		for i, c := range chunks {
			ok := failFrom == 0 || i+1 < failFrom || (once && i+1 > failFrom)
			if !failed {
				prefix = append(prefix, c...) // the failing Write call is still a call the writer sees
			}
			if !ok {
				failed = true
			}
			lg.Add(rec.Ev{E: "fx", B: ok})
		}
		lg.Add(rec.Ev{E: "src", V: len(prefix), I: hashBytes(prefix)})
		sink := &failingWriter{failFrom: failFrom, once: once, lg: lg}
		runSink(lg, chunks, rostdio.NewIOWriter(sink))
		lg.Add(rec.Ev{E: "end"})
	},
	// ------------------------------------------------------------------ stdio readers
	"stdio.reader": func(lg *rec.Log, r *rand.Rand) {
		// boundary sizes are cycled, not drawn: every run of 16 rounds covers both readers on every size (the huge line first)
		round := stdioRound
		stdioRound++
		line := round%2 == 0
		size := []int{70000, 0, 1, 1023, 1024, 1025, 2048, 5000}[(round/2)%8] // crosses the reader buffer size; 70000: one line longer than bufio's 64 KiB token limit
		data := make([]byte, size)
		for i := range data {
			data[i] = byte('a' + r.Intn(26))
			if line && size < 70000 && r.Intn(40) == 0 {
				data[i] = '\n'
			}
		}
		if line && size == 70000 {
			data[size-7] = '\n' // a huge first line, then a short one
		}
		name := "stdio.NewIOReader"
		if line {
			name = "stdio.NewIOReaderLine"
		}
		// the byte reader over a reader that ends with io.EOF or with an error of its own, alone or together with its last bytes (cycled with the sizes)
		ending := (round/2 + round/16) % 4 // shifts against the sizes every 8 pairs of rounds: every size meets every ending
		failing := !line && ending >= 2
		lg.Add(rec.Ev{E: "hdr", S: name, K: "reader", B: failing})
		want := data
		if line {
			want = bytes.ReplaceAll(data, []byte("\n"), nil) // the line reader strips the separators
		}
		lg.Add(rec.Ev{E: "src", V: len(want), I: hashBytes(want)})
		var o ro.Observable[[]byte]
		if line {
			o = rostdio.NewIOReaderLine(bytes.NewReader(data))
		} else {
			sr := &slowReader{data: data, r: r, withData: ending%2 == 1}
			if failing {
				sr.final = fmt.Errorf("reader: connection reset")
			}
			o = rostdio.NewIOReader(sr)
		}
		in := &interner{ids: map[string]int{}}
		var chunks [][]byte
		var at []int
		h := fnv.New32a()
		sub := o.SubscribeWithContext(context.Background(), ro.NewObserverWithContext(
			func(ctx context.Context, b []byte) {
				h.Write(b)
				chunks = append(chunks, b)
				at = append(at, in.id(string(b)))
				lg.Add(rec.Ev{E: "out", K: "N", V: at[len(at)-1]})
				lg.Add(rec.Ev{E: "chunk", V: len(b), I: int(h.Sum32() % 1000003)})
			},
			func(ctx context.Context, err error) { lg.Add(rec.Ev{E: "out", K: "E"}) },
			func(ctx context.Context) { lg.Add(rec.Ev{E: "out", K: "C"}) },
		))
		sub.Unsubscribe()
		for j, c := range chunks { // a delivered chunk must not change afterwards
			lg.Add(rec.Ev{E: "outafter", I: j + 1, V: in.id(string(c))})
		}
		lg.Add(rec.Ev{E: "torn"})
		lg.Add(rec.Ev{E: "end"})
	},
}

type temp float64

func (t *temp) MarshalJSON() ([]byte, error) {
	return []byte(fmt.Sprintf("\"%.1fC\"", float64(*t))), nil
}

type reading struct {
	Sensor string
	T      temp
}

// slowItem encodes slowly (a custom GobEncoder that yields), so that two concurrent encodings overlap
type slowItem struct {
	ID   int
	Name string
}

func (s slowItem) GobEncode() ([]byte, error) {
	time.Sleep(150 * time.Microsecond)
	return []byte(fmt.Sprintf("%d|%s", s.ID, s.Name)), nil
}

func (s *slowItem) GobDecode(b []byte) error {
	_, err := fmt.Sscanf(string(b), "%d|%s", &s.ID, &s.Name)
	return err
}

// slowReader hands its data out in pieces.  final: the error that ends it (nil = io.EOF); withData: the last piece is returned TOGETHER with
// that error, as the io.Reader contract allows ("callers should always process the n > 0 bytes returned before considering the error").
type slowReader struct {
	data     []byte
	r        *rand.Rand
	final    error
	withData bool
}

func (s *slowReader) end() error {
	if s.final != nil {
		return s.final
	}
	return io.EOF
}

func (s *slowReader) Read(p []byte) (int, error) {
	if len(s.data) == 0 {
		return 0, s.end()
	}
	n := len(p)
	if s.r.Intn(3) == 0 {
		n = 1 + s.r.Intn(len(p))
	}
	if n > len(s.data) {
		n = len(s.data)
	}
	copy(p, s.data[:n])
	s.data = s.data[n:]
	if len(s.data) == 0 && s.withData {
		return n, s.end()
	}
	return n, nil
}

func isASCII(s string) bool {
	for i := 0; i < len(s); i++ {
		if s[i] >= 0x80 {
			return false
		}
	}
	return true
}

// failingWriter accepts everything (failFrom = 0) or fails at its failFrom-th Write - that call only (once) or from then on; with a log it
// reports every Write call it sees as a `chunk` event (length, rolling hash of everything it was handed).
type failingWriter struct {
	failFrom int
	once     bool
	calls    int
	buf      bytes.Buffer
	seen     []byte
	lg       *rec.Log
}

func (w *failingWriter) Write(p []byte) (int, error) {
	w.calls++
	if w.lg != nil {
		w.seen = append(w.seen, p...)
		w.lg.Add(rec.Ev{E: "chunk", V: len(p), I: hashBytes(w.seen)})
	}
	if w.failFrom != 0 && (w.calls == w.failFrom || (!w.once && w.calls > w.failFrom)) {
		return 0, fmt.Errorf("sink: write %d refused", w.calls)
	}
	return w.buf.Write(p)
}

// runSink drives a sink operator (items in, one count out) over a synchronous source and logs its output, the release of the source and the contexts.
func runSink[I any](lg *rec.Log, items []I, op func(ro.Observable[I]) ro.Observable[int]) {
	src := ro.NewUnsafeObservableWithContext(func(ctx context.Context, d ro.Observer[I]) ro.Teardown {
		ctx = context.WithValue(ctx, rec.KeyMid, true)
		for _, x := range items {
			d.NextWithContext(ctx, x)
		}
		d.CompleteWithContext(ctx)
		return func() { lg.Add(rec.Ev{E: "torn"}) }
	})
	defer func() {
		if e := recover(); e != nil {
			lg.Add(rec.Ev{E: "panic", S: fmt.Sprint(e)})
		}
	}()
	sub := op(src).SubscribeWithContext(context.WithValue(context.Background(), rec.KeySub, true), ro.NewObserverWithContext(
		func(ctx context.Context, v int) {
			lg.Add(rec.Ev{E: "out", K: "N", V: v})
			lg.Add(rec.Ev{E: "octx", B: ctxKept(ctx)})
		},
		func(ctx context.Context, err error) {
			lg.Add(rec.Ev{E: "out", K: "E"})
			lg.Add(rec.Ev{E: "octx", B: ctxKept(ctx)})
		},
		func(ctx context.Context) {
			lg.Add(rec.Ev{E: "out", K: "C"})
			lg.Add(rec.Ev{E: "octx", B: ctxKept(ctx)})
		},
	))
	sub.Unsubscribe()
}

func hashBytes(b []byte) int {
	h := fnv.New32a()
	h.Write(b)
	return int(h.Sum32() % 1000003)
}

func toBytes(xs []string) [][]byte {
	out := make([][]byte, len(xs))
	for i := range xs {
		out[i] = []byte(xs[i])
	}
	return out
}

func times(r *rand.Rand) []time.Time {
	base := []time.Time{time.Unix(0, 0).UTC(), time.Date(2024, 2, 29, 23, 59, 59, 999999999, time.UTC), time.Date(2023, 12, 31, 0, 0, 0, 0, time.FixedZone("X", 5*3600+1800)), time.Date(1, 1, 1, 0, 0, 0, 0, time.UTC)}
	n := 2 + r.Intn(4)
	out := make([]time.Time, n)
	for i := range out {
		out[i] = base[r.Intn(len(base))].Add(time.Duration(r.Intn(1e6)) * time.Second)
	}
	return out
}

var stdioRound int

var sortRound = -1

var zoneCache []*time.Location

func zones() []*time.Location {
	if zoneCache == nil {
		for _, n := range []string{"Europe/Paris", "America/New_York", "Australia/Lord_Howe", "Asia/Kolkata", "UTC"} {
			if l, err := time.LoadLocation(n); err == nil {
				zoneCache = append(zoneCache, l)
			}
		}
		zoneCache = append(zoneCache, time.FixedZone("X", 5*3600+1800))
	}
	return zoneCache
}

// zonedTimes: instants around daylight-saving switches (and ordinary days) in real tz-database locations
func zonedTimes(r *rand.Rand) []time.Time {
	zs := zones()
	days := [][3]int{{2026, 3, 29}, {2026, 10, 25}, {2026, 3, 8}, {2026, 11, 1}, {2026, 4, 5}, {2026, 10, 4}, {2026, 6, 15}, {2024, 2, 29}}
	n := 3 + r.Intn(5)
	out := make([]time.Time, n)
	for i := range out {
		d := days[r.Intn(len(days))]
		out[i] = time.Date(d[0], time.Month(d[1]), d[2], r.Intn(24), r.Intn(60), r.Intn(60), r.Intn(1e9), zs[r.Intn(len(zs))])
	}
	return out
}

func normPayload(p payload) payload {
	if len(p.C) == 0 {
		p.C = nil
	}
	if len(p.D) == 0 {
		p.D = nil
	}
	return p
}

// Names returns the scenario names in a stable order.
func Names() []string {
	var ns []string
	for n := range Scenarios {
		ns = append(ns, n)
	}
	sort.Strings(ns)
	return ns
}
