package rec

import (
	"runtime"
	"sync/atomic"
	"time"
)

// Yielder is the "yield mode" of the verification hooks: at every hook point (lock boundaries and
// unlock-then-emit windows of the library) the calling goroutine yields or sleeps a little, decided by a
// seeded hash of a global counter, so that check-then-act windows are widened.
type Yielder struct {
	seed uint64
	n    uint64
	// Per1024 thresholds
	GoschedP uint64
	SleepP   uint64
}

func NewYielder(seed int64) *Yielder {
	return &Yielder{seed: uint64(seed)*0x9E3779B97F4A7C15 + 1, GoschedP: 300, SleepP: 60}
}

func mix(z uint64) uint64 {
	z = (z ^ (z >> 30)) * 0xbf58476d1ce4e5b9
	z = (z ^ (z >> 27)) * 0x94d049bb133111eb
	return z ^ (z >> 31)
}

func (y *Yielder) Hook(point string, obj any) {
	x := mix(y.seed + atomic.AddUint64(&y.n, 1)*0x9E3779B97F4A7C15)
	r := x % 1024
	switch {
	case r < y.SleepP:
		time.Sleep(time.Duration(5+(x>>10)%80) * time.Microsecond)
	case r < y.SleepP+y.GoschedP:
		runtime.Gosched()
	}
}
