package rec

import (
	"runtime"
	"sync/atomic"
	"time"
)

// Yielder is the "yield mode" of the verification hooks: at every hook point (lock boundaries and
// unlock-then-emit windows of the library) the calling goroutine yields or sleeps a little, decided by a
// seeded hash of a global counter, so that check-then-act windows are widened.
type Yielder struct {
	seed uint64
	n    uint64
	// Per1024 thresholds
	GoschedP uint64
	SleepP   uint64
}

func NewYielder(seed int64) *Yielder {
	return &Yielder{seed: uint64(seed)*0x9E3779B97F4A7C15 + 1, GoschedP: 300, SleepP: 60}
}

func mix(z uint64) uint64 {
	z = (z ^ (z >> 30)) * 0xbf58476d1ce4e5b9
	z = (z ^ (z >> 27)) * 0x94d049bb133111eb
	return z ^ (z >> 31)
}

func (y *Yielder) Hook(point string, obj any) {
	x := mix(y.seed + atomic.AddUint64(&y.n, 1)*0x9E3779B97F4A7C15)
	r := x % 1024
	switch {
	case r < y.SleepP:
		time.Sleep(time.Duration(5+(x>>10)%80) * time.Microsecond)
	case r < y.SleepP+y.GoschedP:
		runtime.Gosched()
	}
}

// Parker is the "park mode" of the verification hooks (schedule replay): ONE goroutine (the victim) is stopped at the
// j-th hook point it reaches; the driver then lets the other goroutines run (to completion, or until they block on
// something the victim holds) and releases the victim. Enumerating j = 1..H explores every placement of one
// preemption at a lock boundary / check-then-act window of the library - the schedules of the Level-2 models -
// deterministically.
type Parker struct {
	victim  uint64 // goroutine id
	at      int64
	n       int64
	parked  chan struct{}
	release chan struct{}
	Point   string
	once    int32
}

func NewParker(at int) *Parker {
	return &Parker{at: int64(at), parked: make(chan struct{}), release: make(chan struct{})}
}

func (p *Parker) SetVictim(gid uint64) { atomic.StoreUint64(&p.victim, gid) }

// Hits is the number of hook points the victim has reached.
func (p *Parker) Hits() int { return int(atomic.LoadInt64(&p.n)) }

func (p *Parker) Parked() <-chan struct{} { return p.parked }

func (p *Parker) Release() {
	if atomic.CompareAndSwapInt32(&p.once, 0, 1) {
		close(p.release)
	}
}

func (p *Parker) Hook(point string, obj any) {
	v := atomic.LoadUint64(&p.victim)
	if v == 0 || Gid() != v {
		return
	}
	if atomic.AddInt64(&p.n, 1) == p.at {
		p.Point = point
		close(p.parked)
		<-p.release
	}
}

// Gid returns the id of the calling goroutine.
func Gid() uint64 {
	var buf [64]byte
	n := runtime.Stack(buf[:], false)
	var id uint64
	for _, c := range buf[10:n] {
		if c < '0' || c > '9' {
			break
		}
		id = id*10 + uint64(c-'0')
	}
	return id
}
