// Package rec is the event log of the harness: every harness call, callback, teardown and return is appended
// under ONE mutex, so the order of the log is a legal real-time order of those instants (no clocks involved).
package rec

import (
	"bufio"
	"context"
	"encoding/json"
	"os"
	"runtime"
	"sync"
)

// Ev has a uniform schema so that TLC's ndJsonDeserialize yields records with the same fields for every event.
type Ev struct {
	T int    `json:"t"` // trace id
	E string `json:"e"` // event
	P int    `json:"p"` // harness thread / producer call owner
	O int    `json:"o"` // observer
	K string `json:"k"` // "N" | "E" | "C"
	V int    `json:"v"` // value / cause
	I int    `json:"i"` // teardown id, index, ...
	B bool   `json:"b"`
	S string `json:"s"`
	U int    `json:"u"` // microseconds since trace start (timed traces only)
}

type Log struct {
	mu  sync.Mutex
	evs []Ev
	T   int
}

// Quiet turns the log off (race-detector runs): the log mutex would order the goroutines of a scenario with each other at
// every event and hide unsynchronised accesses of the library from the detector.
var Quiet = os.Getenv("VERIF_QUIET_LOG") == "1"

func (l *Log) Add(e Ev) {
	if Quiet && e.E != "hdr" && e.E != "end" && e.E != "hang" {
		return
	}
	l.mu.Lock()
	e.T = l.T
	if e.K == "" {
		e.K = "N"
	}
	l.evs = append(l.evs, e)
	l.mu.Unlock()
}

func (l *Log) Events() []Ev {
	l.mu.Lock()
	defer l.mu.Unlock()
	out := make([]Ev, len(l.evs))
	copy(out, l.evs)
	return out
}

func (l *Log) Len() int {
	l.mu.Lock()
	defer l.mu.Unlock()
	return len(l.evs)
}

// Writer appends traces to an NDJSON file.
type Writer struct {
	f *os.File
	w *bufio.Writer
	N int
}

func NewWriter(path string) (*Writer, error) {
	f, err := os.Create(path)
	if err != nil {
		return nil, err
	}
	return &Writer{f: f, w: bufio.NewWriterSize(f, 1<<20)}, nil
}

func (w *Writer) Write(evs []Ev) {
	enc := json.NewEncoder(w.w)
	for i := range evs {
		_ = enc.Encode(&evs[i])
		w.N++
	}
}

func (w *Writer) Close() { w.w.Flush(); w.f.Close() }

// ---- context markers -------------------------------------------------------------------------------

type ctxKey string

const (
	KeyP    ctxKey = "verif.p"    // producer thread id
	KeyCall ctxKey = "verif.call" // per-producer call number (identifies the producing call of a callback)
	KeySub  ctxKey = "verif.sub"  // marker attached at SubscribeWithContext
	KeyMid  ctxKey = "verif.mid"  // marker attached mid-pipeline by a context operator
	KeyCb   ctxKey = "verif.cb"   // marker attached by a context-aware callback
	KeyItem ctxKey = "verif.item" // per-item marker attached by the harness source
	KeyRst  ctxKey = "verif.rst"  // marker of the context installed by ContextReset
	KeyHot  ctxKey = "verif.hot"  // marker of a context of the producer's own (hot source), NOT derived from the subscription context
)

func WithP(ctx context.Context, p int) context.Context { return context.WithValue(ctx, KeyP, p) }

func WithCall(ctx context.Context, i int) context.Context { return context.WithValue(ctx, KeyCall, i) }

func CallOfCtx(ctx context.Context) int {
	if ctx == nil {
		return -1
	}
	if v, ok := ctx.Value(KeyCall).(int); ok {
		return v
	}
	return -1
}

func PofCtx(ctx context.Context) int {
	if ctx == nil {
		return -1
	}
	if v, ok := ctx.Value(KeyP).(int); ok {
		return v
	}
	return -1
}

// Slow makes a callback slow enough that a missing serialisation shows up as an overlap.
func Slow(n int) {
	for i := 0; i < n; i++ {
		runtime.Gosched()
	}
}
