package kernel

import (
	"context"
	"fmt"
	"math/rand"
	"sync"
	"sync/atomic"
	"time"

	"github.com/samber/ro"

	"verif/harness/internal/pipe"
	"verif/harness/internal/rec"
)

// Direction-B driver at operator level (C02, C01): K sequential producers, each feeding its own source of a
// multi-source operator (optionally followed by a pass-through operator), or all calling one subject that is observed
// through a pass-through operator; slow callbacks; the trace is validated against Contract.tla (no overlap, grammar).

type OpScenario struct {
	Head   string // multi-source operator (pipe.BuildMulti name) or "subject:<kind>"
	K      int
	Tail   string // pass-through operator appended after the head ("" = none)
	Len    int    // values per producer
	Ends   []string
	Slow   int
	Unsub  bool
	WaitTd bool // every source's teardown waits until its producer is out of the emission it is in (a clean shutdown), unless it runs on that producer's own goroutine
}

var opHeads = []string{"Merge", "Merge", "MergeWith", "MergeAll", "CombineLatest2", "CombineLatestWith", "CombineLatestAny", "Zip2", "ZipWith", "Race", "RaceWith",
	"TakeUntil", "SkipUntil", "BufferWhen", "SampleWhen", "ThrottleWhen", "Merge3", "CombineLatest3",
	"subject:publish", "subject:behavior", "subject:replay", "subject:publish",
	"ctx:ThrowOnContextCancel", "ctx:ThrowOnContextCancel"} // one sequential source; the subscription context is cancelled from another goroutine while it emits
var opTails = []string{"", "", "StartWith", "TapOnSubscribe", "TapOnFinalize", "Map", "Serialize", "TapOnNext", "Take", "Filter"}

func GenOp(r *rand.Rand) OpScenario {
	sc := OpScenario{Head: opHeads[r.Intn(len(opHeads))], Tail: opTails[r.Intn(len(opTails))], K: 2, Len: 5 + r.Intn(25), Slow: 1 + r.Intn(5)}
	switch sc.Head {
	case "Merge3":
		sc.K = 3
	case "CombineLatest3":
		sc.K = 3
	}
	if len(sc.Head) > 8 && sc.Head[:8] == "subject:" {
		sc.K = 2 + r.Intn(2)
	}
	if len(sc.Head) > 4 && sc.Head[:4] == "ctx:" {
		sc.K = 1
	}
	for i := 0; i < sc.K; i++ {
		sc.Ends = append(sc.Ends, []string{"", "", "C", "C", "E"}[r.Intn(5)])
	}
	sc.Unsub = r.Intn(4) == 0
	sc.WaitTd = !(len(sc.Head) > 8 && sc.Head[:8] == "subject:") && r.Intn(3) == 0
	return sc
}

func timeAfterMs(ms int) <-chan time.Time { return time.After(time.Duration(ms) * time.Millisecond) }

func tailOp(name string) func(ro.Observable[any]) ro.Observable[any] {
	switch name {
	case "StartWith":
		return ro.StartWith[any](-5)
	case "TapOnSubscribe":
		return ro.TapOnSubscribe[any](func() {})
	case "TapOnFinalize":
		return ro.TapOnFinalize[any](func() {})
	case "Map":
		return ro.Map(func(v any) any { return v })
	case "Serialize":
		return ro.Serialize[any]()
	case "TapOnNext":
		return ro.TapOnNext(func(v any) {})
	case "Take":
		return ro.Take[any](1000)
	case "Filter":
		return ro.Filter(func(v any) bool { return true })
	}
	return nil
}

func RunOp(lg *rec.Log, sc OpScenario, seed int64) []rec.Ev {
	return RunOpPark(lg, sc, seed, nil)
}

// RunOpPark: with a Parker, producer 0 is the victim: it starts alone, is stopped at its j-th hook point, the other
// producers (and the unsubscriber) then run - to completion, or until they block - and the victim is released.
func RunOpPark(lg *rec.Log, sc OpScenario, seed int64, pk *rec.Parker) []rec.Ev {
	lg.Add(rec.Ev{E: "hdr", S: "subj", B: true, I: sc.K})
	base := context.WithValue(context.Background(), logKey{}, lg)
	base = context.WithValue(base, rec.KeySub, true)
	var inflight [4]int32   // emissions in flight per source
	var emSeq [4]int64      // emissions started per source
	var tdRunning int32     // source teardowns in progress (they may run on goroutines of the library)
	var tdDone, ended int32 // source teardowns finished; the observer got its terminal or was unsubscribed
	var prodGid [4]uint64   // goroutine of the producer of each source
	isSubj := len(sc.Head) > 8 && sc.Head[:8] == "subject:"
	isCtx := len(sc.Head) > 4 && sc.Head[:4] == "ctx:"
	var cancelSub context.CancelFunc
	if isCtx {
		base, cancelSub = context.WithCancel(base)
		defer cancelSub()
	}
	var o ro.Observable[any]
	var subj ro.Subject[any]
	var ctls []*pipe.Ctl
	if isSubj {
		switch sc.Head[8:] {
		case "publish":
			subj = ro.NewPublishSubject[any]()
		case "behavior":
			subj = ro.NewBehaviorSubject[any](any(-7))
		case "replay":
			subj = ro.NewReplaySubject[any](2)
		}
		o = subj
	} else {
		srcs := make([]ro.Observable[any], sc.K)
		for i := range srcs {
			i := i
			c := &pipe.Ctl{}
			c.OnSub = nil
			c.OnTeardown = func() {
				atomic.AddInt32(&tdRunning, 1)
				defer atomic.AddInt32(&tdRunning, -1)
				if sc.WaitTd && atomic.LoadUint64(&prodGid[i]) != rec.Gid() {
					// wait for the producer of this source to leave the emission it is in (bounded: a producer that can never leave is what the watchdog reports)
					k := 0
					s0 := atomic.LoadInt64(&emSeq[i])
					for ; k < 100000 && atomic.LoadInt32(&inflight[i]) != 0 && atomic.LoadInt64(&emSeq[i]) == s0; k++ {
						time.Sleep(50 * time.Microsecond)
					}
					if k == 100000 {
						lg.Add(rec.Ev{E: "hang", S: fmt.Sprintf("the teardown of source %d waited 5s for its producer, which is blocked inside the pipeline", i)})
					}
				}
				lg.Add(rec.Ev{E: "srcTd", I: i})
				atomic.AddInt32(&tdDone, 1)
			}
			ctls = append(ctls, c)
			srcs[i] = c.Observable("ctl-unsafe", nil) // every individual source is sequential: the unsafe constructor is legitimate
		}
		head := sc.Head
		if head == "Merge3" {
			head = "Merge"
		}
		var err error
		if isCtx {
			o = ro.ThrowOnContextCancel[any]()(srcs[0])
		} else {
			o, err = pipe.BuildMulti(head, srcs)
		}
		if err != nil {
			panic(err)
		}
	}
	if t := tailOp(sc.Tail); t != nil {
		o = t(o)
	}
	slow := sc.Slow
	obs := ro.NewObserverWithContext(
		func(ctx context.Context, v any) {
			lg.Add(rec.Ev{E: "cbB", O: 0, P: rec.PofCtx(ctx), K: "N", V: 0, I: rec.CallOfCtx(ctx)})
			rec.Slow(slow)
			lg.Add(rec.Ev{E: "cbE", O: 0, K: "N"})
		},
		func(ctx context.Context, err error) {
			lg.Add(rec.Ev{E: "cbB", O: 0, P: rec.PofCtx(ctx), K: "E", V: 0, I: rec.CallOfCtx(ctx)})
			rec.Slow(slow)
			lg.Add(rec.Ev{E: "cbE", O: 0, K: "E"})
			atomic.StoreInt32(&ended, 1)
		},
		func(ctx context.Context) {
			lg.Add(rec.Ev{E: "cbB", O: 0, P: rec.PofCtx(ctx), K: "C", V: 0, I: rec.CallOfCtx(ctx)})
			rec.Slow(slow)
			lg.Add(rec.Ev{E: "cbE", O: 0, K: "C"})
			atomic.StoreInt32(&ended, 1)
		},
	)
	sub := o.SubscribeWithContext(base, obs)
	nSrcSub := int32(0)
	for i := range ctls {
		if ctls[i].Dest(0) != nil {
			lg.Add(rec.Ev{E: "srcSub", I: i})
			nSrcSub++
		}
	}
	var wg, wgOthers sync.WaitGroup
	start := make(chan struct{})
	startOthers := start
	victimDone := make(chan struct{})
	if pk != nil {
		startOthers = make(chan struct{})
	}
	for p := 0; p < sc.K; p++ {
		p := p
		wg.Add(1)
		if p > 0 {
			wgOthers.Add(1)
		}
		go func() {
			defer wg.Done()
			if p > 0 {
				defer wgOthers.Done()
			} else {
				defer close(victimDone)
			}
			if pk != nil && p == 0 {
				pk.SetVictim(rec.Gid())
			}
			start := start
			if p > 0 {
				start = startOthers
			}
			r := rand.New(rand.NewSource(seed*1000 + int64(p)))
			var dest ro.Observer[any]
			var sctx context.Context = base
			if isSubj {
				dest = subj
			} else if cs := ctls[p].Dest(0); cs != nil {
				dest, sctx = cs.D, cs.Ctx
			} else {
				return // this source was never subscribed (e.g. a race already decided)
			}
			pctx := rec.WithP(sctx, p)
			atomic.StoreUint64(&prodGid[p], rec.Gid())
			<-start
			n := sc.Len
			if p > 0 {
				n = 2 + r.Intn(sc.Len) // producers stop (and possibly terminate the stream) at different moments
			}
			for ci := 0; ci <= n; ci++ {
				if pk == nil && r.Intn(4) == 0 {
					jitter(r)
				}
				ctx := rec.WithCall(pctx, ci)
				k := "N"
				if ci == n {
					k = sc.Ends[p]
					if k == "" {
						break
					}
				}
				func() {
					defer func() {
						if e := recover(); e != nil {
							lg.Add(rec.Ev{E: "panic", P: p, O: 0, S: fmt.Sprint(e)})
						}
					}()
					atomic.AddInt64(&emSeq[p], 1)
					atomic.AddInt32(&inflight[p], 1)
					defer atomic.AddInt32(&inflight[p], -1)
					switch k {
					case "N":
						dest.NextWithContext(ctx, any(p*1000+ci))
					case "E":
						dest.ErrorWithContext(ctx, errCause[1])
					case "C":
						dest.CompleteWithContext(ctx)
					}
				}()
			}
		}()
	}
	if isCtx {
		// the canceller: the watcher goroutine of the operator then raises the Error while the source may be in the middle of a Next
		wg.Add(1)
		wgOthers.Add(1)
		go func() {
			defer wg.Done()
			defer wgOthers.Done()
			r := rand.New(rand.NewSource(seed*1000 + 78))
			<-startOthers
			for i := 0; pk == nil && i < 2+r.Intn(8); i++ {
				jitter(r)
			}
			cancelSub()
			time.Sleep(200 * time.Microsecond) // let the watcher goroutine deliver
		}()
	}
	if sc.Unsub {
		wg.Add(1)
		wgOthers.Add(1)
		go func() {
			defer wg.Done()
			defer wgOthers.Done()
			r := rand.New(rand.NewSource(seed*1000 + 77))
			<-startOthers
			for i := 0; pk == nil && i < 3+r.Intn(10); i++ {
				jitter(r)
			}
			lg.Add(rec.Ev{E: "unsubB", O: 0, P: 8})
			sub.Unsubscribe()
			lg.Add(rec.Ev{E: "unsubE", O: 0, P: 8})
			atomic.StoreInt32(&ended, 1)
		}()
	}
	close(start)
	if pk != nil {
		// wait until the victim is parked (or has finished without reaching its j-th hook point)
		select {
		case <-pk.Parked():
		case <-victimDone:
		}
		close(startOthers)
		othersDone := make(chan struct{})
		go func() { wgOthers.Wait(); close(othersDone) }()
		// the others either finish, or block on something the parked victim holds (expected in correct code: no verdict from this timeout)
		select {
		case <-othersDone:
		case <-time.After(30 * time.Millisecond):
		}
		pk.Release()
	}
	wg.Wait()
	for k := 0; k < 140000 && atomic.LoadInt32(&tdRunning) != 0; k++ { // a teardown still running on a goroutine of the library (e.g. a context watcher)
		time.Sleep(50 * time.Microsecond)
	}
	// the terminal may have been delivered by a goroutine of the library (ThrowOnContextCancel's context watcher) that releases the source only after the
	// callback returned: "released" is judged once that goroutine had the time to do it (3 s), never in the middle of its run
	for k := 0; k < 60000 && atomic.LoadInt32(&ended) != 0 && atomic.LoadInt32(&tdDone) < nSrcSub; k++ {
		time.Sleep(50 * time.Microsecond)
	}
	lg.Add(rec.Ev{E: "quiesce"})
	lg.Add(rec.Ev{E: "unsubB", O: 0, P: 15})
	sub.Unsubscribe()
	lg.Add(rec.Ev{E: "unsubE", O: 0, P: 15})
	lg.Add(rec.Ev{E: "end"})
	return lg.Events()
}
