package kernel

import (
	"math/rand"
	"sync"
	"time"

	"github.com/samber/ro"

	"verif/harness/internal/rec"
)

// Direction-B driver for the Collect clause of C06 (CollectTrace.tla).

type CollectScenario struct {
	N     int
	End   string
	Sync  int // number of notifications emitted synchronously inside Subscribe (the rest comes from a goroutine)
	Chain bool
	Hold  bool // schedule replay: the producer goroutine is held for 2 ms between the status change and the delivery of its terminal notification, and
	// the subscribe function returns exactly then (Collect must still wait for the terminal callback)
}

func GenCollect(r *rand.Rand) CollectScenario {
	n := r.Intn(6)
	sc := CollectScenario{N: n, End: []string{"C", "E", "E"}[r.Intn(3)], Sync: r.Intn(n + 2), Chain: r.Intn(2) == 0}
	if sc.Sync <= n && r.Intn(3) == 0 {
		sc.Hold = true
	}
	return sc
}

// collectHold: producer goroutines to hold at the hook point between the status change and the delivery of a terminal notification.
var collectHold sync.Map // gid -> chan struct{} (closed when the producer is there)

// CollectHook is installed as the library's verification hook by drive-collect (on top of the yield hook).
func CollectHook(point string, obj any) {
	if point == "subscriber:ErrorWithContext:deliver" || point == "subscriber:CompleteWithContext:deliver" {
		if ch, ok := collectHold.LoadAndDelete(rec.Gid()); ok {
			close(ch.(chan struct{}))
			time.Sleep(2 * time.Millisecond)
		}
	}
}

func RunCollect(lg *rec.Log, sc CollectScenario, seed int64) []rec.Ev {
	lg.Add(rec.Ev{E: "hdr"})
	r := rand.New(rand.NewSource(seed))
	var wg sync.WaitGroup
	emit := func(d ro.Observer[int], from, to int) {
		for i := from; i <= to && i <= sc.N+1; i++ {
			if i <= sc.N {
				lg.Add(rec.Ev{E: "emit", K: "N", V: i})
				d.Next(i)
			} else if sc.End == "C" {
				lg.Add(rec.Ev{E: "emit", K: "C"})
				d.Complete()
			} else {
				lg.Add(rec.Ev{E: "emit", K: "E"})
				d.Error(errCause[1])
			}
			lg.Add(rec.Ev{E: "emitE"})
		}
	}
	var o ro.Observable[int] = ro.NewObservable(func(d ro.Observer[int]) ro.Teardown {
		emit(d, 1, sc.Sync)
		wg.Add(1)
		there := make(chan struct{})
		started := make(chan struct{})
		go func() {
			defer wg.Done()
			if sc.Hold {
				collectHold.Store(rec.Gid(), there)
				defer collectHold.Delete(rec.Gid())
			}
			close(started)
			for i := sc.Sync + 1; i <= sc.N+1; i++ {
				if r.Intn(3) == 0 {
					jitter(r)
				}
				emit(d, i, i)
			}
		}()
		if sc.Hold {
			<-started
			select { // return while the producer sits between the status change and the terminal callback
			case <-there:
			case <-time.After(50 * time.Millisecond):
			}
		}
		return nil
	})
	if sc.Chain {
		o = ro.Pipe1(o, ro.Map(func(v int) int { return v }))
	}
	done := make(chan struct{})
	go func() {
		defer close(done)
		vals, err := ro.Collect(o)
		sum := 0
		for i, v := range vals {
			sum += v * (i + 1)
		}
		k := "C"
		if err != nil {
			k = "E"
		}
		lg.Add(rec.Ev{E: "collected", I: len(vals), V: sum, K: k})
	}()
	select {
	case <-done:
	case <-time.After(10 * time.Second):
		lg.Add(rec.Ev{E: "hang", S: "Collect did not return"})
	}
	wg.Wait()
	lg.Add(rec.Ev{E: "end"})
	return lg.Events()
}
