package kernel

import (
	"context"
	"math/rand"
	"sync"

	"github.com/samber/lo"
	"github.com/samber/ro"

	"verif/harness/internal/pipe"
	"verif/harness/internal/rec"
)

// Direction-B driver for the concurrent clause of C05: each source of a multi-source operator has its own sequential
// producer goroutine; the run (inv / ret / recv with encoded values) is validated by TLC against MultiLin.tla.

type MultiLinScenario struct {
	Op     string // Multi.tla operator id
	G      string // Go constructor
	K      int
	Lens   []int
	Ends   []string
	Unsub  bool
	Victim int // park mode: index of the source whose producer is stopped at its j-th hook point
}

var multiLinOps = []struct{ Op, G string }{
	{"Merge", "Merge"}, {"Merge", "MergeWith"}, {"Merge", "MergeAll"}, {"CombineLatest", "CombineLatest2"}, {"CombineLatest", "CombineLatestWith"}, {"CombineLatest", "CombineLatestAny"},
	{"Zip", "Zip2"}, {"Zip", "ZipWith"}, {"Race", "Race"}, {"Race", "RaceWith"}, {"TakeUntil", "TakeUntil"}, {"SkipUntil", "SkipUntil"},
	{"BufferWhen", "BufferWhen"}, {"SampleWhen", "SampleWhen"}, {"ThrottleWhen", "ThrottleWhen"}, {"WindowWhen", "WindowWhen"},
}

// OnlyMultiLinOp restricts the generator to one Go constructor (drive-multilin -op)
var OnlyMultiLinOp string

func GenMultiLin(r *rand.Rand) MultiLinScenario {
	o := multiLinOps[r.Intn(len(multiLinOps))]
	for _, x := range multiLinOps {
		if x.G == OnlyMultiLinOp {
			o = x
		}
	}
	sc := MultiLinScenario{Op: o.Op, G: o.G, K: 2, Unsub: r.Intn(5) == 0, Victim: r.Intn(2)}
	for s := 0; s < sc.K; s++ {
		sc.Lens = append(sc.Lens, 2+r.Intn(2))
		sc.Ends = append(sc.Ends, []string{"C", "", "", "E"}[r.Intn(4)])
	}
	return sc
}

// encOut is Enc of MultiLin.tla
func encOut(v any) int {
	fold := func(xs []int) int {
		acc := 0
		for i := len(xs) - 1; i >= 0; i-- {
			acc = xs[i] + 100*acc
		}
		return len(xs) + 10*acc
	}
	switch x := v.(type) {
	case int:
		return x
	case []any:
		xs := make([]int, len(x))
		for i := range x {
			xs[i] = x[i].(int)
		}
		return fold(xs)
	case lo.Tuple2[any, any]:
		return fold([]int{x.A.(int), x.B.(int)})
	}
	return -999
}

func RunMultiLin(lg *rec.Log, sc MultiLinScenario, seed int64, pk *rec.Parker) []rec.Ev {
	return RunMultiLinPre(lg, sc, seed, pk, 0)
}

// RunMultiLinPre: in park mode the other producer first performs `pre` of its calls, THEN the victim runs up to its j-th hook
// point, then the other producer finishes, then the victim is released (schedules with one preemption of the victim after a
// prefix of the other producer).
func RunMultiLinPre(lg *rec.Log, sc MultiLinScenario, seed int64, pk *rec.Parker, pre int) []rec.Ev {
	lg.Add(rec.Ev{E: "hdr", S: sc.Op, V: sc.K})
	base := context.WithValue(context.Background(), rec.KeySub, true)
	ctls := make([]*pipe.Ctl, sc.K)
	srcs := make([]ro.Observable[any], sc.K)
	for i := range ctls {
		ctls[i] = &pipe.Ctl{}
		srcs[i] = ctls[i].Observable("ctl-unsafe", nil)
	}
	o, err := pipe.BuildMulti(sc.G, srcs)
	if err != nil {
		panic(err)
	}
	nwin := 0 // windows handed to the observer (its callbacks are serialized)
	obs := ro.NewObserverWithContext(
		func(ctx context.Context, v any) {
			if w, ok := v.(ro.Observable[any]); ok {
				// higher-order output (WindowWhen), flattened as in MultiDef: N(1000+j) window j handed over, I(100j+v) value v in window j, IC(j) / IE(j) its terminal
				nwin++
				j := nwin
				lg.Add(rec.Ev{E: "recv", K: "N", V: 1000 + j})
				w.SubscribeWithContext(ctx, ro.NewObserverWithContext(
					func(ctx context.Context, x any) { lg.Add(rec.Ev{E: "recv", K: "I", V: 100*j + x.(int)}) },
					func(ctx context.Context, err error) { lg.Add(rec.Ev{E: "recv", K: "IE", V: j}) },
					func(ctx context.Context) { lg.Add(rec.Ev{E: "recv", K: "IC", V: j}) },
				))
				return
			}
			lg.Add(rec.Ev{E: "recv", K: "N", V: encOut(v)})
		},
		func(ctx context.Context, err error) { lg.Add(rec.Ev{E: "recv", K: "E"}) },
		func(ctx context.Context) { lg.Add(rec.Ev{E: "recv", K: "C"}) },
	)
	sub := o.SubscribeWithContext(base, obs)
	var wg, wgOthers sync.WaitGroup
	start := make(chan struct{})
	startOthers := start
	victimDone := make(chan struct{})
	preDone := make(chan struct{})
	var preOnce sync.Once
	if pk != nil {
		startOthers = make(chan struct{})
	} else {
		close(preDone)
	}
	for s := 0; s < sc.K; s++ {
		s := s
		wg.Add(1)
		if s != sc.Victim {
			wgOthers.Add(1)
		}
		go func() {
			defer wg.Done()
			if s != sc.Victim {
				defer wgOthers.Done()
			} else {
				defer close(victimDone)
			}
			if pk != nil && s == sc.Victim {
				pk.SetVictim(rec.Gid())
			}
			r := rand.New(rand.NewSource(seed*1000 + int64(s)))
			d := ctls[s].Dest(0)
			<-start
			if pk != nil && s == sc.Victim {
				<-preDone // the other producer has performed its prefix
			}
			if d == nil {
				if s != sc.Victim {
					preOnce.Do(func() { close(preDone) })
				}
				return
			}
			for j := 0; j <= sc.Lens[s]; j++ {
				if pk != nil && s != sc.Victim && j == pre {
					preOnce.Do(func() { close(preDone) })
					<-startOthers
				}
				if pk == nil {
					jitter(r)
				}
				k, v := "N", 10*(s+1)+j
				if j == sc.Lens[s] {
					k, v = sc.Ends[s], s+1
					if k == "" {
						break
					}
				}
				lg.Add(rec.Ev{E: "inv", P: s + 1, K: k, V: v})
				switch k {
				case "N":
					d.D.NextWithContext(d.Ctx, any(v))
				case "E":
					d.D.ErrorWithContext(d.Ctx, errCause[1])
				case "C":
					d.D.CompleteWithContext(d.Ctx)
				}
				lg.Add(rec.Ev{E: "ret", P: s + 1})
			}
			if pk != nil && s != sc.Victim {
				preOnce.Do(func() { close(preDone) })
			}
		}()
	}
	if sc.Unsub {
		wg.Add(1)
		wgOthers.Add(1)
		go func() {
			defer wg.Done()
			defer wgOthers.Done()
			r := rand.New(rand.NewSource(seed*1000 + 77))
			<-startOthers
			for i := 0; pk == nil && i < 2+r.Intn(6); i++ {
				jitter(r)
			}
			lg.Add(rec.Ev{E: "unsubB"})
			sub.Unsubscribe()
			lg.Add(rec.Ev{E: "unsubE"})
		}()
	}
	close(start)
	if pk != nil {
		select {
		case <-pk.Parked():
		case <-victimDone:
		}
		close(startOthers)
		othersDone := make(chan struct{})
		go func() { wgOthers.Wait(); close(othersDone) }()
		select {
		case <-othersDone:
		case <-timeAfterMs(30):
		}
		pk.Release()
	}
	wg.Wait()
	sub.Unsubscribe()
	lg.Add(rec.Ev{E: "end"})
	return lg.Events()
}
