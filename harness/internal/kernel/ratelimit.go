package kernel

import (
	"context"
	"math/rand"
	"sync"
	"time"

	"github.com/samber/ro"
	ronative "github.com/samber/ro/plugins/ratelimit/native"
	roulule "github.com/samber/ro/plugins/ratelimit/ulule"
	"github.com/ulule/limiter/v3"
	"github.com/ulule/limiter/v3/drivers/store/memory"

	"verif/harness/internal/pipe"
	"verif/harness/internal/rec"
)

// Direction-B driver for the rate limiters (C20): RateLimitTrace.tla.

type RLItem struct {
	Key int
	Gap int // microseconds to wait before emitting
}

type RLScenario struct {
	Limiter string // native | ulule
	Window  int    // microseconds
	Quota   int
	Items   []RLItem
	End     string
	Async   bool
	SlowAt  int // item whose delivery dwells in the observer for SlowUs (0 = none)
	SlowUs  int
	Streams int // ulule only: number of streams sharing ONE limiter, emitting concurrently (1 = a single stream)
	Names   int // how the keys are spelled (rlKeyNames): 0 = k0 k1 k2; 1..3 = keys 0 and 1 collide under a common 32-bit string hash
}

// rlKeyNames: distinct keys stay distinct for a limiter whatever it derives from them; the pairs collide under FNV-1a 32, FNV-1 32 and Adler-32
var rlKeyNames = [][]string{
	{"k0", "k1", "k2"},
	{"user-129599", "user-732382", "user-2"},
	{"user-549599", "user-712382", "user-2"},
	{"user-120", "user-201", "user-2"},
}

func (sc RLScenario) keyName(k int) string { return rlKeyNames[sc.Names%len(rlKeyNames)][k] }

func GenRL(r *rand.Rand) RLScenario {
	sc := RLScenario{Limiter: []string{"native", "ulule"}[r.Intn(2)], Window: 1000 * (5 + r.Intn(16)), Quota: 1 + r.Intn(3), End: []string{"C", "C", "C", "E"}[r.Intn(4)], Async: r.Intn(2) == 0}
	nkeys := 1 + r.Intn(3)
	n := 5 + r.Intn(35)
	style := r.Intn(3) // burst, steady, sparse
	for i := 0; i < n; i++ {
		g := 0
		switch style {
		case 0:
			if r.Intn(8) == 0 {
				g = sc.Window/2 + r.Intn(sc.Window)
			}
		case 1:
			g = sc.Window / (2 + r.Intn(6))
		default:
			g = r.Intn(2 * sc.Window)
		}
		sc.Items = append(sc.Items, RLItem{Key: r.Intn(nkeys), Gap: g})
	}
	if r.Intn(2) == 0 {
		// a consumer that dwells on one item for about a window: a tick fires while the item is still being delivered
		sc.SlowAt = 2 + r.Intn(n-1)
		sc.SlowUs = sc.Window/2 + r.Intn(sc.Window)
	}
	if sc.Limiter == "ulule" && r.Intn(2) == 0 {
		sc.Streams = 2 + r.Intn(3)
		sc.SlowAt = 0
		for i := range sc.Items {
			sc.Items[i].Gap = 0 // simultaneous bursts
		}
	} else {
		sc.Streams = 1
	}
	if nkeys >= 2 {
		sc.Names = r.Intn(len(rlKeyNames))
	}
	return sc
}

type rlItem struct {
	Key string
	ID  int
}

func RunRL(lg *rec.Log, sc RLScenario, seed int64) []rec.Ev {
	start := time.Now()
	us := func() int { return int(time.Since(start) / time.Microsecond) }
	lg.Add(rec.Ev{E: "hdr", S: sc.Limiter, V: sc.Window, I: sc.Quota, B: sc.Streams > 1})
	base := context.WithValue(context.Background(), rec.KeySub, true)
	var dmu sync.Mutex
	var dest ro.Observer[rlItem]
	var dctx context.Context
	subscribed := make(chan struct{})
	src := ro.NewUnsafeObservableWithContext(func(ctx context.Context, d ro.Observer[rlItem]) ro.Teardown {
		dmu.Lock()
		dest, dctx = d, ctx
		dmu.Unlock()
		close(subscribed)
		return func() {}
	})
	keyOf := func(it rlItem) string { return it.Key }
	if sc.Streams > 1 {
		return runRLShared(lg, sc, us)
	}
	var o ro.Observable[rlItem]
	if sc.Limiter == "native" {
		o = ronative.NewRateLimiter[rlItem](int64(sc.Quota), time.Duration(sc.Window)*time.Microsecond, keyOf)(src)
	} else {
		lim := limiter.New(memory.NewStore(), limiter.Rate{Period: time.Duration(sc.Window) * time.Microsecond, Limit: int64(sc.Quota)})
		o = roulule.NewRateLimiter[rlItem](lim, keyOf)(src)
	}
	done := make(chan struct{})
	var once sync.Once
	obs := ro.NewObserverWithContext(
		func(ctx context.Context, it rlItem) {
			lg.Add(rec.Ev{E: "recv", K: "N", V: it.ID, U: us()})
			if it.ID == sc.SlowAt {
				time.Sleep(time.Duration(sc.SlowUs) * time.Microsecond)
			}
		},
		func(ctx context.Context, err error) {
			lg.Add(rec.Ev{E: "recv", K: "E", U: us()})
			once.Do(func() { close(done) })
		},
		func(ctx context.Context) { lg.Add(rec.Ev{E: "recv", K: "C", U: us()}); once.Do(func() { close(done) }) },
	)
	sub := o.SubscribeWithContext(base, obs)
	<-subscribed
	emit := func() {
		for i, it := range sc.Items {
			if it.Gap > 0 {
				time.Sleep(time.Duration(it.Gap) * time.Microsecond)
			}
			lg.Add(rec.Ev{E: "emit", K: "N", O: it.Key, V: i + 1, U: us()})
			dest.NextWithContext(dctx, rlItem{Key: sc.keyName(it.Key), ID: i + 1})
		}
		if sc.End == "C" {
			lg.Add(rec.Ev{E: "emit", K: "C", V: 100000, O: 0, U: us()})
			dest.CompleteWithContext(dctx)
		} else {
			lg.Add(rec.Ev{E: "emit", K: "E", V: 100001, O: 0, U: us()})
			dest.ErrorWithContext(dctx, errCause[1])
		}
	}
	if sc.Async {
		go emit()
	} else {
		emit()
	}
	select {
	case <-done:
	case <-time.After(5 * time.Second):
		lg.Add(rec.Ev{E: "hang", S: "the terminal of the source never reached the observer"})
	}
	sub.Unsubscribe()
	lg.Add(rec.Ev{E: "end", U: us()})
	_ = pipe.ChainName
	return lg.Events()
}

// runRLShared: several streams share ONE ulule limiter and emit their items concurrently; the quota is a property of the
// limiter (per key), so the same acceptor applies to the merged log. Every stream completes; the trace reports one terminal.
func runRLShared(lg *rec.Log, sc RLScenario, us func() int) []rec.Ev {
	base := context.WithValue(context.Background(), rec.KeySub, true)
	lim := limiter.New(slowStore{memory.NewStore()}, limiter.Rate{Period: time.Duration(sc.Window) * time.Microsecond, Limit: int64(sc.Quota)})
	keyOf := func(it rlItem) string { return it.Key }
	type stream struct {
		dest ro.Observer[rlItem]
		ctx  context.Context
	}
	streams := make([]*stream, sc.Streams)
	var subs []ro.Subscription
	for k := range streams {
		st := &stream{}
		streams[k] = st
		src := ro.NewUnsafeObservableWithContext(func(ctx context.Context, d ro.Observer[rlItem]) ro.Teardown {
			st.dest, st.ctx = d, ctx
			return func() {}
		})
		o := roulule.NewRateLimiter[rlItem](lim, keyOf)(src)
		subs = append(subs, o.SubscribeWithContext(base, ro.NewObserverWithContext(
			func(ctx context.Context, it rlItem) { lg.Add(rec.Ev{E: "recv", K: "N", V: it.ID, U: us()}) },
			func(ctx context.Context, err error) {},
			func(ctx context.Context) {},
		)))
	}
	// all items are announced first (emission order = id order per key), then released together
	for i, it := range sc.Items {
		lg.Add(rec.Ev{E: "emit", K: "N", O: it.Key, V: i + 1, U: us()})
	}
	var wg sync.WaitGroup
	start := make(chan struct{})
	for k := range streams {
		k := k
		wg.Add(1)
		go func() {
			defer wg.Done()
			<-start
			for i, it := range sc.Items {
				if i%sc.Streams == k {
					streams[k].dest.NextWithContext(streams[k].ctx, rlItem{Key: sc.keyName(it.Key), ID: i + 1})
				}
			}
		}()
	}
	close(start)
	wg.Wait()
	lg.Add(rec.Ev{E: "emit", K: "C", V: 100000, U: us()})
	for k := range streams {
		streams[k].dest.CompleteWithContext(streams[k].ctx)
	}
	lg.Add(rec.Ev{E: "recv", K: "C", U: us()})
	for _, s := range subs {
		s.Unsubscribe()
	}
	lg.Add(rec.Ev{E: "end", U: us()})
	return lg.Events()
}

// slowStore is a user-supplied limiter store with latency (like a networked store): every call returns a little later.
// An operator that relies on ONE atomic store call per item is unaffected; check-then-act over two calls is exposed.
type slowStore struct{ limiter.Store }

func pause() { time.Sleep(time.Duration(20+rand.Intn(60)) * time.Microsecond) }

func (s slowStore) Get(ctx context.Context, key string, rate limiter.Rate) (limiter.Context, error) {
	c, err := s.Store.Get(ctx, key, rate)
	pause()
	return c, err
}

func (s slowStore) Peek(ctx context.Context, key string, rate limiter.Rate) (limiter.Context, error) {
	c, err := s.Store.Peek(ctx, key, rate)
	pause()
	return c, err
}

func (s slowStore) Increment(ctx context.Context, key string, count int64, rate limiter.Rate) (limiter.Context, error) {
	c, err := s.Store.Increment(ctx, key, count, rate)
	pause()
	return c, err
}
