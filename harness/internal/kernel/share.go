package kernel

import (
	"context"
	"math/rand"
	"sync"
	"sync/atomic"

	"github.com/samber/ro"

	"verif/harness/internal/pipe"
	"verif/harness/internal/rec"
)

// Direction-B driver for C11: several goroutines subscribe / unsubscribe / connect / disconnect a shared or connectable
// observable over an instrumented source while another goroutine emits; validated against ShareGauge.tla.

type ShareScenario struct {
	Cfg     pipe.ShCfg
	Scripts [][]string // per thread: "sub" "unsub" "connect" "disconnect" "next" "complete" "error"
	Pre     int        // park mode: thread 1 performs its first Pre operations BEFORE thread 0 (the victim) starts
	Post    int        // park mode: thread 1 performs its last Post operations only AFTER thread 0 has been released and has finished
}

// ShareForcedShapes: how many of the next generated scenarios are forced counterexample shapes (set to 4 by drive-share -park)
var ShareForcedShapes int

// ShareOnly: no connectable scenarios (drive-share -shareonly, for ShareImplTrace.tla)
var ShareOnly bool

func GenShare(r *rand.Rand) ShareScenario {
	kinds := []string{"publish", "behavior", "replay"}
	sc := ShareScenario{Cfg: pipe.ShCfg{Kind: kinds[r.Intn(3)], Buf: 1 + r.Intn(2), Re: r.Intn(2) == 0, Rc: r.Intn(2) == 0, Rz: r.Intn(3) != 0}}
	connectable := r.Intn(3) == 0 && !ShareOnly
	if connectable {
		rd := r.Intn(2) == 0
		sc.Cfg.Rd = &rd
	}
	forced := -1
	if ShareForcedShapes > 0 {
		// park mode: the first scenarios of every run ARE the counterexample shapes with a kept termination (complete / error, with and
		// without a value before)
		forced = 4 - ShareForcedShapes
		ShareForcedShapes--
		connectable = false
		sc.Cfg.Rd = nil
	}
	if !connectable && (forced >= 0 || r.Intn(4) == 0) {
		// the shape of ShareImpl's counterexamples: the source terminates (thread 0, the one park mode preempts at every lock boundary)
		// while the only subscriber leaves and a new one joins and leaves (thread 1) - a reference or a flag of the old execution
		// must not reach the new one
		sc.Cfg.Rz = true
		term := []string{"complete", "error"}[r.Intn(2)]
		if forced >= 0 {
			term = []string{"complete", "error"}[forced%2]
		}
		sc.Scripts = [][]string{{term}, {"sub", "unsub", "sub", "unsub"}}
		sc.Pre = 1                         // the subscriber is there before the source terminates
		sc.Post = 1                        // ... and the second subscriber leaves after the termination call has returned
		if forced >= 0 || r.Intn(2) == 0 { // ... with a termination that is KEPT (no reset), the case in which the flags matter
			if term == "complete" {
				sc.Cfg.Rc = false
			} else {
				sc.Cfg.Re = false
			}
		}
		if forced >= 2 || (forced < 0 && r.Intn(2) == 0) {
			sc.Scripts[0] = append([]string{"next"}, sc.Scripts[0]...)
		}
		return sc
	}
	np := 2 + r.Intn(2)
	for p := 0; p < np; p++ {
		var s []string
		n := 2 + r.Intn(3)
		subscribed := false
		for j := 0; j < n; j++ {
			x := r.Intn(10)
			switch {
			case connectable && x < 3:
				s = append(s, "connect")
			case connectable && x < 4:
				s = append(s, "disconnect")
			case !subscribed && x < 7:
				s = append(s, "sub")
				subscribed = true
			case subscribed && x < 8:
				s = append(s, "unsub")
				subscribed = false
			case x == 8:
				s = append(s, "next")
			default:
				s = append(s, []string{"next", "next", "complete", "error"}[r.Intn(4)])
			}
		}
		if subscribed {
			s = append(s, "unsub")
		}
		sc.Scripts = append(sc.Scripts, s)
	}
	return sc
}

func RunShare(lg *rec.Log, sc ShareScenario, seed int64, pk *rec.Parker) []rec.Ev {
	mode := "share"
	if sc.Cfg.Rd != nil {
		mode = "connectable"
	}
	// released: every subscriber unsubscribes before the end, so with reset-on-refcount-zero the source must be released at the end
	b2i := func(b bool) int {
		if b {
			return 1
		}
		return 0
	}
	// v: the ShareConfig (ShareImplTrace!ConfOf)
	lg.Add(rec.Ev{E: "hdr", S: mode, B: mode == "share" && sc.Cfg.Rz, V: 4*b2i(sc.Cfg.Re) + 2*b2i(sc.Cfg.Rc) + b2i(sc.Cfg.Rz)})
	base := context.WithValue(context.Background(), rec.KeySub, true)
	var smu sync.Mutex
	var dests []ro.Observer[any]
	var torn []bool
	src := ro.NewUnsafeObservableWithContext(func(ctx context.Context, d ro.Observer[any]) ro.Teardown {
		smu.Lock()
		k := len(dests)
		dests = append(dests, d)
		torn = append(torn, false)
		lg.Add(rec.Ev{E: "srcSub", I: k})
		smu.Unlock()
		return func() {
			smu.Lock()
			if !torn[k] {
				torn[k] = true
			}
			lg.Add(rec.Ev{E: "srcTd", I: k})
			smu.Unlock()
		}
	})
	var shared ro.Observable[any]
	var connectable ro.ConnectableObservable[any]
	if sc.Cfg.Rd != nil {
		conn := func() ro.Subject[any] {
			switch sc.Cfg.Kind {
			case "behavior":
				return ro.NewBehaviorSubject[any](any(7))
			case "replay":
				return ro.NewReplaySubject[any](sc.Cfg.Buf)
			}
			return ro.NewPublishSubject[any]()
		}
		connectable = ro.ConnectableWithConfig(src, ro.ConnectableConfig[any]{Connector: conn, ResetOnDisconnect: *sc.Cfg.Rd})
		shared = connectable
	} else {
		shared = pipe.BuildShare(sc.Cfg, src)
	}
	var nobs int32
	mkObs := func(i int) ro.Observer[any] {
		return ro.NewObserverWithContext(
			func(ctx context.Context, v any) { lg.Add(rec.Ev{E: "recv", O: i, K: "N"}) },
			func(ctx context.Context, err error) { lg.Add(rec.Ev{E: "recv", O: i, K: "E"}) },
			func(ctx context.Context) { lg.Add(rec.Ev{E: "recv", O: i, K: "C"}) },
		)
	}
	var wg, wgOthers sync.WaitGroup
	start := make(chan struct{})
	startOthers := start
	victimDone := make(chan struct{})
	preDone := make(chan struct{})
	postWait := make(chan struct{}, 4)
	if pk != nil {
		startOthers = make(chan struct{})
	}
	for p := range sc.Scripts {
		p := p
		wg.Add(1)
		if p > 0 {
			wgOthers.Add(1)
		}
		go func() {
			defer wg.Done()
			if p > 0 {
				defer wgOthers.Done()
			} else {
				defer close(victimDone)
			}
			if pk != nil && p == 0 {
				pk.SetVictim(rec.Gid())
			}
			st := start
			if p > 0 {
				st = startOthers
			}
			r := rand.New(rand.NewSource(seed*1000 + int64(p)))
			var sub, connection ro.Subscription
			if pk != nil && p == 0 && sc.Pre > 0 {
				<-preDone
			}
			if !(pk != nil && p == 1 && sc.Pre > 0) {
				<-st
			}
			for j, op := range sc.Scripts[p] {
				if pk != nil && p == 1 && sc.Pre > 0 && j == sc.Pre {
					close(preDone)
					<-st
				}
				if pk != nil && p == 1 && sc.Post > 0 && j == len(sc.Scripts[p])-sc.Post {
					postWait <- struct{}{} // tell the coordinator that only the trailing operations are left
					<-victimDone
				}
				if pk == nil {
					jitter(r)
				}
				oid := 0
				if op == "sub" {
					oid = int(atomic.AddInt32(&nobs, 1)) - 1 // every subscription gets its own observer id
				}
				lg.Add(rec.Ev{E: "inv", P: p, S: op, O: oid})
				switch op {
				case "sub":
					sub = shared.SubscribeWithContext(base, mkObs(oid))
				case "unsub":
					if sub != nil {
						sub.Unsubscribe()
					}
				case "connect":
					lg.Add(rec.Ev{E: "connectB", P: p})
					connection = connectable.ConnectWithContext(base)
					lg.Add(rec.Ev{E: "connectE", P: p})
				case "disconnect":
					if connection != nil {
						connection.Unsubscribe()
					}
				default:
					// the source emits on its most recent live subscription (each thread is a sequential producer of its own notifications;
					// concurrent producers on one source subscription are serialised by the harness)
					emitMu.Lock()
					smu.Lock()
					var d ro.Observer[any]
					for k := len(dests) - 1; k >= 0; k-- {
						if !torn[k] {
							d = dests[k]
							if op != "next" {
								torn[k] = true // the source ends this subscription by itself
								lg.Add(rec.Ev{E: "srcEnd", I: k})
							}
							break
						}
					}
					smu.Unlock()
					if d != nil {
						switch op {
						case "next":
							d.NextWithContext(base, any(100*p+j))
						case "complete":
							d.CompleteWithContext(base)
						case "error":
							d.ErrorWithContext(base, errCause[1])
						}
					}
					emitMu.Unlock()
				}
				lg.Add(rec.Ev{E: "ret", P: p})
			}
		}()
	}
	close(start)
	if pk != nil {
		select {
		case <-pk.Parked():
		case <-victimDone:
		}
		close(startOthers)
		othersDone := make(chan struct{})
		go func() { wgOthers.Wait(); close(othersDone) }()
		select {
		case <-othersDone:
		case <-postWait: // the other thread did everything but its trailing operations: they follow the victim's return
		case <-timeAfterMs(30):
		}
		pk.Release()
	}
	wg.Wait()
	lg.Add(rec.Ev{E: "end"})
	return lg.Events()
}

// emitMu serialises emissions on the source: the source itself is sequential (C02's premise).
var emitMu sync.Mutex
