// Package kernel is the direction-B driver for the observer contract (Contract.tla): it runs the real
// subscriber / subscription / observable / subject code from several goroutines with slow callbacks and
// records API-level events.  TLC validates the recorded traces against ContractTrace.tla.
package kernel

import (
	"context"
	"errors"
	"fmt"
	"math/rand"
	"runtime"
	"sync"
	"sync/atomic"
	"time"

	"github.com/samber/ro"

	"verif/harness/internal/rec"
)

type logKey struct{}

// InstallHooks routes the library's global hooks to the log carried by the notification's context.
func InstallHooks() {
	ro.OnDroppedNotification = func(ctx context.Context, n fmt.Stringer) {
		if ctx == nil {
			return
		}
		if l, ok := ctx.Value(logKey{}).(*rec.Log); ok {
			l.Add(rec.Ev{E: "drop", P: rec.PofCtx(ctx)})
		}
	}
	ro.OnUnhandledError = func(ctx context.Context, err error) {}
}

type Notif struct {
	K string
	V int
}

type Scenario struct {
	Kind      string // obs-safe obs-evsafe obs-unsafe subj-publish subj-behavior subj-replay subj-async subj-unicast
	Scripts   [][]Notif
	NObs      int
	LateSub   bool  // one more observer subscribes while producers run (subjects only)
	Unsubs    []int // observer ids to unsubscribe from separate goroutines (duplicates = concurrent callers)
	InsideAt  []int // per observer: unsubscribe from inside the callback of the j-th value it sees (-1 never)
	Adds      []int // per added teardown (ids 1..): observer it is added to
	PanicTd   map[int]bool
	Waiters   []int // observers to Wait() on
	Slow      int
	EarlyStop bool
	JoinTd    bool // plain observable kinds: teardown 0 (the source's) waits until no producer is inside an emission - a clean shutdown that joins its workers - unless it runs on a producer's own goroutine
	SubPanic  bool // obs-safe only: the subscribe function hands the destination to the producers, waits until a value is being delivered and then PANICS (C07 / C01 / C02: the Error made from the panic is serialised with the producers' notifications)
	Chain     bool // plain observable kinds: the observer is attached through TapOnSubscribe | Scan (a pass-through operator and an operator with unsynchronised state)
}

var errCause = []error{errors.New("cause0"), errors.New("cause1"), errors.New("cause2"), errors.New("cause3")}

func jitter(r *rand.Rand) {
	switch x := r.Intn(16); {
	case x < 6:
	case x < 12:
		for i := 0; i < 1+r.Intn(4); i++ {
			runtime.Gosched()
		}
	case x < 15:
		time.Sleep(time.Duration(1+r.Intn(30)) * time.Microsecond)
	default:
		time.Sleep(time.Duration(50+r.Intn(200)) * time.Microsecond)
	}
}

// GenChain draws a scenario of the "chain" family only: a safe or eventually-safe observable with 2-4 concurrent producers observed through
// a pass-through operator followed by an operator with unsynchronised state (the serialisation promised by the observable must survive the
// subscriber reuse of the pass-through operator).
func GenChain(r *rand.Rand) Scenario {
	for {
		sc := Gen(r)
		if (sc.Kind == "obs-safe" || sc.Kind == "obs-evsafe") && len(sc.PanicTd) == 0 && len(sc.Scripts) >= 2 {
			sc.Chain = true
			return sc
		}
	}
}

// Gen draws a scenario.
func Gen(r *rand.Rand) Scenario {
	kinds := []string{"obs-safe", "obs-safe", "obs-evsafe", "obs-evsafe", "obs-unsafe", "subj-publish", "subj-behavior", "subj-replay", "subj-async", "subj-unicast"}
	sc := Scenario{Kind: kinds[r.Intn(len(kinds))], PanicTd: map[int]bool{}}
	np := 1 + r.Intn(4)
	if sc.Kind == "obs-unsafe" {
		np = 1
	}
	for p := 0; p < np; p++ {
		n := 1 + r.Intn(6)
		var s []Notif
		for j := 0; j < n; j++ {
			x := r.Intn(10)
			switch {
			case x < 7:
				s = append(s, Notif{"N", p*100 + j + 1})
			case x < 8:
				s = append(s, Notif{"E", 1 + r.Intn(3)})
			default:
				s = append(s, Notif{"C", 0})
			}
		}
		sc.Scripts = append(sc.Scripts, s)
	}
	sc.NObs = 1
	isSubj := sc.Kind[:4] == "subj"
	if isSubj && sc.Kind != "subj-unicast" {
		sc.NObs = 1 + r.Intn(2)
		sc.LateSub = r.Intn(3) == 0
	}
	for i := 0; i < r.Intn(3); i++ {
		sc.Unsubs = append(sc.Unsubs, r.Intn(sc.NObs))
	}
	sc.InsideAt = make([]int, 4)
	for o := range sc.InsideAt {
		sc.InsideAt[o] = -1
		if r.Intn(5) == 0 {
			sc.InsideAt[o] = r.Intn(4)
		}
	}
	for i := 0; i < r.Intn(3); i++ {
		sc.Adds = append(sc.Adds, r.Intn(sc.NObs))
	}
	if !isSubj && r.Intn(4) == 0 {
		// panicking teardowns: only with a plain observable and without inside-callback unsubscription
		for o := range sc.InsideAt {
			sc.InsideAt[o] = -1
		}
		for i := 0; i <= len(sc.Adds); i++ {
			if r.Intn(2) == 0 {
				sc.PanicTd[i] = true
			}
		}
	}
	for i := 0; i < r.Intn(2); i++ {
		sc.Waiters = append(sc.Waiters, r.Intn(sc.NObs))
	}
	sc.Slow = 1 + r.Intn(6)
	sc.Chain = !isSubj && len(sc.PanicTd) == 0 && r.Intn(3) == 0
	sc.JoinTd = !isSubj && sc.Kind != "obs-unsafe" && len(sc.PanicTd) == 0 && r.Intn(4) == 0
	if sc.JoinTd {
		// joining the workers from INSIDE a callback cannot work with any serialising subscriber (the worker to join is waiting for the
		// lock the callback holds): such scenarios never unsubscribe from inside a callback
		for o := range sc.InsideAt {
			sc.InsideAt[o] = -1
		}
	}
	if sc.Kind == "obs-safe" && len(sc.PanicTd) == 0 && r.Intn(5) == 0 {
		// the subscribe function panics while its producers are already emitting: no teardown is ever returned
		sc.SubPanic = true
		sc.Adds, sc.Waiters, sc.Unsubs = nil, nil, nil
		for o := range sc.InsideAt {
			sc.InsideAt[o] = -1
		}
	}
	return sc
}

type obsState struct {
	sub   atomic.Value // ro.Subscription
	nvals int32
}

// Run executes one scenario on the real library and returns the recorded trace.
func Run(t int, sc Scenario, seed int64) []rec.Ev {
	return RunWithLog(&rec.Log{T: t}, sc, seed)
}

// RunWithLog is Run with a caller-supplied log (so that a watchdog can read the events recorded so far).
func RunWithLog(lg *rec.Log, sc Scenario, seed int64) []rec.Ev {
	isSubj := sc.Kind[:4] == "subj"
	hs := "obs"
	if isSubj {
		hs = "subj"
	}
	lg.Add(rec.Ev{E: "hdr", S: hs, B: true, I: len(sc.Scripts)})
	base := context.WithValue(context.Background(), logKey{}, lg)
	base = context.WithValue(base, rec.KeySub, true)

	states := make([]*obsState, 4)
	for i := range states {
		states[i] = &obsState{}
	}
	slow := sc.Slow
	inCb := make(chan struct{}, 1)   // a value callback has begun (SubPanic scenarios)
	destReady := make(chan struct{}) // the subscribe function has handed out the destination (SubPanic scenarios)
	mkObserver := func(o int) ro.Observer[int] {
		st := states[o]
		maybeInside := func() {
			if sc.InsideAt[o] < 0 {
				return
			}
			if int(atomic.AddInt32(&st.nvals, 1))-1 != sc.InsideAt[o] {
				return
			}
			if s, ok := st.sub.Load().(ro.Subscription); ok && s != nil {
				lg.Add(rec.Ev{E: "unsubB", O: o, P: 12 + o})
				s.Unsubscribe()
				lg.Add(rec.Ev{E: "unsubE", O: o, P: 12 + o})
			}
		}
		return ro.NewObserverWithContext(
			func(ctx context.Context, v int) {
				lg.Add(rec.Ev{E: "cbB", O: o, P: rec.PofCtx(ctx), K: "N", V: v, I: rec.CallOfCtx(ctx)})
				if sc.SubPanic {
					select {
					case inCb <- struct{}{}:
					default:
					}
					rec.Slow(slow + 3)
				}
				rec.Slow(slow)
				maybeInside()
				lg.Add(rec.Ev{E: "cbE", O: o, K: "N"})
			},
			func(ctx context.Context, err error) {
				lg.Add(rec.Ev{E: "cbB", O: o, P: rec.PofCtx(ctx), K: "E", V: causeOf(err), I: rec.CallOfCtx(ctx)})
				rec.Slow(slow)
				lg.Add(rec.Ev{E: "cbE", O: o, K: "E"})
			},
			func(ctx context.Context) {
				lg.Add(rec.Ev{E: "cbB", O: o, P: rec.PofCtx(ctx), K: "C", V: 0, I: rec.CallOfCtx(ctx)})
				rec.Slow(slow)
				lg.Add(rec.Ev{E: "cbE", O: o, K: "C"})
			},
		)
	}

	var inEmission [8]int32 // per producer: inside an emission right now
	var emSeq [8]int64      // per producer: emissions started
	var prodGid [8]uint64
	mkTd := func(i int) func() {
		return func() {
			if i == 0 && sc.JoinTd {
				// join the workers: every producer that is inside an emission leaves it first (bounded: a producer that can never leave is reported as a hang)
				me := rec.Gid()
				for p := range sc.Scripts {
					if atomic.LoadUint64(&prodGid[p]) == me {
						continue
					}
					s0 := atomic.LoadInt64(&emSeq[p])
					k := 0
					for ; k < 100000 && atomic.LoadInt32(&inEmission[p]) != 0 && atomic.LoadInt64(&emSeq[p]) == s0; k++ {
						time.Sleep(50 * time.Microsecond)
					}
					if k == 100000 {
						lg.Add(rec.Ev{E: "hang", S: fmt.Sprintf("the source teardown waited 5s for producer %d, which is blocked inside the library", p)})
					}
				}
			}
			lg.Add(rec.Ev{E: "td", I: i})
			if sc.PanicTd[i] {
				panic(fmt.Errorf("teardown %d panics", i))
			}
		}
	}
	// guarded runs f and logs a panic event for (thread p, observer o) if f panics
	guarded := func(p, o int, f func()) {
		defer func() {
			if e := recover(); e != nil {
				lg.Add(rec.Ev{E: "panic", P: p, O: o, S: fmt.Sprint(e)})
			}
		}()
		f()
	}

	var wg sync.WaitGroup
	start := make(chan struct{})
	var target ro.Observer[int] // what producers call
	var dest ro.Observer[int]
	startProducers := func() {
		for p := range sc.Scripts {
			p := p
			wg.Add(1)
			go func() {
				defer wg.Done()
				r := rand.New(rand.NewSource(seed*1000 + int64(p)))
				ctx := rec.WithP(base, p)
				if sc.SubPanic {
					<-destReady
				} else {
					<-start
				}
				tgt := target
				if sc.SubPanic {
					tgt = dest
				}
				pctx := ctx
				for ci, n := range sc.Scripts[p] {
					jitter(r)
					ctx := rec.WithCall(pctx, ci)
					lg.Add(rec.Ev{E: "callB", P: p, K: n.K, V: n.V, I: ci})
					atomic.StoreUint64(&prodGid[p], rec.Gid())
					atomic.AddInt64(&emSeq[p], 1)
					atomic.StoreInt32(&inEmission[p], 1)
					guarded(p, 0, func() {
						defer atomic.StoreInt32(&inEmission[p], 0)
						switch n.K {
						case "N":
							tgt.NextWithContext(ctx, n.V)
						case "E":
							tgt.ErrorWithContext(ctx, errCause[n.V])
						case "C":
							tgt.CompleteWithContext(ctx)
						}
					})
					lg.Add(rec.Ev{E: "callE", P: p, K: n.K, V: n.V})
				}
			}()
		}
	}
	var subj ro.Subject[int]
	switch sc.Kind {
	case "subj-publish":
		subj = ro.NewPublishSubject[int]()
	case "subj-behavior":
		subj = ro.NewBehaviorSubject[int](-7)
	case "subj-replay":
		subj = ro.NewReplaySubject[int](2)
	case "subj-async":
		subj = ro.NewAsyncSubject[int]()
	case "subj-unicast":
		subj = ro.NewUnicastSubject[int](8)
	}
	if isSubj {
		target = subj
		for o := 0; o < sc.NObs; o++ {
			s := subj.SubscribeWithContext(base, mkObserver(o))
			states[o].sub.Store(s)
		}
	} else {
		fn := func(d ro.Observer[int]) ro.Teardown {
			dest = d
			if sc.SubPanic {
				close(destReady)
				select {
				case <-inCb:
				case <-time.After(20 * time.Millisecond):
				}
				panic(errCause[3])
			}
			return mkTd(0)
		}
		var ob ro.Observable[int]
		switch sc.Kind {
		case "obs-safe":
			ob = ro.NewObservable(fn)
		case "obs-evsafe":
			ob = ro.NewEventuallySafeObservable(fn)
		case "obs-unsafe":
			ob = ro.NewUnsafeObservable(fn)
		}
		if sc.Chain {
			acc := 0
			ob = ro.Pipe2(ob, ro.TapOnSubscribe[int](func() {}), ro.Scan(func(a int, v int) int { acc += v; return v }, 0))
		}
		if sc.SubPanic {
			// the Subscribe call is the "producer call" of the Error made from the panic (pseudo-producer 9); the real producers start as
			// soon as the destination exists, i.e. while Subscribe is still running
			startProducers()
			lg.Add(rec.Ev{E: "callB", P: 9, K: "E", V: 3, I: 0})
			var s ro.Subscription
			guarded(9, 0, func() { s = ob.SubscribeWithContext(rec.WithCall(rec.WithP(base, 9), 0), mkObserver(0)) })
			lg.Add(rec.Ev{E: "callE", P: 9, K: "E", V: 3})
			if s != nil {
				states[0].sub.Store(s)
			}
		} else {
			lg.Add(rec.Ev{E: "addB", I: 0, O: 0, P: 15})
			s := ob.SubscribeWithContext(base, mkObserver(0))
			lg.Add(rec.Ev{E: "addE", I: 0, P: 15})
			states[0].sub.Store(s)
		}
		target = dest
	}

	if !sc.SubPanic {
		startProducers()
	}
	for j, o := range sc.Unsubs {
		j, o := j, o
		wg.Add(1)
		go func() {
			defer wg.Done()
			r := rand.New(rand.NewSource(seed*1000 + 100 + int64(j)))
			<-start
			for i := 0; i < r.Intn(6); i++ {
				jitter(r)
			}
			s := states[o].sub.Load().(ro.Subscription)
			lg.Add(rec.Ev{E: "unsubB", O: o, P: 8 + j})
			guarded(8+j, o, s.Unsubscribe)
			lg.Add(rec.Ev{E: "unsubE", O: o, P: 8 + j})
			getClosed(lg, 8+j, o, s)
		}()
	}
	for j, o := range sc.Adds {
		j, o := j, o
		wg.Add(1)
		go func() {
			defer wg.Done()
			r := rand.New(rand.NewSource(seed*1000 + 200 + int64(j)))
			<-start
			for i := 0; i < r.Intn(8); i++ {
				jitter(r)
			}
			s := states[o].sub.Load().(ro.Subscription)
			getClosed(lg, 10+j, o, s)
			lg.Add(rec.Ev{E: "addB", I: j + 1, O: o, P: 10 + j})
			func() {
				defer func() {
					if e := recover(); e != nil {
						lg.Add(rec.Ev{E: "panicAdd", P: 10 + j, O: o, I: j + 1, S: fmt.Sprint(e)})
					}
				}()
				s.Add(mkTd(j + 1))
			}()
			lg.Add(rec.Ev{E: "addE", I: j + 1, P: 10 + j})
		}()
	}
	waitDone := make([]chan struct{}, len(sc.Waiters))
	for j, o := range sc.Waiters {
		j, o := j, o
		waitDone[j] = make(chan struct{})
		go func() {
			defer close(waitDone[j])
			s := states[o].sub.Load().(ro.Subscription)
			<-start
			lg.Add(rec.Ev{E: "waitB", O: o, P: 13 + j})
			s.Wait()
			lg.Add(rec.Ev{E: "waitE", O: o, P: 13 + j})
		}()
	}
	nobs := sc.NObs
	if sc.LateSub {
		o := sc.NObs
		nobs++
		wg.Add(1)
		go func() {
			defer wg.Done()
			r := rand.New(rand.NewSource(seed*1000 + 300))
			<-start
			for i := 0; i < r.Intn(6); i++ {
				jitter(r)
			}
			s := subj.SubscribeWithContext(base, mkObserver(o))
			states[o].sub.Store(s)
		}()
	}
	close(start)
	wg.Wait()

	waitFor := func(j int, d time.Duration) bool {
		select {
		case <-waitDone[j]:
			return true
		case <-time.After(d):
			return false
		}
	}
	// a waiter whose subscription is closed must return by itself; give it ample time before declaring quiescence
	for j, o := range sc.Waiters {
		if s := states[o].sub.Load().(ro.Subscription); s.IsClosed() {
			waitFor(j, 20*time.Second)
		}
	}
	lg.Add(rec.Ev{E: "quiesce"})
	for o := 0; o < nobs; o++ {
		s := states[o].sub.Load().(ro.Subscription)
		getClosed(lg, 15, o, s)
	}
	// cleanup: dispose everything, then every teardown must have run exactly once and every Wait returned
	for o := 0; o < nobs; o++ {
		s := states[o].sub.Load().(ro.Subscription)
		lg.Add(rec.Ev{E: "unsubB", O: o, P: 15})
		guarded(15, o, s.Unsubscribe)
		lg.Add(rec.Ev{E: "unsubE", O: o, P: 15})
		getClosed(lg, 15, o, s)
	}
	for j := range sc.Waiters {
		waitFor(j, 20*time.Second)
	}
	lg.Add(rec.Ev{E: "end"})
	return lg.Events()
}

func getClosed(lg *rec.Log, p, o int, s ro.Subscription) {
	lg.Add(rec.Ev{E: "getB", P: p, O: o})
	b := s.IsClosed()
	lg.Add(rec.Ev{E: "getE", P: p, O: o, B: b})
}

func causeOf(err error) int {
	for i, c := range errCause {
		if errors.Is(err, c) {
			return i
		}
	}
	return -1
}
