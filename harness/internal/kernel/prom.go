package kernel

import (
	"context"
	"math/rand"
	"sort"
	"strings"
	"sync"
	"time"

	"github.com/prometheus/client_golang/prometheus"
	dto "github.com/prometheus/client_model/go"
	"github.com/samber/ro"
	roprometheus "github.com/samber/ro/ee/plugins/prometheus"

	"verif/harness/internal/cat"
	"verif/harness/internal/pipe"
	"verif/harness/internal/rec"
)

// Direction-B driver for the Prometheus instrumentation (C19): Prom.tla.

type PromScenario struct {
	Chain      []cat.Stage
	Script     []pipe.Notif // values then optional terminal
	NSubs      int
	Conc       bool // subscriptions made concurrently
	Standalone bool // the stand-alone operators (IncCounterOnSubscription / OnNext / OnError / OnComplete, ObserveNextLag) around the chain instead of PipeN;
	// the script may end with Error(nil)
	Feedback bool // a hand-made lock-free hot source; value i+1 is emitted from INSIDE the observer's callback for value i (feedback loop): the
	// instrumentation must not add a lock the plain pipeline does not have (transparency)
}

var promStages = []cat.Stage{
	{Op: "Map", G: "Map"}, {Op: "Map", G: "MapI", F: "I"}, {Op: "Map", G: "MapWithContext", F: "C"}, {Op: "Filter", G: "Filter"}, {Op: "Take", G: "Take", P: 2}, {Op: "Take", G: "Take", P: 1},
	{Op: "Skip", G: "Skip", P: 1}, {Op: "Scan", G: "Scan"}, {Op: "Distinct", G: "Distinct"}, {Op: "TapOnNext", G: "TapOnNext"}, {Op: "SkipWhile", G: "SkipWhile"},
	{Op: "TakeWhile", G: "TakeWhile"}, {Op: "ContextWithValue", G: "ContextWithValue"}, {Op: "Serialize", G: "Serialize"}, {Op: "MapErr", G: "MapErr"},
	{Op: "StartWith", G: "StartWith", P: 1}, {Op: "EndWith", G: "EndWith", P: 1}, {Op: "Count", G: "Count"}, {Op: "ToSlice", G: "ToSlice"}, {Op: "DefaultIfEmpty", G: "DefaultIfEmpty", P: 9}, {Op: "TakeLast", G: "TakeLast", P: 2},
}

var ctxless = map[string]bool{"StartWith": true, "EndWith": true, "Count": true, "ToSlice": true, "DefaultIfEmpty": true}

func GenProm(r *rand.Rand) PromScenario { return GenPromAt(r, -1) }

// GenPromAt: scenario number idx of a run; every third scenario walks through the arities 1..24 of the typed PipeN family in turn, with an
// operator that changes the cardinality in the LAST position (what leaves the last operator differs from what enters it).
func GenPromAt(r *rand.Rand, idx int) PromScenario {
	sc := PromScenario{NSubs: 1 + r.Intn(3), Conc: r.Intn(3) == 0}
	n := 1 + r.Intn(5)
	sweep := idx >= 0 && idx%3 == 0
	if sweep {
		n = 1 + (idx/3)%24
	} else if r.Intn(4) == 0 {
		n = 6 + r.Intn(19)
	}
	for i := 0; i < n; i++ {
		st := promStages[r.Intn(len(promStages))]
		for n > 5 && ctxless[st.Op] {
			// long chains: only operators whose outputs keep the context of a source value (the known finding about the others would hide everything else)
			st = promStages[r.Intn(len(promStages))]
		}
		sc.Chain = append(sc.Chain, st)
	}
	if sweep {
		// values must REACH the last position: the operators before it let everything through
		pass := []cat.Stage{{Op: "Map", G: "Map"}, {Op: "Map", G: "MapI", F: "I"}, {Op: "TapOnNext", G: "TapOnNext"}, {Op: "ContextWithValue", G: "ContextWithValue"}, {Op: "Serialize", G: "Serialize"}}
		for i := 0; i < n-1; i++ {
			sc.Chain[i] = pass[r.Intn(len(pass))]
		}
		sc.Chain[n-1] = []cat.Stage{{Op: "Filter", G: "Filter"}, {Op: "Take", G: "Take", P: 1}, {Op: "Skip", G: "Skip", P: 1}}[r.Intn(3)]
	}
	m := r.Intn(6)
	if sweep {
		m = 3 + r.Intn(3)
	}
	for i := 0; i < m; i++ {
		sc.Script = append(sc.Script, pipe.Notif{K: "N", V: float64([]int{-1, 0, 2, 1, 3}[r.Intn(5)])})
	}
	if !sweep && r.Intn(8) == 0 {
		// feedback loop over lock-free operators only
		sc.Feedback, sc.NSubs, sc.Conc = true, 1, false
		pass := []cat.Stage{{Op: "Map", G: "Map"}, {Op: "Map", G: "MapWithContext", F: "C"}, {Op: "TapOnNext", G: "TapOnNext"}, {Op: "ContextWithValue", G: "ContextWithValue"}, {Op: "Filter", G: "Filter"}}
		for i := range sc.Chain {
			sc.Chain[i] = pass[r.Intn(len(pass))]
		}
		for len(sc.Script) < 3 {
			sc.Script = append(sc.Script, pipe.Notif{K: "N", V: float64(0)})
		}
	}
	if !sweep && !sc.Feedback && r.Intn(6) == 0 {
		sc.Standalone = true
		if len(sc.Chain) > 3 {
			sc.Chain = sc.Chain[:3]
		}
	}
	switch r.Intn(4) {
	case 0:
		cause := 1
		if sc.Standalone && r.Intn(2) == 0 {
			cause = 0 // Error(nil): a legal terminal, counted like any other error
		}
		sc.Script = append(sc.Script, pipe.Notif{K: "E", V: float64(cause)})
	case 1, 2:
		sc.Script = append(sc.Script, pipe.Notif{K: "C"})
	}
	return sc
}

func promPipe(cfg roprometheus.CollectorConfig, src ro.Observable[any], ops []cat.Op) (ro.Observable[any], prometheus.Collector) {
	switch len(ops) {
	case 1:
		return roprometheus.Pipe1(cfg, src, ops[0])
	case 2:
		return roprometheus.Pipe2(cfg, src, ops[0], ops[1])
	case 3:
		return roprometheus.Pipe3(cfg, src, ops[0], ops[1], ops[2])
	case 4:
		return roprometheus.Pipe4(cfg, src, ops[0], ops[1], ops[2], ops[3])
	case 5:
		return roprometheus.Pipe5(cfg, src, ops[0], ops[1], ops[2], ops[3], ops[4])
	case 6:
		return roprometheus.Pipe6(cfg, src, ops[0], ops[1], ops[2], ops[3], ops[4], ops[5])
	case 7:
		return roprometheus.Pipe7(cfg, src, ops[0], ops[1], ops[2], ops[3], ops[4], ops[5], ops[6])
	case 8:
		return roprometheus.Pipe8(cfg, src, ops[0], ops[1], ops[2], ops[3], ops[4], ops[5], ops[6], ops[7])
	case 9:
		return roprometheus.Pipe9(cfg, src, ops[0], ops[1], ops[2], ops[3], ops[4], ops[5], ops[6], ops[7], ops[8])
	case 10:
		return roprometheus.Pipe10(cfg, src, ops[0], ops[1], ops[2], ops[3], ops[4], ops[5], ops[6], ops[7], ops[8], ops[9])
	case 11:
		return roprometheus.Pipe11(cfg, src, ops[0], ops[1], ops[2], ops[3], ops[4], ops[5], ops[6], ops[7], ops[8], ops[9], ops[10])
	case 12:
		return roprometheus.Pipe12(cfg, src, ops[0], ops[1], ops[2], ops[3], ops[4], ops[5], ops[6], ops[7], ops[8], ops[9], ops[10], ops[11])
	case 13:
		return roprometheus.Pipe13(cfg, src, ops[0], ops[1], ops[2], ops[3], ops[4], ops[5], ops[6], ops[7], ops[8], ops[9], ops[10], ops[11], ops[12])
	case 14:
		return roprometheus.Pipe14(cfg, src, ops[0], ops[1], ops[2], ops[3], ops[4], ops[5], ops[6], ops[7], ops[8], ops[9], ops[10], ops[11], ops[12], ops[13])
	case 15:
		return roprometheus.Pipe15(cfg, src, ops[0], ops[1], ops[2], ops[3], ops[4], ops[5], ops[6], ops[7], ops[8], ops[9], ops[10], ops[11], ops[12], ops[13], ops[14])
	case 16:
		return roprometheus.Pipe16(cfg, src, ops[0], ops[1], ops[2], ops[3], ops[4], ops[5], ops[6], ops[7], ops[8], ops[9], ops[10], ops[11], ops[12], ops[13], ops[14], ops[15])
	case 17:
		return roprometheus.Pipe17(cfg, src, ops[0], ops[1], ops[2], ops[3], ops[4], ops[5], ops[6], ops[7], ops[8], ops[9], ops[10], ops[11], ops[12], ops[13], ops[14], ops[15], ops[16])
	case 18:
		return roprometheus.Pipe18(cfg, src, ops[0], ops[1], ops[2], ops[3], ops[4], ops[5], ops[6], ops[7], ops[8], ops[9], ops[10], ops[11], ops[12], ops[13], ops[14], ops[15], ops[16], ops[17])
	case 19:
		return roprometheus.Pipe19(cfg, src, ops[0], ops[1], ops[2], ops[3], ops[4], ops[5], ops[6], ops[7], ops[8], ops[9], ops[10], ops[11], ops[12], ops[13], ops[14], ops[15], ops[16], ops[17], ops[18])
	case 20:
		return roprometheus.Pipe20(cfg, src, ops[0], ops[1], ops[2], ops[3], ops[4], ops[5], ops[6], ops[7], ops[8], ops[9], ops[10], ops[11], ops[12], ops[13], ops[14], ops[15], ops[16], ops[17], ops[18], ops[19])
	case 21:
		return roprometheus.Pipe21(cfg, src, ops[0], ops[1], ops[2], ops[3], ops[4], ops[5], ops[6], ops[7], ops[8], ops[9], ops[10], ops[11], ops[12], ops[13], ops[14], ops[15], ops[16], ops[17], ops[18], ops[19], ops[20])
	case 22:
		return roprometheus.Pipe22(cfg, src, ops[0], ops[1], ops[2], ops[3], ops[4], ops[5], ops[6], ops[7], ops[8], ops[9], ops[10], ops[11], ops[12], ops[13], ops[14], ops[15], ops[16], ops[17], ops[18], ops[19], ops[20], ops[21])
	case 23:
		return roprometheus.Pipe23(cfg, src, ops[0], ops[1], ops[2], ops[3], ops[4], ops[5], ops[6], ops[7], ops[8], ops[9], ops[10], ops[11], ops[12], ops[13], ops[14], ops[15], ops[16], ops[17], ops[18], ops[19], ops[20], ops[21], ops[22])
	case 24:
		return roprometheus.Pipe24(cfg, src, ops[0], ops[1], ops[2], ops[3], ops[4], ops[5], ops[6], ops[7], ops[8], ops[9], ops[10], ops[11], ops[12], ops[13], ops[14], ops[15], ops[16], ops[17], ops[18], ops[19], ops[20], ops[21], ops[22], ops[23])
	}
	panic("verif: no PipeN for this arity")
}

func RunProm(lg *rec.Log, sc PromScenario, seed int64) []rec.Ev {
	lg.Add(rec.Ev{E: "hdr", S: pipe.ChainName(sc.Chain), I: len(sc.Chain)})
	base := context.WithValue(context.Background(), rec.KeySub, true)
	runMode := func(mode string) {
		env := cat.NewEnv(len(sc.Chain))
		ops := make([]cat.Op, len(sc.Chain))
		for i, st := range sc.Chain {
			op, err := cat.Build(st, i+1, env)
			if err != nil {
				panic(err)
			}
			ops[i] = op
		}
		// cold synchronous source: every subscription plays the whole script, each value with its own item marker
		src := ro.NewUnsafeObservableWithContext(func(ctx context.Context, d ro.Observer[any]) ro.Teardown {
			items := 0
			for _, n := range sc.Script {
				switch n.K {
				case "N":
					lg.Add(rec.Ev{E: "src", S: mode})
					d.NextWithContext(context.WithValue(ctx, rec.KeyItem, items), any(int(n.V.(float64))))
					items++
				case "E":
					d.ErrorWithContext(context.WithValue(ctx, rec.KeyItem, -1), cat.ErrSrc[int(n.V.(float64))])
				case "C":
					d.CompleteWithContext(context.WithValue(ctx, rec.KeyItem, -1))
				}
			}
			return func() { lg.Add(rec.Ev{E: "torn", S: mode}) }
		})
		var hot ro.Observer[any] // feedback scenarios: the destination of the hand-made hot source
		var hotCtx context.Context
		if sc.Feedback {
			src = ro.NewUnsafeObservableWithContext(func(ctx context.Context, d ro.Observer[any]) ro.Teardown {
				hot, hotCtx = d, ctx
				return func() { lg.Add(rec.Ev{E: "torn", S: mode}) }
			})
		}
		nextIdx := 0
		var emitNext func()
		emitNext = func() { // emits script element nextIdx; called by the harness for the first one and from inside the observer afterwards
			if nextIdx >= len(sc.Script) || hot == nil {
				return
			}
			n := sc.Script[nextIdx]
			i := nextIdx
			nextIdx++
			switch n.K {
			case "N":
				lg.Add(rec.Ev{E: "src", S: mode})
				hot.NextWithContext(context.WithValue(hotCtx, rec.KeyItem, i), any(int(n.V.(float64))))
				if i+1 < len(sc.Script) && sc.Script[i+1].K != "N" {
					emitNext() // a value that was filtered out cannot carry the loop on: the terminal comes from the harness side
				}
			case "E":
				hot.ErrorWithContext(context.WithValue(hotCtx, rec.KeyItem, -1), cat.ErrSrc[1])
			case "C":
				hot.CompleteWithContext(context.WithValue(hotCtx, rec.KeyItem, -1))
			}
		}
		var o ro.Observable[any]
		var coll prometheus.Collector
		var sa *standalone
		if mode == "ref" {
			o = src
			for k, op := range ops {
				k := k
				o = ro.TapOnNext(func(any) { lg.Add(rec.Ev{E: "stage", I: k}) })(op(o))
			}
		} else {
			// the licence is looked at when the pipeline is SUBSCRIBED: half of the runs build the pipeline under the opposite licence state
			flip := seed%2 == 0
			roprometheus.SetVerifLicenseBypass((mode == "on") != flip)
			if sc.Standalone {
				// the licence is looked at when the operators are APPLIED: no flip here
				roprometheus.SetVerifLicenseBypass(mode == "on")
				sa = newStandalone()
				o = roprometheus.IncCounterOnSubscription[any](sa.sub)(src)
				for _, op := range ops {
					o = op(o)
				}
				o = roprometheus.IncCounterOnNext[any](sa.next)(o)
				o = roprometheus.ObserveNextLag[any](sa.lag)(o)
				o = roprometheus.IncCounterOnError[any](sa.err)(o)
				o = roprometheus.IncCounterOnComplete[any](sa.comp)(o)
			} else {
				o, coll = promPipe(roprometheus.CollectorConfig{Namespace: "verif"}, src, ops)
			}
			roprometheus.SetVerifLicenseBypass(mode == "on")
		}
		all := make([][]rec.Ev, sc.NSubs)
		var allMu sync.Mutex
		subscribe := func(k int) {
			var mu sync.Mutex
			var local []rec.Ev
			obs := ro.NewObserverWithContext(
				func(ctx context.Context, v any) {
					mu.Lock()
					local = append(local, rec.Ev{E: "obs", S: mode, K: "N", V: hashVal(v), I: hashMarkers(cat.Markers(ctx)), O: k})
					mu.Unlock()
					if sc.Feedback {
						emitNext() // re-entrant emission
					}
				},
				func(ctx context.Context, err error) {
					mu.Lock()
					local = append(local, rec.Ev{E: "obs", S: mode, K: "E", V: cat.CauseOf(err), I: hashMarkers(cat.Markers(ctx)), O: k})
					mu.Unlock()
				},
				func(ctx context.Context) {
					mu.Lock()
					local = append(local, rec.Ev{E: "obs", S: mode, K: "C", V: 0, I: hashMarkers(cat.Markers(ctx)), O: k})
					mu.Unlock()
				},
			)
			lg.Add(rec.Ev{E: "sub", S: mode})
			sub := o.SubscribeWithContext(base, obs)
			if sc.Feedback {
				done := make(chan struct{})
				go func() {
					defer close(done)
					for nextIdx < len(sc.Script) && hot != nil {
						before := nextIdx
						emitNext() // values the loop did not carry on (filtered out) are pushed from here
						if nextIdx == before {
							break
						}
					}
				}()
				select {
				case <-done:
				case <-time.After(8 * time.Second):
					lg.Add(rec.Ev{E: "hang", S: mode}) // a re-entrant emission never returned: a lock the plain pipeline does not have
					return
				}
			}
			sub.Unsubscribe()
			mu.Lock()
			allMu.Lock()
			all[k] = local
			allMu.Unlock()
			mu.Unlock()
		}
		// the observations of the subscriptions are logged subscription by subscription (each is an independent cold run)
		if sc.Conc && mode != "ref" {
			var wg sync.WaitGroup
			for k := 0; k < sc.NSubs; k++ {
				wg.Add(1)
				go func(k int) { defer wg.Done(); subscribe(k) }(k)
			}
			wg.Wait()
		} else {
			for k := 0; k < sc.NSubs; k++ {
				subscribe(k)
			}
		}
		// the observations are logged subscription by subscription (each is an independent run of the cold source)
		for _, evs := range all {
			for _, e := range evs {
				lg.Add(e)
			}
		}
		if sa != nil {
			sa.emit(lg, mode)
		}
		if coll != nil {
			reg := prometheus.NewRegistry()
			if err := reg.Register(coll); err == nil {
				mfs, _ := reg.Gather()
				emitMetrics(lg, mode, mfs)
			}
		}
	}
	runMode("ref")
	runMode("on")
	runMode("off")
	roprometheus.SetVerifLicenseBypass(false)
	lg.Add(rec.Ev{E: "end"})
	return lg.Events()
}

// standalone holds the metrics of the stand-alone instrumentation operators of one run.
type standalone struct {
	sub, next, err, comp prometheus.Counter
	lag                  prometheus.Summary
}

func newStandalone() *standalone {
	c := func(n string) prometheus.Counter {
		return prometheus.NewCounter(prometheus.CounterOpts{Name: "verif_sa_" + n})
	}
	return &standalone{sub: c("sub"), next: c("next"), err: c("err"), comp: c("comp"), lag: prometheus.NewSummary(prometheus.SummaryOpts{Name: "verif_sa_lag"})}
}

func (sa *standalone) emit(lg *rec.Log, mode string) {
	val := func(c prometheus.Metric) *dto.Metric { m := &dto.Metric{}; _ = c.Write(m); return m }
	for _, x := range []struct {
		k string
		v int
	}{{"sa_sub", int(val(sa.sub).GetCounter().GetValue())}, {"sa_next", int(val(sa.next).GetCounter().GetValue())}, {"sa_err", int(val(sa.err).GetCounter().GetValue())},
		{"sa_comp", int(val(sa.comp).GetCounter().GetValue())}, {"sa_lag", int(val(sa.lag).GetSummary().GetSampleCount())}} {
		if mode == "on" || x.v != 0 { // licence off: the operators are the identity, nothing is counted (a non-zero value is reported and rejected)
			lg.Add(rec.Ev{E: "metric", S: mode, K: x.k, V: x.v})
		}
	}
}

func hashVal(v any) int {
	s := cat.Canon(v)
	h := 0
	for _, c := range s {
		h = (h*31 + int(c)) % 1000003
	}
	return h
}

func hashMarkers(m []string) int {
	// the instrumentation adds its own context value; the harness markers must be unchanged
	sort.Strings(m)
	return hashVal(strings.Join(m, ","))
}

func emitMetrics(lg *rec.Log, mode string, mfs []*dto.MetricFamily) {
	for _, mf := range mfs {
		name := mf.GetName()
		for _, m := range mf.GetMetric() {
			switch {
			case strings.HasSuffix(name, "ro_subscriptions_total"):
				lg.Add(rec.Ev{E: "metric", S: mode, K: "subs", V: int(m.GetCounter().GetValue())})
			case strings.HasSuffix(name, "ro_notification_in_total"):
				lg.Add(rec.Ev{E: "metric", S: mode, K: "in", V: int(m.GetCounter().GetValue())})
			case strings.HasSuffix(name, "ro_notification_out_total"):
				lg.Add(rec.Ev{E: "metric", S: mode, K: "out", V: int(m.GetCounter().GetValue())})
			case strings.HasSuffix(name, "ro_notification_lag_seconds"):
				lg.Add(rec.Ev{E: "metric", S: mode, K: "lag", V: int(m.GetSummary().GetSampleCount())})
			case strings.HasSuffix(name, "ro_operator_processing_time_seconds_total"):
				idx := -1
				for _, l := range m.GetLabel() {
					if strings.Contains(l.GetName(), "index") {
						for _, c := range l.GetValue() {
							if idx < 0 {
								idx = 0
							}
							idx = idx*10 + int(c-'0')
						}
					}
				}
				lg.Add(rec.Ev{E: "metric", S: mode, K: "proc", I: idx, V: int(m.GetSummary().GetSampleCount())})
			}
		}
	}
}
