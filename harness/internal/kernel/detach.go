package kernel

import (
	"context"
	"errors"
	"fmt"
	"math/rand"
	"sync"
	"sync/atomic"
	"time"

	"github.com/samber/ro"

	"verif/harness/internal/pipe"
	"verif/harness/internal/rec"
)

// noCtx marks a notification that was read from a Go channel (no callback context exists).
var noCtx = context.WithValue(context.Background(), rec.KeyCb, "read from a channel")

// Direction-B driver for the hand-off operators and channel bridges (C08 hand-off clause, C17): DetachTrace.tla.

type DetachScenario struct {
	Op         string // observeon subscribeon tochannel fromchannel
	Cap        int
	N          int
	End        string // "C" "E" ""
	Profile    string // fast slow stall stop
	StallAt    int
	Unsub      string // "" "random" (only with End "")
	PanicFinal bool   // observeon: a TapOnFinalize callback placed after the operator panics (the panic surfaces on the operator's own goroutine: it must go to the unhandled-error hook)
	Park       bool   // tochannelsync: the subscribing goroutine is held for 5 ms right before it hands the channel to the observer
}

// handoutPark: goroutines that must be held at the hook point "operator_sink:ToChannel:handout" (schedule replay of the hand-out race)
var handoutPark sync.Map

// DetachHook is installed as the library's verification hook by drive-detach.
func DetachHook(point string, obj any) {
	if point == "operator_sink:ToChannel:handout" {
		if _, ok := handoutPark.Load(rec.Gid()); ok {
			time.Sleep(5 * time.Millisecond)
		}
	}
}

func GenDetach(r *rand.Rand) DetachScenario {
	if r.Intn(8) == 0 {
		// ToChannel over a SYNCHRONOUS source (it has ended before the channel is handed out unless the subscribing goroutine is quick)
		n := r.Intn(4)
		return DetachScenario{Op: "tochannelsync", N: n, Cap: n + 1 + r.Intn(2), End: []string{"C", "E"}[r.Intn(2)], Profile: "fast", Park: r.Intn(2) == 0}
	}
	ops := []string{"observeon", "subscribeon", "tochannel", "fromchannel"}
	sc := DetachScenario{Op: ops[r.Intn(4)], N: r.Intn(13), End: []string{"C", "C", "E", ""}[r.Intn(4)], Profile: []string{"fast", "slow", "stall", "stall", "stop"}[r.Intn(5)]}
	switch sc.Op {
	case "observeon", "subscribeon":
		sc.Cap = 1 + r.Intn(4)
	default:
		sc.Cap = r.Intn(4)
	}
	if sc.N > 0 {
		sc.StallAt = 1 + r.Intn(sc.N)
	} else if sc.Profile == "stall" || sc.Profile == "stop" {
		sc.Profile = "fast"
	}
	if sc.Op == "fromchannel" && sc.End == "E" {
		sc.End = "C" // a channel can only be closed
	}
	if sc.Op == "subscribeon" {
		// SubscribeOn consumes on the subscribing goroutine: there is no subscription handle before the stream ends (C14 known finding),
		// so these scenarios always end by a terminal and the consumer never stops for good
		if sc.End == "" {
			sc.End = "C"
		}
		if sc.Profile == "stop" {
			sc.Profile = "stall"
		}
	} else if sc.Profile == "stop" || sc.End == "" {
		sc.Unsub = "random" // a stream that never ends, or a consumer that stops, is cut by Unsubscribe
	}
	if sc.Op == "observeon" && sc.End != "" && sc.Unsub == "" && r.Intn(4) == 0 {
		sc.PanicFinal = true
	}
	return sc
}

// runToChannelSync: ToChannel over a synchronous source; the observer must get the channel (once) and read the N values, the terminal
// and the close from it - also when the subscribing goroutine is slow to hand the channel out.
func runToChannelSync(lg *rec.Log, sc DetachScenario) []rec.Ev {
	lg.Add(rec.Ev{E: "hdr", S: sc.Op, V: sc.Cap, I: sc.N, K: sc.End})
	base := context.WithValue(context.Background(), rec.KeySub, true)
	src := ro.NewUnsafeObservableWithContext(func(ctx context.Context, d ro.Observer[any]) ro.Teardown {
		for i := 1; i <= sc.N; i++ {
			d.NextWithContext(ctx, any(i))
		}
		if sc.End == "E" {
			d.ErrorWithContext(ctx, errCause[1])
		} else {
			d.CompleteWithContext(ctx)
		}
		return nil
	})
	got := make(chan (<-chan ro.Notification[any]), 1)
	done := make(chan struct{})
	go func() {
		defer close(done)
		select {
		case c := <-got:
			for n := range c {
				switch n.Kind {
				case ro.KindNext:
					lg.Add(rec.Ev{E: "consB", K: "N", V: n.Value.(int), B: true})
				case ro.KindError:
					lg.Add(rec.Ev{E: "consB", K: "E", B: true})
				default:
					lg.Add(rec.Ev{E: "consB", K: "C", B: true})
				}
				lg.Add(rec.Ev{E: "consE"})
			}
			lg.Add(rec.Ev{E: "closeSeen"})
		case <-time.After(300 * time.Millisecond):
		}
	}()
	subDone := make(chan ro.Subscription, 1)
	go func() {
		if sc.Park {
			handoutPark.Store(rec.Gid(), true)
			defer handoutPark.Delete(rec.Gid())
		}
		subDone <- ro.ToChannel[any](sc.Cap)(src).SubscribeWithContext(base, ro.NewObserverWithContext(
			func(ctx context.Context, c <-chan ro.Notification[any]) {
				lg.Add(rec.Ev{E: "handout", B: ctx != nil && ctx.Value(rec.KeySub) != nil})
				got <- c
			},
			func(ctx context.Context, err error) {},
			func(ctx context.Context) {},
		))
	}()
	var sub ro.Subscription
	select {
	case sub = <-subDone:
	case <-time.After(3 * time.Second):
		lg.Add(rec.Ev{E: "hang", S: "subscribe"})
	}
	<-done
	if sub != nil {
		sub.Unsubscribe()
	}
	lg.Add(rec.Ev{E: "end"})
	return lg.Events()
}

func RunDetach(lg *rec.Log, sc DetachScenario, seed int64) []rec.Ev {
	if sc.Op == "tochannelsync" {
		return runToChannelSync(lg, sc)
	}
	lg.Add(rec.Ev{E: "hdr", S: sc.Op, V: sc.Cap, I: sc.N})
	r := rand.New(rand.NewSource(seed))
	base := context.WithValue(context.Background(), rec.KeySub, true)
	release := make(chan struct{})
	var released int32
	doRelease := func() {
		if atomic.CompareAndSwapInt32(&released, 0, 1) {
			close(release)
		}
	}
	defer doRelease()
	var progress int64 // bumped by every producer / consumer event (used to detect that the producer is blocked)
	// ctxOK: the callback context carries the subscription marker and (for a value) the item marker of that very value (C09, CtxTrace.tla)
	ctxOK := func(ctx context.Context, k string, v int) bool {
		if ctx == nil {
			return false
		}
		if ctx.Value(rec.KeySub) == nil {
			return false
		}
		if sc.Op == "fromchannel" {
			return true // values come out of a Go channel: there is no per-item context
		}
		it, _ := ctx.Value(rec.KeyItem).(int)
		if k == "N" {
			return it == v
		}
		return it == -1
	}
	var termSeen int32 // the consumer has finished handling the terminal notification
	consume := func(k string, v int, ctx context.Context) {
		if k != "N" {
			defer atomic.StoreInt32(&termSeen, 1)
		}
		lg.Add(rec.Ev{E: "consB", K: k, V: v, B: ctx == noCtx || ctxOK(ctx, k, v)})
		atomic.AddInt64(&progress, 1)
		switch sc.Profile {
		case "slow":
			time.Sleep(time.Duration(20+r.Intn(200)) * time.Microsecond)
		case "stall", "stop":
			if k == "N" && v == sc.StallAt {
				<-release
			}
		}
		lg.Add(rec.Ev{E: "consE", K: k})
	}
	guard := func(p int, f func()) {
		defer func() {
			if e := recover(); e != nil {
				lg.Add(rec.Ev{E: "panic", P: p, S: fmt.Sprint(e)})
			}
		}()
		f()
	}
	obs := ro.NewObserverWithContext(
		func(ctx context.Context, v any) { consume("N", v.(int), ctx) },
		func(ctx context.Context, err error) { consume("E", 0, ctx) },
		func(ctx context.Context) { consume("C", 0, ctx) },
	)
	var sub ro.Subscription
	var subMu sync.Mutex
	getSub := func() ro.Subscription { subMu.Lock(); defer subMu.Unlock(); return sub }
	var wg sync.WaitGroup
	prodDone := make(chan struct{})
	term := func(d ro.Observer[any], i int) {
		switch sc.End {
		case "C":
			lg.Add(rec.Ev{E: "prodB", I: i, K: "C"})
			guard(1, func() { d.CompleteWithContext(context.WithValue(base, rec.KeyItem, -1)) })
			lg.Add(rec.Ev{E: "prodRet", I: i})
		case "E":
			lg.Add(rec.Ev{E: "prodB", I: i, K: "E"})
			guard(1, func() { d.ErrorWithContext(context.WithValue(base, rec.KeyItem, -1), errCause[1]) })
			lg.Add(rec.Ev{E: "prodRet", I: i})
		}
	}
	produceTo := func(d ro.Observer[any]) {
		defer close(prodDone)
		for i := 1; i <= sc.N; i++ {
			lg.Add(rec.Ev{E: "prodB", I: i, K: "N"})
			atomic.AddInt64(&progress, 1)
			guard(1, func() { d.NextWithContext(context.WithValue(base, rec.KeyItem, i), any(i)) })
			lg.Add(rec.Ev{E: "prodRet", I: i})
			atomic.AddInt64(&progress, 1)
		}
		term(d, sc.N+1)
	}
	var probeIn chan any
	ctl := &pipe.Ctl{}
	waitSubscribed := func() *pipe.DestOf {
		for i := 0; i < 5000; i++ {
			if d := ctl.Dest(0); d != nil {
				return d
			}
			time.Sleep(100 * time.Microsecond)
		}
		return nil
	}
	consDone := make(chan struct{})
	switch sc.Op {
	case "observeon":
		o := ro.ObserveOn[any](sc.Cap)(ctl.Observable("ctl-unsafe", nil))
		if sc.PanicFinal {
			o = ro.TapOnFinalize[any](func() { panic(errors.New("verif: this finalizer panics")) })(o)
		}
		guard(0, func() { s := o.SubscribeWithContext(base, obs); subMu.Lock(); sub = s; subMu.Unlock() })
		close(consDone)
		if d := ctl.Dest(0); d != nil {
			go produceTo(d.D)
		} else {
			close(prodDone)
		}
	case "subscribeon":
		o := ro.SubscribeOn[any](sc.Cap)(ctl.Observable("ctl-unsafe", nil))
		wg.Add(1)
		go func() {
			defer wg.Done()
			defer close(consDone)
			guard(0, func() { s := o.SubscribeWithContext(base, obs); subMu.Lock(); sub = s; subMu.Unlock() })
		}()
		if d := waitSubscribed(); d != nil {
			go produceTo(d.D)
		} else {
			close(prodDone)
		}
	case "tochannel":
		o := ro.ToChannel[any](sc.Cap)(ctl.Observable("ctl-unsafe", nil))
		got := make(chan (<-chan ro.Notification[any]), 1)
		chObs := ro.NewObserverWithContext(
			func(ctx context.Context, c <-chan ro.Notification[any]) {
				// the channel is handed to the observer in a value callback like any other (C09: its context derives from the subscription's)
				lg.Add(rec.Ev{E: "handout", B: ctx != nil && ctx.Value(rec.KeySub) != nil})
				select {
				case got <- c:
				default:
					lg.Add(rec.Ev{E: "panic", S: "a second channel was handed out"})
				}
			},
			func(ctx context.Context, err error) {},
			func(ctx context.Context) {},
		)
		guard(0, func() { s := o.SubscribeWithContext(base, chObs); subMu.Lock(); sub = s; subMu.Unlock() })
		go func() {
			defer close(consDone)
			select {
			case c := <-got:
				for n := range c {
					switch n.Kind {
					case ro.KindNext:
						consume("N", n.Value.(int), noCtx)
					case ro.KindError:
						consume("E", 0, noCtx)
					default:
						consume("C", 0, noCtx)
					}
				}
				lg.Add(rec.Ev{E: "closeSeen"})
			case <-time.After(5 * time.Second):
			}
		}()
		if d := waitSubscribed(); d != nil {
			go produceTo(d.D)
		} else {
			close(prodDone)
		}
	case "fromchannel":
		in := make(chan any, sc.Cap)
		probeIn = in
		o := ro.FromChannel[any](in)
		guard(0, func() { s := o.SubscribeWithContext(base, obs); subMu.Lock(); sub = s; subMu.Unlock() })
		close(consDone)
		go func() {
			defer close(prodDone)
			for i := 1; i <= sc.N; i++ {
				lg.Add(rec.Ev{E: "prodB", I: i, K: "N"})
				atomic.AddInt64(&progress, 1)
				sent := false
				for !sent {
					select {
					case in <- any(i):
						sent = true
					case <-release:
						// after the stalled consumer was released / unsubscribed nobody may be reading any more
						select {
						case in <- any(i):
							sent = true
						case <-time.After(20 * time.Millisecond):
							return
						}
					}
				}
				lg.Add(rec.Ev{E: "prodRet", I: i})
				atomic.AddInt64(&progress, 1)
			}
			if sc.End == "C" {
				lg.Add(rec.Ev{E: "prodB", I: sc.N + 1, K: "C"})
				close(in)
				lg.Add(rec.Ev{E: "prodRet", I: sc.N + 1})
			}
		}()
	}
	// wait until the producer has finished or makes no progress any more (blocked behind a stalled consumer)
	drain := false
	blocked := func(d time.Duration) bool {
		last := atomic.LoadInt64(&progress)
		deadline := time.Now().Add(d)
		for time.Now().Before(deadline) {
			if !drain {
				select {
				case <-prodDone:
					return false
				default:
				}
			}
			time.Sleep(2 * time.Millisecond)
			if cur := atomic.LoadInt64(&progress); cur != last {
				last = cur
				deadline = time.Now().Add(d)
			}
		}
		return true
	}
	blocked(25 * time.Millisecond)
	if sc.Unsub == "random" {
		if s := getSub(); s != nil {
			lg.Add(rec.Ev{E: "unsubB"})
			guard(2, s.Unsubscribe)
			lg.Add(rec.Ev{E: "unsubE"})
		}
	}
	doRelease()
	if sc.Op == "fromchannel" && sc.Unsub == "random" && sc.End == "" && probeIn != nil {
		// C17: FromChannel stops reading when unsubscribed. The reader is idle (everything sent so far was consumed or the consumer is
		// gone) and has had time to see the unsubscription; now cap+1 more sends can only ALL succeed if somebody still reads.
		select {
		case <-prodDone:
		case <-time.After(3 * time.Second):
		}
		time.Sleep(5 * time.Millisecond)
		if len(probeIn) == 0 {
			taken := 0
			for k := 0; k <= cap(probeIn); k++ {
				select {
				case probeIn <- any(1000 + k):
					taken++
				case <-time.After(30 * time.Millisecond):
				}
			}
			if taken == cap(probeIn)+1 {
				lg.Add(rec.Ev{E: "readAfterUnsub"})
			}
		}
	}
	select {
	case <-prodDone:
	case <-time.After(3 * time.Second):
		lg.Add(rec.Ev{E: "hang", S: "producer"})
	}
	select {
	case <-consDone:
	case <-time.After(3 * time.Second):
		lg.Add(rec.Ev{E: "hang", S: "consumer"})
	}
	// let the consumer side drain what was handed over (quiescence: no event for 25 ms)
	drain = true
	blocked(25 * time.Millisecond)
	if sc.Unsub == "" && sc.End != "" {
		// nothing cut the stream: the terminal must arrive; a quiet period is no proof under machine load, so wait for it (bounded)
		for k := 0; k < 60000 && atomic.LoadInt32(&termSeen) == 0; k++ {
			time.Sleep(50 * time.Microsecond)
		}
	}
	if s := getSub(); s != nil {
		s.Unsubscribe()
	}
	wg.Wait()
	lg.Add(rec.Ev{E: "end"})
	return lg.Events()
}
