package kernel

import (
	"context"
	"math/rand"
	"sync"

	"github.com/samber/ro"

	"verif/harness/internal/pipe"
	"verif/harness/internal/rec"
)

// Direction-B driver for C10 (linearizability): 2-4 threads run short operation sequences on one real subject;
// the history (inv / ret / recv) is validated by TLC against SubjectLin.tla.

type SubjOp struct {
	Op  string
	Arg int
}

type SubjScenario struct {
	Kind    string
	Buf     int
	Scripts [][]SubjOp
}

func GenSubj(r *rand.Rand) SubjScenario {
	kinds := []pipe.SCfg{{Kind: "publish"}, {Kind: "behavior"}, {Kind: "replay", Buf: 0}, {Kind: "replay", Buf: 1}, {Kind: "replay", Buf: 2}, {Kind: "replay", Buf: -1},
		{Kind: "async"}, {Kind: "unicast", Buf: 1}, {Kind: "unicast", Buf: 2}, {Kind: "unicast", Buf: -1}}
	k := kinds[r.Intn(len(kinds))]
	sc := SubjScenario{Kind: k.Kind, Buf: k.Buf}
	np := 2 + r.Intn(3)
	for p := 0; p < np; p++ {
		var s []SubjOp
		subscribed, done := false, false
		n := 2 + r.Intn(4)
		for j := 0; j < n; j++ {
			x := r.Intn(12)
			switch {
			case x < 5:
				s = append(s, SubjOp{"next", 10*(p+1) + j})
			case x < 8 && !subscribed && !done:
				s = append(s, SubjOp{"sub", p})
				subscribed = true
			case x < 10 && subscribed:
				s = append(s, SubjOp{"unsub", p})
				subscribed, done = false, true
			case x == 10:
				s = append(s, SubjOp{"complete", 0})
			case x == 11:
				s = append(s, SubjOp{"error", 0})
			default:
				s = append(s, SubjOp{"next", 10*(p+1) + j})
			}
		}
		sc.Scripts = append(sc.Scripts, s)
	}
	return sc
}

func RunSubj(lg *rec.Log, sc SubjScenario, seed int64, pk *rec.Parker) []rec.Ev {
	lg.Add(rec.Ev{E: "hdr", S: sc.Kind, V: sc.Buf})
	subj := pipe.NewSubject(pipe.SCfg{Kind: sc.Kind, Buf: sc.Buf})
	base := context.WithValue(context.Background(), rec.KeySub, true)
	subs := make([]ro.Subscription, len(sc.Scripts))
	mkObs := func(i int) ro.Observer[any] {
		return ro.NewObserverWithContext(
			func(ctx context.Context, v any) { lg.Add(rec.Ev{E: "recv", O: i, K: "N", V: v.(int)}) },
			func(ctx context.Context, err error) {
				c := 1
				if err == ro.ErrUnicastSubjectConcurrent {
					c = 106
				}
				lg.Add(rec.Ev{E: "recv", O: i, K: "E", V: c})
			},
			func(ctx context.Context) { lg.Add(rec.Ev{E: "recv", O: i, K: "C", V: 0}) },
		)
	}
	var wg, wgOthers sync.WaitGroup
	start := make(chan struct{})
	startOthers := start
	victimDone := make(chan struct{})
	if pk != nil {
		startOthers = make(chan struct{})
	}
	for p := range sc.Scripts {
		p := p
		wg.Add(1)
		if p > 0 {
			wgOthers.Add(1)
		}
		go func() {
			defer wg.Done()
			if p > 0 {
				defer wgOthers.Done()
			} else {
				defer close(victimDone)
			}
			if pk != nil && p == 0 {
				pk.SetVictim(rec.Gid())
			}
			st := start
			if p > 0 {
				st = startOthers
			}
			r := rand.New(rand.NewSource(seed*1000 + int64(p)))
			<-st
			for _, op := range sc.Scripts[p] {
				if pk == nil {
					jitter(r)
				}
				lg.Add(rec.Ev{E: "inv", P: p, S: op.Op, V: op.Arg})
				switch op.Op {
				case "next":
					subj.NextWithContext(base, any(op.Arg))
				case "error":
					subj.ErrorWithContext(base, errCause[1])
				case "complete":
					subj.CompleteWithContext(base)
				case "sub":
					subs[p] = subj.SubscribeWithContext(base, mkObs(p))
				case "unsub":
					subs[p].Unsubscribe()
				}
				lg.Add(rec.Ev{E: "ret", P: p})
			}
		}()
	}
	close(start)
	if pk != nil {
		select {
		case <-pk.Parked():
		case <-victimDone:
		}
		close(startOthers)
		othersDone := make(chan struct{})
		go func() { wgOthers.Wait(); close(othersDone) }()
		select {
		case <-othersDone:
		case <-timeAfterMs(30):
		}
		pk.Release()
	}
	wg.Wait()
	lg.Add(rec.Ev{E: "end"})
	return lg.Events()
}
