package kernel

import (
	"context"
	"errors"
	"math/rand"
	"strings"
	"sync"
	"time"

	"github.com/samber/ro"

	"verif/harness/internal/pipe"
	"verif/harness/internal/rec"
)

// Direction-B driver for the time-driven operators (C16): TimedTrace.tla.

type TimedScenario struct {
	Op       string
	D        int   // duration, microseconds
	P2       int   // second parameter (initial delay in us, or buffer size)
	Gaps     []int // microseconds to wait BEFORE each emission
	End      string
	SlowAt   int // 1-based index of an emission whose consumer callback dwells for SlowUs (0 = none)
	SlowUs   int
	UnsubAt  int // microseconds after subscription (0 = never; sources without emissions always get one)
	TermGap  int // microseconds to wait before the terminal
	Variant  int // countedinterval: which constructor
	CancelAt int // delay / delayeach: the subscription context (parent of every item context) is cancelled this many microseconds after subscription (0 = never)
}

var timedOps = []string{"delay", "delay", "delayeach", "timeout", "timeout", "interval", "intervalinitial", "timer", "throttle", "sample", "buffertime", "buffertimecount", "samplesource", "ctxtimeout", "countedinterval"}

// OnlyTimedOp restricts GenTimed to one operator ("" = all).
var OnlyTimedOp string

func GenTimed(r *rand.Rand) TimedScenario {
	opName := timedOps[r.Intn(len(timedOps))]
	if OnlyTimedOp != "" {
		opName = OnlyTimedOp
	}
	sc := TimedScenario{Op: opName, D: 1000 * (2 + r.Intn(12))}
	switch sc.Op {
	case "intervalinitial":
		sc.P2 = 1000 * (1 + r.Intn(8))
	case "buffertimecount":
		sc.P2 = 1 + r.Intn(3)
	case "countedinterval":
		// the periodic sources with a count: RangeWithInterval (ascending, descending), RepeatWithInterval, RangeWithStepAndInterval
		sc.P2 = 1 + r.Intn(4)
		sc.Variant = r.Intn(4)
	case "ctxtimeout":
		sc.P2 = []int{0, sc.D / 2, 2 * sc.D, 3 * sc.D}[r.Intn(4)] // the pipeline is built this long before it is subscribed
	}
	n := 3 + r.Intn(8)
	for i := 0; i < n; i++ {
		var g int
		switch r.Intn(6) {
		case 0:
			g = 0
		case 1:
			g = sc.D / 4
		case 2:
			g = sc.D / 2
		case 3:
			g = sc.D - 200 + r.Intn(400)
		case 4:
			g = sc.D + sc.D/3
		default:
			g = 2 * sc.D
		}
		sc.Gaps = append(sc.Gaps, g)
	}
	sc.End = []string{"C", "C", "E", ""}[r.Intn(4)]
	sc.TermGap = []int{0, sc.D / 2, 2 * sc.D, 3 * sc.D}[r.Intn(4)]
	if r.Intn(2) == 0 {
		sc.SlowAt = 1 + r.Intn(n)
		sc.SlowUs = sc.D/3 + r.Intn(sc.D)
	}
	if sc.Op == "timeout" && r.Intn(2) == 0 {
		// emissions closer than the period, with a consumer that dwells: a timer that is not re-armed would fire in between
		for i := range sc.Gaps {
			sc.Gaps[i] = sc.D*2/3 + r.Intn(sc.D/6)
		}
		sc.SlowAt = 1 + r.Intn(n)
		sc.SlowUs = sc.D*2/3 + r.Intn(sc.D/4)
	}
	if sc.End == "" || r.Intn(4) == 0 {
		sc.UnsubAt = 1 + r.Intn(10*sc.D)
	}
	if (sc.Op == "delay" || sc.Op == "delayeach") && r.Intn(3) == 0 {
		// a cancelled context does not make a delayed value arrive early
		sc.CancelAt = 1 + r.Intn(4*sc.D)
	}
	switch sc.Op {
	case "interval", "intervalinitial", "timer", "samplesource", "countedinterval":
		sc.Gaps = nil
		sc.UnsubAt = sc.D*(2+r.Intn(5)) + r.Intn(sc.D)
		if sc.Op == "intervalinitial" {
			sc.UnsubAt += sc.P2
		}
		if (sc.Op == "interval" || sc.Op == "intervalinitial" || sc.Op == "countedinterval") && r.Intn(3) == 0 {
			// the periodic sources watch the subscription context: cancelled well before the unsubscription, they fall silent
			sc.CancelAt = 1 + r.Intn(sc.UnsubAt/2)
			sc.UnsubAt += 6 * sc.D
		}
	}
	return sc
}

func RunTimed(lg *rec.Log, sc TimedScenario, seed int64) []rec.Ev {
	start := time.Now()
	us := func() int { return int(time.Since(start) / time.Microsecond) }
	lg.Add(rec.Ev{E: "hdr", S: sc.Op, V: sc.D, I: sc.P2})
	base := context.WithValue(context.Background(), rec.KeySub, true)
	var cancelBase context.CancelFunc = func() {}
	if sc.CancelAt > 0 {
		base, cancelBase = context.WithCancel(base)
	}
	defer cancelBase()
	d := time.Duration(sc.D) * time.Microsecond
	ctl := &pipe.Ctl{}
	src := ctl.Observable("ctl-unsafe", nil)
	var o ro.Observable[any]
	hasSource := true
	switch sc.Op {
	case "delay":
		o = ro.Delay[any](d)(src)
	case "delayeach":
		o = ro.DelayEach[any](d)(src)
	case "timeout":
		o = ro.Timeout[any](d)(src)
	case "throttle":
		o = ro.ThrottleTime[any](d)(src)
	case "sample":
		o = ro.SampleTime[any](d)(src)
	case "buffertime":
		o = ro.Map(func(b []any) any { return b })(ro.BufferWithTime[any](d)(src))
	case "buffertimecount":
		o = ro.Map(func(b []any) any { return b })(ro.BufferWithTimeOrCount[any](sc.P2, d)(src))
	case "ctxtimeout":
		// ContextWithTimeout(d): every value gets a context that expires d after the value passed - however long ago the pipeline was BUILT
		// (P2 = microseconds between building the pipeline and subscribing to it)
		o = ro.ContextWithTimeout[any](d)(src)
		if sc.P2 > 0 {
			time.Sleep(time.Duration(sc.P2) * time.Microsecond)
		}
	case "interval", "samplesource":
		o = ro.Map(func(v int64) any { return int(v) })(ro.Interval(d))
		hasSource = false
	case "intervalinitial":
		o = ro.Map(func(v int64) any { return int(v) })(ro.IntervalWithInitial(time.Duration(sc.P2)*time.Microsecond, d))
		hasSource = false
	case "timer":
		o = ro.Map(func(v time.Duration) any { return int(v / time.Microsecond) })(ro.Timer(d))
		hasSource = false
	case "countedinterval":
		// values are decoded to their index 0, 1, 2, ... (-1 = not the value the constructor's definition gives at that position)
		n := int64(sc.P2)
		k := 0
		idx := func(ok bool) any {
			k++
			if !ok {
				return -1
			}
			return k - 1
		}
		switch sc.Variant {
		case 0:
			o = ro.Map(func(v int64) any { return idx(v == 5+int64(k)) })(ro.RangeWithInterval(5, 5+n, d))
		case 1:
			o = ro.Map(func(v int64) any { return idx(v == 5-int64(k)) })(ro.RangeWithInterval(5, 5-n, d))
		case 2:
			o = ro.Map(func(v int) any { return idx(v == 7) })(ro.RepeatWithInterval(7, n, d))
		default:
			o = ro.Map(func(v float64) any { return idx(v == 1.0+0.5*float64(k)) })(ro.RangeWithStepAndInterval(1.0, 1.0+0.5*float64(n), 0.5, d))
		}
		hasSource = false
	}
	nrecv := 0
	var rmu sync.Mutex
	obs := ro.NewObserverWithContext(
		func(ctx context.Context, v any) {
			rmu.Lock()
			nrecv++
			k := nrecv
			rmu.Unlock()
			e := rec.Ev{E: "recv", K: "N", U: us(), B: ctx != nil && ctx.Value(rec.KeySub) != nil}
			if sc.Op == "ctxtimeout" && ctx.Err() != nil {
				e.I = 1 // the context of this value has already expired when the value arrives
			}
			switch x := v.(type) {
			case int:
				e.V = x
				if hasSource && e.B {
					// a value that passes through unchanged keeps the context it was emitted with (item marker = the value)
					it, _ := ctx.Value(rec.KeyItem).(int)
					e.B = it == x
				}
			case []any:
				e.I = len(x)
				if len(x) > 0 {
					e.V = x[0].(int)
				}
			}
			if sc.Op == "timer" {
				e.V = 0
			}
			lg.Add(e)
			if sc.SlowAt > 0 && hasSource && v == any(sc.SlowAt) {
				time.Sleep(time.Duration(sc.SlowUs) * time.Microsecond)
			}
			_ = k
		},
		func(ctx context.Context, err error) {
			c := 1
			if strings.Contains(err.Error(), "timeout") || errors.Is(err, context.DeadlineExceeded) {
				c = 9
			}
			lg.Add(rec.Ev{E: "recv", K: "E", V: c, U: us(), B: ctx != nil && ctx.Value(rec.KeySub) != nil})
			rmu.Lock()
			nrecv++
			rmu.Unlock()
		},
		func(ctx context.Context) {
			lg.Add(rec.Ev{E: "recv", K: "C", U: us(), B: ctx != nil && ctx.Value(rec.KeySub) != nil})
			rmu.Lock()
			nrecv++
			rmu.Unlock()
		},
	)
	lg.Add(rec.Ev{E: "sub", U: us()})
	var sub ro.Subscription
	subDone := make(chan struct{})
	go func() { // Timer blocks inside Subscribe
		defer close(subDone)
		sub = o.SubscribeWithContext(base, obs)
	}()
	if hasSource {
		<-subDone
	}
	var wg sync.WaitGroup
	if sc.CancelAt > 0 {
		wg.Add(1)
		go func() {
			defer wg.Done()
			time.Sleep(time.Duration(sc.CancelAt) * time.Microsecond)
			lg.Add(rec.Ev{E: "cancel", U: us()})
			cancelBase()
		}()
	}
	unsubbed := make(chan struct{})
	if sc.UnsubAt > 0 {
		wg.Add(1)
		go func() {
			defer wg.Done()
			time.Sleep(time.Duration(sc.UnsubAt) * time.Microsecond)
			<-subDone
			lg.Add(rec.Ev{E: "unsubB", U: us()})
			sub.Unsubscribe()
			lg.Add(rec.Ev{E: "unsubE", U: us()})
			close(unsubbed)
		}()
	}
	if hasSource {
		if dst := ctl.Dest(0); dst != nil {
			for i, g := range sc.Gaps {
				if g > 0 {
					time.Sleep(time.Duration(g) * time.Microsecond)
				}
				lg.Add(rec.Ev{E: "emit", I: i + 1, K: "N", V: i + 1, U: us()})
				dst.D.NextWithContext(context.WithValue(dst.Ctx, rec.KeyItem, i+1), any(i+1))
				lg.Add(rec.Ev{E: "emitE", U: us()})
			}
			if sc.End != "" && sc.TermGap > 0 {
				time.Sleep(time.Duration(sc.TermGap) * time.Microsecond)
			}
			switch sc.End {
			case "C":
				lg.Add(rec.Ev{E: "emit", I: len(sc.Gaps) + 1, K: "C", U: us()})
				dst.D.CompleteWithContext(dst.Ctx)
				lg.Add(rec.Ev{E: "emitE", U: us()})
			case "E":
				lg.Add(rec.Ev{E: "emit", I: len(sc.Gaps) + 1, K: "E", V: 1, U: us()})
				dst.D.ErrorWithContext(dst.Ctx, errCause[1])
				lg.Add(rec.Ev{E: "emitE", U: us()})
			}
		}
	}
	wg.Wait()
	<-subDone
	// let pending timers fire (Delay hands its queue over `d` later; Timeout may still fire)
	time.Sleep(2*d + 2*time.Millisecond)
	if (sc.Op == "delay" || sc.Op == "delayeach") && sc.UnsubAt == 0 {
		// everything emitted must come out: wait for it with a deadline that is out of proportion with the delays involved
		want := len(sc.Gaps)
		if sc.End != "" {
			want++
		}
		for i := 0; i < 3000; i++ {
			rmu.Lock()
			n := nrecv
			rmu.Unlock()
			if n >= want {
				break
			}
			time.Sleep(time.Millisecond)
		}
	}
	if sub != nil {
		sub.Unsubscribe()
	}
	lg.Add(rec.Ev{E: "end", U: us()})
	return lg.Events()
}
