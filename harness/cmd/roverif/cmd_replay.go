package main

import (
	"encoding/json"
	"flag"
	"fmt"
	"os"
	"strings"
	"sync"
	"sync/atomic"

	"verif/harness/internal/pipe"
)

// circuit breaker shared by the replay commands (one command per process)
var hangs, skipped int32

const maxHangs = 12

func init() {
	register("replay-pipeline", "direction A: replay TLC-generated Pipeline.tla cases on the real operators", func(args []string) int {
		fs := flag.NewFlagSet("replay-pipeline", flag.ExitOnError)
		in := fs.String("in", "", "TLC output file (PrintT JSON cases)")
		out := fs.String("out", "", "result JSON")
		modes := fs.String("modes", "ctl-unsafe,ctl-safe,sync", "source modes")
		maxm := fs.Int("max", 20000, "maximum number of mismatches kept in detail")
		_ = fs.Parse(args)
		ms := strings.Split(*modes, ",")
		type job struct {
			i int
			c *pipe.Case
		}
		jobs := make(chan job, 256)
		var mu sync.Mutex
		var all []pipe.Mismatch
		byClass := map[string]int{}
		perKey := map[string]int{}
		nontrivial := 0
		chains := map[string]bool{}
		var samples []json.RawMessage
		raw := map[int]json.RawMessage{}
		var wg sync.WaitGroup
		for w := 0; w < 16; w++ {
			wg.Add(1)
			go func() {
				defer wg.Done()
				for j := range jobs {
					if atomic.LoadInt32(&hangs) >= maxHangs {
						atomic.AddInt32(&skipped, 1) // circuit breaker: every hang costs a watchdog period and leaks a goroutine
						continue
					}
					var res []pipe.Mismatch
					for _, m := range ms {
						if m == "sync" && !syncable(j.c) {
							continue
						}
						pipe.Replay(j.i, j.c, m, &res)
					}
					nt := false
					for _, st := range j.c.Steps {
						if st.Do == "push" && st.N.K == "N" {
							nt = true
							break
						}
					}
					for _, m := range res {
						if strings.HasSuffix(m.Class, "hang") {
							atomic.AddInt32(&hangs, 1)
						}
					}
					mu.Lock()
					for _, m := range res {
						byClass[m.Class]++
						key := m.Class + "@" + m.Chain + "@" + m.Mode
						perKey[key]++
						// the detailed list keeps a few examples of EVERY (class, chain, mode), so that a flood of one kind cannot hide another
						if perKey[key] <= 6 && len(all) < *maxm {
							all = append(all, m)
							if len(raw) < 2000 {
								raw[m.Case] = json.RawMessage(j.c.Raw)
							}
						}
					}
					if nt {
						nontrivial++
					}
					chains[pipe.ChainName(j.c.Chain)] = true
					if len(samples) < 3 && j.i%997 == 0 {
						samples = append(samples, json.RawMessage(j.c.Raw))
					}
					mu.Unlock()
				}
			}()
		}
		n, err := pipe.ReadCases(*in, func(i int, c *pipe.Case) { jobs <- job{i, c} })
		close(jobs)
		wg.Wait()
		if err != nil {
			fmt.Fprintln(os.Stderr, err)
			return 2
		}
		summary := map[string]any{"cases": n, "replays": len(ms) * n, "nontrivial": nontrivial, "chains": len(chains),
			"skipped_after_hangs": atomic.LoadInt32(&skipped), "mismatches": all, "by_class": byClass, "samples": samples, "raw": raw}
		b, _ := json.Marshal(summary)
		if *out == "" {
			fmt.Println(string(b))
		} else if err := os.WriteFile(*out, b, 0o644); err != nil {
			fmt.Fprintln(os.Stderr, err)
			return 2
		}
		fmt.Printf("{\"cases\": %d, \"mismatches\": %d}\n", n, len(all))
		return 0
	})
}

func init() {
	register("replay-multi", "direction A: replay TLC-generated Multi.tla cases (multi-source operators, every arrival order)", func(args []string) int {
		fs := flag.NewFlagSet("replay-multi", flag.ExitOnError)
		in := fs.String("in", "", "TLC output file")
		out := fs.String("out", "", "result JSON")
		modes := fs.String("modes", "ctl-unsafe,ctl-safe", "source modes")
		_ = fs.Parse(args)
		ms := strings.Split(*modes, ",")
		var mu sync.Mutex
		var all []pipe.Mismatch
		byClass := map[string]int{}
		perKey := map[string]int{}
		raw := map[int]json.RawMessage{}
		var samples []json.RawMessage
		nontrivial := 0
		chains := map[string]bool{}
		type job struct {
			i int
			c *pipe.MCase
		}
		jobs := make(chan job, 256)
		var wg sync.WaitGroup
		for w := 0; w < 16; w++ {
			wg.Add(1)
			go func() {
				defer wg.Done()
				for j := range jobs {
					if atomic.LoadInt32(&hangs) >= maxHangs {
						atomic.AddInt32(&skipped, 1) // circuit breaker: every hang costs a watchdog period and leaks a goroutine
						continue
					}
					var res []pipe.Mismatch
					for _, m := range ms {
						pipe.ReplayMulti(j.i, j.c, m, &res)
					}
					srcs := map[int]bool{}
					for _, st := range j.c.Steps {
						if st.Do == "push" {
							srcs[st.Src] = true
						}
					}
					for _, m := range res {
						if strings.HasSuffix(m.Class, "hang") {
							atomic.AddInt32(&hangs, 1)
						}
					}
					mu.Lock()
					for _, m := range res {
						byClass[m.Class]++
						key := m.Class + "@" + m.Chain + "@" + m.Mode
						perKey[key]++
						if perKey[key] <= 6 {
							all = append(all, m)
							if len(raw) < 2000 {
								raw[m.Case] = json.RawMessage(j.c.Raw)
							}
						}
					}
					if len(srcs) >= 2 {
						nontrivial++
					}
					chains[j.c.M.G] = true
					if len(samples) < 3 && j.i%499 == 0 {
						samples = append(samples, json.RawMessage(j.c.Raw))
					}
					mu.Unlock()
				}
			}()
		}
		n, err := pipe.ReadMCases(*in, func(i int, c *pipe.MCase) { jobs <- job{i, c} })
		close(jobs)
		wg.Wait()
		if err != nil {
			fmt.Fprintln(os.Stderr, err)
			return 2
		}
		summary := map[string]any{"cases": n, "replays": len(ms) * n, "nontrivial": nontrivial, "chains": len(chains),
			"skipped_after_hangs": atomic.LoadInt32(&skipped), "mismatches": all, "by_class": byClass, "samples": samples, "raw": raw}
		b, _ := json.Marshal(summary)
		if err := os.WriteFile(*out, b, 0o644); err != nil {
			fmt.Fprintln(os.Stderr, err)
			return 2
		}
		fmt.Printf("{\"cases\": %d, \"mismatches\": %d}\n", n, len(all))
		return 0
	})
}

func init() {
	register("replay-subject", "direction A: replay TLC-generated SubjectSeq.tla operation sequences on the real subjects", func(args []string) int {
		fs := flag.NewFlagSet("replay-subject", flag.ExitOnError)
		in := fs.String("in", "", "TLC output file")
		out := fs.String("out", "", "result JSON")
		_ = fs.String("modes", "", "ignored")
		_ = fs.Parse(args)
		var mu sync.Mutex
		var all []pipe.Mismatch
		byClass := map[string]int{}
		perKey := map[string]int{}
		raw := map[int]json.RawMessage{}
		var samples []json.RawMessage
		nontrivial := 0
		chains := map[string]bool{}
		type job struct {
			i int
			c *pipe.SCase
		}
		jobs := make(chan job, 256)
		var wg sync.WaitGroup
		for w := 0; w < 16; w++ {
			wg.Add(1)
			go func() {
				defer wg.Done()
				for j := range jobs {
					if atomic.LoadInt32(&hangs) >= maxHangs {
						atomic.AddInt32(&skipped, 1) // circuit breaker: every hang costs a watchdog period and leaks a goroutine
						continue
					}
					var res []pipe.Mismatch
					pipe.ReplaySubject(j.i, j.c, &res)
					nt := false
					for _, op := range j.c.Ops {
						for _, d := range op.Deliv {
							if len(d) > 0 {
								nt = true
							}
						}
					}
					for _, m := range res {
						if strings.HasSuffix(m.Class, "hang") {
							atomic.AddInt32(&hangs, 1)
						}
					}
					mu.Lock()
					for _, m := range res {
						byClass[m.Class]++
						key := m.Class + "@" + m.Chain + "@" + j.c.Ops[max(m.Step, 0)].Op
						perKey[key]++
						if perKey[key] <= 6 {
							all = append(all, m)
							if len(raw) < 2000 {
								raw[m.Case] = json.RawMessage(j.c.Raw)
							}
						}
					}
					if nt {
						nontrivial++
					}
					chains[j.c.Cfg.Kind] = true
					if len(samples) < 3 && j.i%4999 == 0 {
						samples = append(samples, json.RawMessage(j.c.Raw))
					}
					mu.Unlock()
				}
			}()
		}
		n, err := pipe.ReadSCases(*in, func(i int, c *pipe.SCase) { jobs <- job{i, c} })
		close(jobs)
		wg.Wait()
		if err != nil {
			fmt.Fprintln(os.Stderr, err)
			return 2
		}
		summary := map[string]any{"cases": n, "replays": n, "nontrivial": nontrivial, "chains": len(chains),
			"skipped_after_hangs": atomic.LoadInt32(&skipped), "mismatches": all, "by_class": byClass, "samples": samples, "raw": raw}
		b, _ := json.Marshal(summary)
		if err := os.WriteFile(*out, b, 0o644); err != nil {
			fmt.Fprintln(os.Stderr, err)
			return 2
		}
		fmt.Printf("{\"cases\": %d, \"mismatches\": %d}\n", n, len(all))
		return 0
	})
}

func init() {
	register("replay-share", "direction A: replay TLC-generated ShareSeq.tla operation sequences on the real Share/ShareReplay", func(args []string) int {
		fs := flag.NewFlagSet("replay-share", flag.ExitOnError)
		in := fs.String("in", "", "TLC output file")
		out := fs.String("out", "", "result JSON")
		_ = fs.String("modes", "", "ignored")
		_ = fs.Parse(args)
		var mu sync.Mutex
		var all []pipe.Mismatch
		byClass := map[string]int{}
		perKey := map[string]int{}
		raw := map[int]json.RawMessage{}
		var samples []json.RawMessage
		nontrivial := 0
		chains := map[string]bool{}
		type job struct {
			i int
			c *pipe.ShCase
		}
		jobs := make(chan job, 256)
		var wg sync.WaitGroup
		for w := 0; w < 16; w++ {
			wg.Add(1)
			go func() {
				defer wg.Done()
				for j := range jobs {
					if atomic.LoadInt32(&hangs) >= maxHangs {
						atomic.AddInt32(&skipped, 1) // circuit breaker: every hang costs a watchdog period and leaks a goroutine
						continue
					}
					var res []pipe.Mismatch
					pipe.ReplayShare(j.i, j.c, &res)
					nt := false
					for _, op := range j.c.Ops {
						for _, d := range op.Deliv {
							if len(d) > 0 {
								nt = true
							}
						}
					}
					for _, m := range res {
						if strings.HasSuffix(m.Class, "hang") {
							atomic.AddInt32(&hangs, 1)
						}
					}
					mu.Lock()
					for _, m := range res {
						byClass[m.Class]++
						key := m.Class + "@" + m.Chain + "@" + j.c.Ops[max(m.Step, 0)].Op
						perKey[key]++
						if perKey[key] <= 6 {
							all = append(all, m)
							if len(raw) < 2000 {
								raw[m.Case] = json.RawMessage(j.c.Raw)
							}
						}
					}
					if nt {
						nontrivial++
					}
					chains[j.c.Cfg.Kind] = true
					if len(samples) < 3 && j.i%4999 == 0 {
						samples = append(samples, json.RawMessage(j.c.Raw))
					}
					mu.Unlock()
				}
			}()
		}
		n, err := pipe.ReadShCases(*in, func(i int, c *pipe.ShCase) { jobs <- job{i, c} })
		close(jobs)
		wg.Wait()
		if err != nil {
			fmt.Fprintln(os.Stderr, err)
			return 2
		}
		summary := map[string]any{"cases": n, "replays": n, "nontrivial": nontrivial, "chains": len(chains),
			"skipped_after_hangs": atomic.LoadInt32(&skipped), "mismatches": all, "by_class": byClass, "samples": samples, "raw": raw}
		b, _ := json.Marshal(summary)
		if err := os.WriteFile(*out, b, 0o644); err != nil {
			fmt.Fprintln(os.Stderr, err)
			return 2
		}
		fmt.Printf("{\"cases\": %d, \"mismatches\": %d}\n", n, len(all))
		return 0
	})
}

func init() {
	register("replay-resub", "direction A: replay TLC-generated Resub.tla cases on the real re-subscribing operators", func(args []string) int {
		fs := flag.NewFlagSet("replay-resub", flag.ExitOnError)
		in := fs.String("in", "", "TLC output file")
		out := fs.String("out", "", "result JSON")
		modes := fs.String("modes", "sync,async", "attempt delivery modes")
		_ = fs.Parse(args)
		var mu sync.Mutex
		var all []pipe.Mismatch
		byClass := map[string]int{}
		perKey := map[string]int{}
		raw := map[int]json.RawMessage{}
		var samples []json.RawMessage
		nontrivial := 0
		chains := map[string]bool{}
		type job struct {
			i int
			c *pipe.RCase
		}
		jobs := make(chan job, 256)
		var wg sync.WaitGroup
		for w := 0; w < 16; w++ {
			wg.Add(1)
			go func() {
				defer wg.Done()
				for j := range jobs {
					if atomic.LoadInt32(&hangs) >= maxHangs {
						atomic.AddInt32(&skipped, 1) // circuit breaker: every hang costs a watchdog period and leaks a goroutine
						continue
					}
					var res []pipe.Mismatch
					for _, m := range strings.Split(*modes, ",") {
						pipe.ReplayResub(j.i, j.c, m, &res)
					}
					nt := false
					nt = len(j.c.Outs) >= 2
					for _, m := range res {
						if strings.HasSuffix(m.Class, "hang") {
							atomic.AddInt32(&hangs, 1)
						}
					}
					mu.Lock()
					for _, m := range res {
						byClass[m.Class]++
						key := m.Class + "@" + m.Chain + "@" + m.Mode
						perKey[key]++
						if perKey[key] <= 6 {
							all = append(all, m)
							if len(raw) < 2000 {
								raw[m.Case] = json.RawMessage(j.c.Raw)
							}
						}
					}
					if nt {
						nontrivial++
					}
					chains[j.c.O.G] = true
					if len(samples) < 3 && j.i%4999 == 0 {
						samples = append(samples, json.RawMessage(j.c.Raw))
					}
					mu.Unlock()
				}
			}()
		}
		n, err := pipe.ReadRCases(*in, func(i int, c *pipe.RCase) { jobs <- job{i, c} })
		close(jobs)
		wg.Wait()
		if err != nil {
			fmt.Fprintln(os.Stderr, err)
			return 2
		}
		summary := map[string]any{"cases": n, "replays": n * len(strings.Split(*modes, ",")), "nontrivial": nontrivial, "chains": len(chains),
			"skipped_after_hangs": atomic.LoadInt32(&skipped), "mismatches": all, "by_class": byClass, "samples": samples, "raw": raw}
		b, _ := json.Marshal(summary)
		if err := os.WriteFile(*out, b, 0o644); err != nil {
			fmt.Fprintln(os.Stderr, err)
			return 2
		}
		fmt.Printf("{\"cases\": %d, \"mismatches\": %d}\n", n, len(all))
		return 0
	})
}

// syncable: the synchronous cold source can only play scripts without an Unsubscribe in the middle
func syncable(c *pipe.Case) bool {
	for i, st := range c.Steps {
		if st.Do == "unsub" && i != len(c.Steps)-1 {
			return false
		}
	}
	return true
}

func init() {
	register("replay-creation", "direction A: replay TLC-generated Creation.tla cases (synchronous creation operators)", func(args []string) int {
		fs := flag.NewFlagSet("replay-creation", flag.ExitOnError)
		in := fs.String("in", "", "TLC output file")
		out := fs.String("out", "", "result JSON")
		_ = fs.String("modes", "sync", "unused")
		_ = fs.Parse(args)
		var all []pipe.Mismatch
		byClass := map[string]int{}
		perKey := map[string]int{}
		raw := map[int]json.RawMessage{}
		var samples []json.RawMessage
		chains := map[string]bool{}
		nontrivial := 0
		nhang := 0
		n, err := pipe.ReadCCases(*in, func(i int, c *pipe.CCase) {
			var res []pipe.Mismatch
			if nhang >= 5 {
				return // circuit breaker: every hang costs a watchdog period and leaks a goroutine
			}
			pipe.ReplayCreation(i, c, &res)
			for _, m := range res {
				if m.Class == "hang" {
					nhang++
				}
			}
			chains[c.Inst.Op] = true
			if len(c.Exp) > 1 {
				nontrivial++
			}
			if len(samples) < 3 && i%97 == 0 {
				samples = append(samples, json.RawMessage(c.Raw))
			}
			for _, m := range res {
				byClass[m.Class]++
				key := m.Class + "@" + m.Chain
				perKey[key]++
				if perKey[key] <= 6 {
					all = append(all, m)
					raw[m.Case] = json.RawMessage(c.Raw)
				}
			}
		})
		if err != nil {
			fmt.Fprintln(os.Stderr, err)
			return 2
		}
		summary := map[string]any{"cases": n, "replays": n, "nontrivial": nontrivial, "chains": len(chains),
			"skipped_after_hangs": 0, "mismatches": all, "by_class": byClass, "samples": samples, "raw": raw}
		b, _ := json.Marshal(summary)
		if *out == "" {
			fmt.Println(string(b))
		} else if err := os.WriteFile(*out, b, 0o644); err != nil {
			fmt.Fprintln(os.Stderr, err)
			return 2
		}
		fmt.Printf("{\"cases\": %d, \"mismatches\": %d}\n", n, len(all))
		return 0
	})
}

func init() {
	register("replay-pipeforms", "direction A: replay PipeForms.tla cases (Pipe / PipeOp / PipeN / PipeOpN, every arity)", func(args []string) int {
		fs := flag.NewFlagSet("replay-pipeforms", flag.ExitOnError)
		in := fs.String("in", "", "TLC output file")
		out := fs.String("out", "", "result JSON")
		_ = fs.String("modes", "sync", "unused")
		_ = fs.Parse(args)
		var all []pipe.Mismatch
		byClass := map[string]int{}
		raw := map[int]json.RawMessage{}
		var samples []json.RawMessage
		chains := map[string]bool{}
		n, err := pipe.ReadPFCases(*in, func(i int, c *pipe.PFCase) {
			var res []pipe.Mismatch
			pipe.ReplayPipeForm(i, c, &res)
			chains[c.Form] = true
			if len(samples) < 2 && c.N == 13 {
				samples = append(samples, json.RawMessage(c.Raw))
			}
			for _, m := range res {
				byClass[m.Class]++
				all = append(all, m)
				raw[m.Case] = json.RawMessage(c.Raw)
			}
		})
		if err != nil {
			fmt.Fprintln(os.Stderr, err)
			return 2
		}
		summary := map[string]any{"cases": n, "replays": n, "nontrivial": n, "chains": len(chains),
			"skipped_after_hangs": 0, "mismatches": all, "by_class": byClass, "samples": samples, "raw": raw}
		b, _ := json.Marshal(summary)
		if *out == "" {
			fmt.Println(string(b))
		} else if err := os.WriteFile(*out, b, 0o644); err != nil {
			fmt.Fprintln(os.Stderr, err)
			return 2
		}
		fmt.Printf("{\"cases\": %d, \"mismatches\": %d}\n", n, len(all))
		return 0
	})
}
