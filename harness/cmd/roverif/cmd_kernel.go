package main

import (
	"encoding/json"
	"flag"
	"fmt"
	"math/rand"
	"os"
	"sync"
	"time"

	"github.com/samber/ro"

	"verif/harness/internal/kernel"
	"verif/harness/internal/rec"
)

func init() {
	register("drive-kernel", "direction B: concurrent kernel/subject traces for ContractTrace.tla", func(args []string) int {
		fs := flag.NewFlagSet("drive-kernel", flag.ExitOnError)
		seed := fs.Int64("seed", 1, "seed")
		n := fs.Int("n", 100, "number of traces")
		out := fs.String("out", "trace.ndjson", "output NDJSON")
		par := fs.Int("par", 4, "traces run in parallel")
		scen := fs.String("scenarios", "", "write the scenarios (JSON lines) here")
		yield := fs.Bool("yield", true, "yield mode of the library hooks")
		_ = fs.Parse(args)
		kernel.InstallHooks()
		if *yield {
			ro.SetVerifHook(rec.NewYielder(*seed).Hook)
		}
		r := rand.New(rand.NewSource(*seed))
		scs := make([]kernel.Scenario, *n)
		for i := range scs {
			scs[i] = kernel.Gen(r)
		}
		res := make([][]rec.Ev, *n)
		sem := make(chan struct{}, *par)
		var wg sync.WaitGroup
		for i := range scs {
			wg.Add(1)
			sem <- struct{}{}
			go func(i int) {
				defer wg.Done()
				defer func() { <-sem }()
				// watchdog: a trace that does not finish (a lock left held, a Wait that never returns) is cut with a "hang" event,
				// which no action of the trace specification explains
				done := make(chan []rec.Ev, 1)
				lg := &rec.Log{T: i + 1}
				go func() { done <- kernel.RunWithLog(lg, scs[i], *seed*100003+int64(i)) }()
				select {
				case evs := <-done:
					res[i] = evs
				case <-time.After(60 * time.Second):
					lg.Add(rec.Ev{E: "hang"})
					res[i] = lg.Events()
				}
			}(i)
		}
		wg.Wait()
		w, err := rec.NewWriter(*out)
		if err != nil {
			fmt.Fprintln(os.Stderr, err)
			return 2
		}
		for _, evs := range res {
			w.Write(evs)
		}
		w.Close()
		if *scen != "" {
			f, _ := os.Create(*scen)
			enc := json.NewEncoder(f)
			for i, s := range scs {
				_ = enc.Encode(map[string]any{"t": i + 1, "scenario": s})
			}
			f.Close()
		}
		fmt.Printf("{\"traces\": %d, \"events\": %d}\n", *n, w.N)
		return 0
	})
}
