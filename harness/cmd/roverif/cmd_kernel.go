package main

import (
	"encoding/json"
	"flag"
	"fmt"
	"math/rand"
	"os"
	"sync"
	"time"

	"github.com/samber/ro"

	"verif/harness/internal/kernel"
	"verif/harness/internal/rec"
)

func init() {
	register("drive-park", "direction A (schedule replay): one preemption at every hook point of the victim producer, operator-level scenarios", func(args []string) int {
		fs := flag.NewFlagSet("drive-park", flag.ExitOnError)
		seed := fs.Int64("seed", 1, "seed")
		n := fs.Int("n", 20, "number of scenarios")
		out := fs.String("out", "trace.ndjson", "output NDJSON")
		scen := fs.String("scenarios", "", "write the scenarios (JSON lines) here")
		maxHits := fs.Int("maxhits", 80, "cap on preemption positions per scenario")
		_ = fs.Int("par", 1, "ignored (park mode is sequential: the hook is global)")
		_ = fs.Parse(args)
		kernel.InstallHooks()
		r := rand.New(rand.NewSource(*seed))
		w, err := rec.NewWriter(*out)
		if err != nil {
			fmt.Fprintln(os.Stderr, err)
			return 2
		}
		var sf *os.File
		var enc *json.Encoder
		if *scen != "" {
			sf, _ = os.Create(*scen)
			enc = json.NewEncoder(sf)
		}
		t := 0
		runOne := func(sc kernel.OpScenario, at int) int {
			t++
			pk := rec.NewParker(at)
			ro.SetVerifHook(pk.Hook)
			lg := &rec.Log{T: t}
			done := make(chan []rec.Ev, 1)
			go func() { done <- kernel.RunOpPark(lg, sc, *seed*7919+int64(t), pk) }()
			var evs []rec.Ev
			select {
			case evs = <-done:
			case <-time.After(4 * time.Second):
				pk.Release()
				lg.Add(rec.Ev{E: "hang", S: pk.Point})
				evs = lg.Events()
			}
			ro.SetVerifHook(nil)
			w.Write(evs)
			if enc != nil {
				_ = enc.Encode(map[string]any{"t": t, "scenario": sc, "park_at": at, "point": pk.Point})
			}
			return pk.Hits()
		}
		for i := 0; i < *n; i++ {
			sc := kernel.GenOp(r)
			sc.Len = 2 + r.Intn(3)
			sc.Slow = 0
			// terminals and unsubscription are where the check-then-act windows matter: bias towards them
			for k := range sc.Ends {
				sc.Ends[k] = []string{"E", "C", "E", "C", ""}[r.Intn(5)]
			}
			sc.Unsub = r.Intn(3) == 0
			if sc.K > 2 {
				sc.K = 2
				sc.Ends = sc.Ends[:2]
				if sc.Head == "Merge3" {
					sc.Head = "Merge"
				}
				if sc.Head == "CombineLatest3" {
					sc.Head = "CombineLatest2"
				}
			}
			hits := runOne(sc, 1<<30) // reference run: counts the victim's hook points
			if hits > *maxHits {
				hits = *maxHits
			}
			for at := 1; at <= hits; at++ {
				runOne(sc, at)
			}
		}
		w.Close()
		if sf != nil {
			sf.Close()
		}
		fmt.Printf("{\"traces\": %d, \"events\": %d}\n", t, w.N)
		return 0
	})
	register("drive-subject", "direction B: concurrent subject histories (inv/ret/recv) for SubjectLin.tla; -park: one preemption at every hook point of thread 0", func(args []string) int {
		fs := flag.NewFlagSet("drive-subject", flag.ExitOnError)
		seed := fs.Int64("seed", 1, "seed")
		n := fs.Int("n", 100, "number of histories (scenarios in park mode)")
		out := fs.String("out", "trace.ndjson", "output NDJSON")
		scen := fs.String("scenarios", "", "write the scenarios (JSON lines) here")
		park := fs.Bool("park", false, "park mode")
		par := fs.Int("par", 8, "histories run in parallel (free-running mode)")
		kind := fs.String("kind", "", "only scenarios of this subject kind (publish behavior replay async unicast)")
		_ = fs.Parse(args)
		kernel.InstallHooks()
		r := rand.New(rand.NewSource(*seed))
		genSubj := func(r *rand.Rand) kernel.SubjScenario {
			for {
				sc := kernel.GenSubj(r)
				if *kind == "" || sc.Kind == *kind {
					return sc
				}
			}
		}
		w, err := rec.NewWriter(*out)
		if err != nil {
			fmt.Fprintln(os.Stderr, err)
			return 2
		}
		var enc *json.Encoder
		if *scen != "" {
			sf, _ := os.Create(*scen)
			defer sf.Close()
			enc = json.NewEncoder(sf)
		}
		t := 0
		if *park {
			runOne := func(sc kernel.SubjScenario, at int) int {
				t++
				pk := rec.NewParker(at)
				ro.SetVerifHook(pk.Hook)
				lg := &rec.Log{T: t}
				done := make(chan []rec.Ev, 1)
				go func() { done <- kernel.RunSubj(lg, sc, *seed*7919+int64(t), pk) }()
				var evs []rec.Ev
				select {
				case evs = <-done:
				case <-time.After(4 * time.Second):
					pk.Release()
					lg.Add(rec.Ev{E: "hang", S: pk.Point})
					evs = lg.Events()
				}
				ro.SetVerifHook(nil)
				w.Write(evs)
				if enc != nil {
					_ = enc.Encode(map[string]any{"t": t, "scenario": sc, "park_at": at, "point": pk.Point})
				}
				return pk.Hits()
			}
			for i := 0; i < *n; i++ {
				sc := genSubj(r)
				if len(sc.Scripts) > 3 {
					sc.Scripts = sc.Scripts[:3]
				}
				hits := runOne(sc, 1<<30)
				if hits > 60 {
					hits = 60
				}
				for at := 1; at <= hits; at++ {
					runOne(sc, at)
				}
			}
		} else {
			ro.SetVerifHook(rec.NewYielder(*seed).Hook)
			scs := make([]kernel.SubjScenario, *n)
			res := make([][]rec.Ev, *n)
			for i := range scs {
				scs[i] = genSubj(r)
			}
			sem := make(chan struct{}, *par)
			var wg sync.WaitGroup
			for i := range scs {
				wg.Add(1)
				sem <- struct{}{}
				go func(i int) {
					defer wg.Done()
					defer func() { <-sem }()
					lg := &rec.Log{T: i + 1}
					done := make(chan []rec.Ev, 1)
					go func() { done <- kernel.RunSubj(lg, scs[i], *seed*100003+int64(i), nil) }()
					select {
					case res[i] = <-done:
					case <-time.After(20 * time.Second):
						lg.Add(rec.Ev{E: "hang"})
						res[i] = lg.Events()
					}
				}(i)
			}
			wg.Wait()
			for i, evs := range res {
				w.Write(evs)
				if enc != nil {
					_ = enc.Encode(map[string]any{"t": i + 1, "scenario": scs[i]})
				}
			}
			t = *n
		}
		w.Close()
		fmt.Printf("{\"traces\": %d, \"events\": %d}\n", t, w.N)
		return 0
	})
	register("drive-multilin", "direction B: concurrent multi-source runs (inv/ret/recv) for MultiLin.tla; -park: one preemption at every hook point of thread 0", func(args []string) int {
		fs := flag.NewFlagSet("drive-multilin", flag.ExitOnError)
		seed := fs.Int64("seed", 1, "seed")
		n := fs.Int("n", 100, "number of histories (scenarios in park mode)")
		out := fs.String("out", "trace.ndjson", "output NDJSON")
		scen := fs.String("scenarios", "", "write the scenarios (JSON lines) here")
		park := fs.Bool("park", false, "park mode")
		par := fs.Int("par", 8, "histories run in parallel (free-running mode)")
		only := fs.String("op", "", "only this constructor")
		_ = fs.Parse(args)
		kernel.OnlyMultiLinOp = *only
		kernel.InstallHooks()
		r := rand.New(rand.NewSource(*seed))
		w, err := rec.NewWriter(*out)
		if err != nil {
			fmt.Fprintln(os.Stderr, err)
			return 2
		}
		var enc *json.Encoder
		if *scen != "" {
			sf, _ := os.Create(*scen)
			defer sf.Close()
			enc = json.NewEncoder(sf)
		}
		t := 0
		if *park {
			pre := 0
			runOne := func(sc kernel.MultiLinScenario, at int) int {
				t++
				pk := rec.NewParker(at)
				ro.SetVerifHook(pk.Hook)
				lg := &rec.Log{T: t}
				done := make(chan []rec.Ev, 1)
				go func() { done <- kernel.RunMultiLinPre(lg, sc, *seed*7919+int64(t), pk, pre) }()
				var evs []rec.Ev
				select {
				case evs = <-done:
				case <-time.After(4 * time.Second):
					pk.Release()
					lg.Add(rec.Ev{E: "hang", S: pk.Point})
					evs = lg.Events()
				}
				ro.SetVerifHook(nil)
				w.Write(evs)
				if enc != nil {
					_ = enc.Encode(map[string]any{"t": t, "scenario": sc, "park_at": at, "point": pk.Point})
				}
				return pk.Hits()
			}
			for i := 0; i < *n; i++ {
				sc := kernel.GenMultiLin(r)
				// for every prefix length of the other producer: one preemption of the victim at every hook point it reaches
				for pre = 0; pre <= 3; pre++ {
					hits := runOne(sc, 1<<30)
					if hits > 40 {
						hits = 40
					}
					for at := 1; at <= hits; at++ {
						runOne(sc, at)
					}
				}
			}
		} else {
			ro.SetVerifHook(rec.NewYielder(*seed).Hook)
			scs := make([]kernel.MultiLinScenario, *n)
			res := make([][]rec.Ev, *n)
			for i := range scs {
				scs[i] = kernel.GenMultiLin(r)
			}
			sem := make(chan struct{}, *par)
			var wg sync.WaitGroup
			for i := range scs {
				wg.Add(1)
				sem <- struct{}{}
				go func(i int) {
					defer wg.Done()
					defer func() { <-sem }()
					lg := &rec.Log{T: i + 1}
					done := make(chan []rec.Ev, 1)
					go func() { done <- kernel.RunMultiLin(lg, scs[i], *seed*100003+int64(i), nil) }()
					select {
					case res[i] = <-done:
					case <-time.After(20 * time.Second):
						lg.Add(rec.Ev{E: "hang"})
						res[i] = lg.Events()
					}
				}(i)
			}
			wg.Wait()
			for i, evs := range res {
				w.Write(evs)
				if enc != nil {
					_ = enc.Encode(map[string]any{"t": i + 1, "scenario": scs[i]})
				}
			}
			t = *n
		}
		w.Close()
		fmt.Printf("{\"traces\": %d, \"events\": %d}\n", t, w.N)
		return 0
	})
	register("drive-share", "direction B: concurrent Share / connectable traces for ShareGauge.tla; -park: one preemption at every hook point of thread 0", func(args []string) int {
		fs := flag.NewFlagSet("drive-share", flag.ExitOnError)
		seed := fs.Int64("seed", 1, "seed")
		n := fs.Int("n", 100, "number of histories (scenarios in park mode)")
		out := fs.String("out", "trace.ndjson", "output NDJSON")
		scen := fs.String("scenarios", "", "write the scenarios (JSON lines) here")
		park := fs.Bool("park", false, "park mode")
		par := fs.Int("par", 8, "histories run in parallel (free-running mode)")
		shareOnly := fs.Bool("shareonly", false, "Share scenarios only (no connectables)")
		_ = fs.Parse(args)
		kernel.ShareOnly = *shareOnly
		if *park {
			kernel.ShareForcedShapes = 4
		}
		kernel.InstallHooks()
		r := rand.New(rand.NewSource(*seed))
		w, err := rec.NewWriter(*out)
		if err != nil {
			fmt.Fprintln(os.Stderr, err)
			return 2
		}
		var enc *json.Encoder
		if *scen != "" {
			sf, _ := os.Create(*scen)
			defer sf.Close()
			enc = json.NewEncoder(sf)
		}
		t := 0
		if *park {
			runOne := func(sc kernel.ShareScenario, at int) int {
				t++
				pk := rec.NewParker(at)
				ro.SetVerifHook(pk.Hook)
				lg := &rec.Log{T: t}
				done := make(chan []rec.Ev, 1)
				go func() { done <- kernel.RunShare(lg, sc, *seed*7919+int64(t), pk) }()
				var evs []rec.Ev
				select {
				case evs = <-done:
				case <-time.After(4 * time.Second):
					pk.Release()
					lg.Add(rec.Ev{E: "hang", S: pk.Point})
					evs = lg.Events()
				}
				ro.SetVerifHook(nil)
				w.Write(evs)
				if enc != nil {
					_ = enc.Encode(map[string]any{"t": t, "scenario": sc, "park_at": at, "point": pk.Point})
				}
				return pk.Hits()
			}
			for i := 0; i < *n; i++ {
				sc := kernel.GenShare(r)
				if len(sc.Scripts) > 3 {
					sc.Scripts = sc.Scripts[:3]
				}
				hits := runOne(sc, 1<<30)
				if hits > 60 {
					hits = 60
				}
				for at := 1; at <= hits; at++ {
					runOne(sc, at)
				}
			}
		} else {
			ro.SetVerifHook(rec.NewYielder(*seed).Hook)
			scs := make([]kernel.ShareScenario, *n)
			res := make([][]rec.Ev, *n)
			for i := range scs {
				scs[i] = kernel.GenShare(r)
			}
			sem := make(chan struct{}, *par)
			var wg sync.WaitGroup
			for i := range scs {
				wg.Add(1)
				sem <- struct{}{}
				go func(i int) {
					defer wg.Done()
					defer func() { <-sem }()
					lg := &rec.Log{T: i + 1}
					done := make(chan []rec.Ev, 1)
					go func() { done <- kernel.RunShare(lg, scs[i], *seed*100003+int64(i), nil) }()
					select {
					case res[i] = <-done:
					case <-time.After(20 * time.Second):
						lg.Add(rec.Ev{E: "hang"})
						res[i] = lg.Events()
					}
				}(i)
			}
			wg.Wait()
			for i, evs := range res {
				w.Write(evs)
				if enc != nil {
					_ = enc.Encode(map[string]any{"t": i + 1, "scenario": scs[i]})
				}
			}
			t = *n
		}
		w.Close()
		fmt.Printf("{\"traces\": %d, \"events\": %d}\n", t, w.N)
		return 0
	})
	register("drive-detach", "direction B: hand-off operators and channel bridges for DetachTrace.tla", func(args []string) int {
		fs := flag.NewFlagSet("drive-detach", flag.ExitOnError)
		seed := fs.Int64("seed", 1, "seed")
		n := fs.Int("n", 100, "number of traces")
		out := fs.String("out", "trace.ndjson", "output NDJSON")
		scen := fs.String("scenarios", "", "write the scenarios (JSON lines) here")
		par := fs.Int("par", 8, "traces run in parallel")
		_ = fs.Parse(args)
		kernel.InstallHooks()
		ro.SetVerifHook(kernel.DetachHook)
		r := rand.New(rand.NewSource(*seed))
		scs := make([]kernel.DetachScenario, *n)
		res := make([][]rec.Ev, *n)
		for i := range scs {
			scs[i] = kernel.GenDetach(r)
		}
		sem := make(chan struct{}, *par)
		var wg sync.WaitGroup
		for i := range scs {
			wg.Add(1)
			sem <- struct{}{}
			go func(i int) {
				defer wg.Done()
				defer func() { <-sem }()
				lg := &rec.Log{T: i + 1}
				done := make(chan []rec.Ev, 1)
				go func() { done <- kernel.RunDetach(lg, scs[i], *seed*100003+int64(i)) }()
				select {
				case res[i] = <-done:
				case <-time.After(30 * time.Second):
					lg.Add(rec.Ev{E: "hang"})
					res[i] = lg.Events()
				}
			}(i)
		}
		wg.Wait()
		w, err := rec.NewWriter(*out)
		if err != nil {
			fmt.Fprintln(os.Stderr, err)
			return 2
		}
		var enc *json.Encoder
		if *scen != "" {
			sf, _ := os.Create(*scen)
			defer sf.Close()
			enc = json.NewEncoder(sf)
		}
		for i, evs := range res {
			w.Write(evs)
			if enc != nil {
				_ = enc.Encode(map[string]any{"t": i + 1, "scenario": scs[i]})
			}
		}
		w.Close()
		fmt.Printf("{\"traces\": %d, \"events\": %d}\n", *n, w.N)
		return 0
	})
	register("drive-collect", "direction B: ro.Collect over synchronous / asynchronous producers for CollectTrace.tla", func(args []string) int {
		fs := flag.NewFlagSet("drive-collect", flag.ExitOnError)
		seed := fs.Int64("seed", 1, "seed")
		n := fs.Int("n", 100, "number of traces")
		out := fs.String("out", "trace.ndjson", "output NDJSON")
		scen := fs.String("scenarios", "", "write the scenarios (JSON lines) here")
		par := fs.Int("par", 8, "traces run in parallel")
		_ = fs.Parse(args)
		kernel.InstallHooks()
		yh := rec.NewYielder(*seed).Hook
		ro.SetVerifHook(func(point string, obj any) { kernel.CollectHook(point, obj); yh(point, obj) })
		r := rand.New(rand.NewSource(*seed))
		scs := make([]kernel.CollectScenario, *n)
		res := make([][]rec.Ev, *n)
		for i := range scs {
			scs[i] = kernel.GenCollect(r)
		}
		sem := make(chan struct{}, *par)
		var wg sync.WaitGroup
		for i := range scs {
			wg.Add(1)
			sem <- struct{}{}
			go func(i int) {
				defer wg.Done()
				defer func() { <-sem }()
				lg := &rec.Log{T: i + 1}
				done := make(chan []rec.Ev, 1)
				go func() { done <- kernel.RunCollect(lg, scs[i], *seed*100003+int64(i)) }()
				select {
				case res[i] = <-done:
				case <-time.After(30 * time.Second):
					lg.Add(rec.Ev{E: "hang"})
					res[i] = lg.Events()
				}
			}(i)
		}
		wg.Wait()
		w, err := rec.NewWriter(*out)
		if err != nil {
			fmt.Fprintln(os.Stderr, err)
			return 2
		}
		var enc *json.Encoder
		if *scen != "" {
			sf, _ := os.Create(*scen)
			defer sf.Close()
			enc = json.NewEncoder(sf)
		}
		for i, evs := range res {
			w.Write(evs)
			if enc != nil {
				_ = enc.Encode(map[string]any{"t": i + 1, "scenario": scs[i]})
			}
		}
		w.Close()
		fmt.Printf("{\"traces\": %d, \"events\": %d}\n", *n, w.N)
		return 0
	})
	register("drive-prom", "direction B: Prometheus instrumentation for Prom.tla", func(args []string) int {
		fs := flag.NewFlagSet("drive-prom", flag.ExitOnError)
		seed := fs.Int64("seed", 1, "seed")
		n := fs.Int("n", 100, "number of traces")
		out := fs.String("out", "trace.ndjson", "output NDJSON")
		scen := fs.String("scenarios", "", "write the scenarios (JSON lines) here")
		par := fs.Int("par", 1, "ignored: the licence switch of the plugin is global, runs are sequential")
		*par = 1
		_ = fs.Parse(args)
		kernel.InstallHooks()
		r := rand.New(rand.NewSource(*seed))
		scs := make([]kernel.PromScenario, *n)
		res := make([][]rec.Ev, *n)
		for i := range scs {
			scs[i] = kernel.GenPromAt(r, i)
		}
		sem := make(chan struct{}, *par)
		var wg sync.WaitGroup
		for i := range scs {
			wg.Add(1)
			sem <- struct{}{}
			go func(i int) {
				defer wg.Done()
				defer func() { <-sem }()
				lg := &rec.Log{T: i + 1}
				done := make(chan []rec.Ev, 1)
				go func() { done <- kernel.RunProm(lg, scs[i], *seed*100003+int64(i)) }()
				select {
				case res[i] = <-done:
				case <-time.After(30 * time.Second):
					lg.Add(rec.Ev{E: "hang"})
					res[i] = lg.Events()
				}
			}(i)
		}
		wg.Wait()
		w, err := rec.NewWriter(*out)
		if err != nil {
			fmt.Fprintln(os.Stderr, err)
			return 2
		}
		var enc *json.Encoder
		if *scen != "" {
			sf, _ := os.Create(*scen)
			defer sf.Close()
			enc = json.NewEncoder(sf)
		}
		for i, evs := range res {
			w.Write(evs)
			if enc != nil {
				_ = enc.Encode(map[string]any{"t": i + 1, "scenario": scs[i]})
			}
		}
		w.Close()
		fmt.Printf("{\"traces\": %d, \"events\": %d}\n", *n, w.N)
		return 0
	})
	register("drive-ratelimit", "direction B: rate limiters for RateLimitTrace.tla", func(args []string) int {
		fs := flag.NewFlagSet("drive-ratelimit", flag.ExitOnError)
		seed := fs.Int64("seed", 1, "seed")
		n := fs.Int("n", 100, "number of traces")
		out := fs.String("out", "trace.ndjson", "output NDJSON")
		scen := fs.String("scenarios", "", "write the scenarios (JSON lines) here")
		par := fs.Int("par", 8, "traces run in parallel")
		_ = fs.Parse(args)
		kernel.InstallHooks()
		r := rand.New(rand.NewSource(*seed))
		scs := make([]kernel.RLScenario, *n)
		res := make([][]rec.Ev, *n)
		for i := range scs {
			scs[i] = kernel.GenRL(r)
		}
		sem := make(chan struct{}, *par)
		var wg sync.WaitGroup
		for i := range scs {
			wg.Add(1)
			sem <- struct{}{}
			go func(i int) {
				defer wg.Done()
				defer func() { <-sem }()
				lg := &rec.Log{T: i + 1}
				done := make(chan []rec.Ev, 1)
				go func() { done <- kernel.RunRL(lg, scs[i], *seed*100003+int64(i)) }()
				select {
				case res[i] = <-done:
				case <-time.After(30 * time.Second):
					lg.Add(rec.Ev{E: "hang"})
					res[i] = lg.Events()
				}
			}(i)
		}
		wg.Wait()
		w, err := rec.NewWriter(*out)
		if err != nil {
			fmt.Fprintln(os.Stderr, err)
			return 2
		}
		var enc *json.Encoder
		if *scen != "" {
			sf, _ := os.Create(*scen)
			defer sf.Close()
			enc = json.NewEncoder(sf)
		}
		for i, evs := range res {
			w.Write(evs)
			if enc != nil {
				_ = enc.Encode(map[string]any{"t": i + 1, "scenario": scs[i]})
			}
		}
		w.Close()
		fmt.Printf("{\"traces\": %d, \"events\": %d}\n", *n, w.N)
		return 0
	})
	register("drive-timed", "direction B: time-driven operators for TimedTrace.tla", func(args []string) int {
		fs := flag.NewFlagSet("drive-timed", flag.ExitOnError)
		seed := fs.Int64("seed", 1, "seed")
		n := fs.Int("n", 100, "number of traces")
		out := fs.String("out", "trace.ndjson", "output NDJSON")
		scen := fs.String("scenarios", "", "write the scenarios (JSON lines) here")
		par := fs.Int("par", 8, "traces run in parallel")
		only := fs.String("op", "", "only scenarios of this operator")
		_ = fs.Parse(args)
		kernel.OnlyTimedOp = *only
		kernel.InstallHooks()
		r := rand.New(rand.NewSource(*seed))
		scs := make([]kernel.TimedScenario, *n)
		res := make([][]rec.Ev, *n)
		for i := range scs {
			scs[i] = kernel.GenTimed(r)
		}
		sem := make(chan struct{}, *par)
		var wg sync.WaitGroup
		for i := range scs {
			wg.Add(1)
			sem <- struct{}{}
			go func(i int) {
				defer wg.Done()
				defer func() { <-sem }()
				lg := &rec.Log{T: i + 1}
				done := make(chan []rec.Ev, 1)
				go func() { done <- kernel.RunTimed(lg, scs[i], *seed*100003+int64(i)) }()
				select {
				case res[i] = <-done:
				case <-time.After(30 * time.Second):
					lg.Add(rec.Ev{E: "hang"})
					res[i] = lg.Events()
				}
			}(i)
		}
		wg.Wait()
		w, err := rec.NewWriter(*out)
		if err != nil {
			fmt.Fprintln(os.Stderr, err)
			return 2
		}
		var enc *json.Encoder
		if *scen != "" {
			sf, _ := os.Create(*scen)
			defer sf.Close()
			enc = json.NewEncoder(sf)
		}
		for i, evs := range res {
			w.Write(evs)
			if enc != nil {
				_ = enc.Encode(map[string]any{"t": i + 1, "scenario": scs[i]})
			}
		}
		w.Close()
		fmt.Printf("{\"traces\": %d, \"events\": %d}\n", *n, w.N)
		return 0
	})
	register("drive-kernel", "direction B: concurrent kernel/subject traces for ContractTrace.tla", func(args []string) int {
		fs := flag.NewFlagSet("drive-kernel", flag.ExitOnError)
		seed := fs.Int64("seed", 1, "seed")
		n := fs.Int("n", 100, "number of traces")
		out := fs.String("out", "trace.ndjson", "output NDJSON")
		par := fs.Int("par", 4, "traces run in parallel")
		scen := fs.String("scenarios", "", "write the scenarios (JSON lines) here")
		ops := fs.Bool("ops", false, "operator-level scenarios (multi-source operators / subjects behind pass-through operators)")
		yield := fs.Bool("yield", true, "yield mode of the library hooks")
		chain := fs.Bool("chain", false, "only scenarios of the chain family (safe / eventually-safe observable, concurrent producers, pass-through operator | stateful operator)")
		_ = fs.Parse(args)
		kernel.InstallHooks()
		if *yield {
			ro.SetVerifHook(rec.NewYielder(*seed).Hook)
		}
		r := rand.New(rand.NewSource(*seed))
		scs := make([]kernel.Scenario, *n)
		oscs := make([]kernel.OpScenario, *n)
		for i := range scs {
			if *ops {
				oscs[i] = kernel.GenOp(r)
			} else if *chain {
				scs[i] = kernel.GenChain(r)
			} else {
				scs[i] = kernel.Gen(r)
			}
		}
		res := make([][]rec.Ev, *n)
		sem := make(chan struct{}, *par)
		var wg sync.WaitGroup
		for i := range scs {
			wg.Add(1)
			sem <- struct{}{}
			go func(i int) {
				defer wg.Done()
				defer func() { <-sem }()
				// watchdog: a trace that does not finish (a lock left held, a Wait that never returns) is cut with a "hang" event,
				// which no action of the trace specification explains
				done := make(chan []rec.Ev, 1)
				lg := &rec.Log{T: i + 1}
				go func() {
					if *ops {
						done <- kernel.RunOp(lg, oscs[i], *seed*100003+int64(i))
					} else {
						done <- kernel.RunWithLog(lg, scs[i], *seed*100003+int64(i))
					}
				}()
				select {
				case evs := <-done:
					res[i] = evs
				case <-time.After(25 * time.Second):
					lg.Add(rec.Ev{E: "hang"})
					res[i] = lg.Events()
				}
			}(i)
		}
		wg.Wait()
		w, err := rec.NewWriter(*out)
		if err != nil {
			fmt.Fprintln(os.Stderr, err)
			return 2
		}
		for _, evs := range res {
			w.Write(evs)
		}
		w.Close()
		if *scen != "" {
			f, _ := os.Create(*scen)
			enc := json.NewEncoder(f)
			for i, s := range scs {
				if *ops {
					_ = enc.Encode(map[string]any{"t": i + 1, "scenario": oscs[i]})
				} else {
					_ = enc.Encode(map[string]any{"t": i + 1, "scenario": s})
				}
			}
			f.Close()
		}
		fmt.Printf("{\"traces\": %d, \"events\": %d}\n", *n, w.N)
		return 0
	})
}
