package main

import (
	"encoding/json"
	"flag"
	"fmt"
	"math/rand"
	"os"

	"verif/harness/internal/lift"
	"verif/harness/internal/rec"
)

func init() {
	register("drive-lift", "direction B: data plugins as lifts of the functions they wrap, for Lift.tla", func(args []string) int {
		fs := flag.NewFlagSet("drive-lift", flag.ExitOnError)
		seed := fs.Int64("seed", 1, "seed")
		n := fs.Int("n", 3, "rounds: every registered plugin scenario is run n times")
		out := fs.String("out", "trace.ndjson", "output NDJSON")
		scen := fs.String("scenarios", "", "write the scenarios (JSON lines) here")
		_ = fs.Int("par", 1, "ignored")
		_ = fs.Parse(args)
		w, err := rec.NewWriter(*out)
		if err != nil {
			fmt.Fprintln(os.Stderr, err)
			return 2
		}
		var enc *json.Encoder
		if *scen != "" {
			sf, _ := os.Create(*scen)
			defer sf.Close()
			enc = json.NewEncoder(sf)
		}
		t := 0
		for round := 0; round < *n; round++ {
			for _, name := range lift.Names() {
				t++
				lg := &rec.Log{T: t}
				r := rand.New(rand.NewSource(*seed*7919 + int64(t)))
				func() {
					defer func() {
						if e := recover(); e != nil {
							lg.Add(rec.Ev{E: "panic", S: fmt.Sprint(e)})
						}
					}()
					lift.Scenarios[name](lg, r)
				}()
				w.Write(lg.Events())
				if enc != nil {
					_ = enc.Encode(map[string]any{"t": t, "scenario": map[string]any{"Op": name, "Round": round}})
				}
			}
		}
		w.Close()
		fmt.Printf("{\"traces\": %d, \"events\": %d}\n", t, w.N)
		return 0
	})
}
