package main

import (
	"fmt"

	"github.com/samber/ro"
)

func main() {
	v, err := ro.Collect(ro.Pipe1(ro.Just(1, 2, 3), ro.Map(func(x int) int { return x + 1 })))
	fmt.Println(v, err)
}
