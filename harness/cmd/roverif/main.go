// roverif is the Go side of the /verif machinery: replayers for TLC-generated cases (direction A) and
// drivers that record traces of the real library for TLC to validate (direction B).
package main

import (
	"fmt"
	"os"
)

type cmd struct {
	name string
	help string
	run  func(args []string) int
}

var cmds []cmd

func register(name, help string, run func(args []string) int) {
	cmds = append(cmds, cmd{name, help, run})
}

func main() {
	if len(os.Args) < 2 {
		usage()
		os.Exit(2)
	}
	for _, c := range cmds {
		if c.name == os.Args[1] {
			os.Exit(c.run(os.Args[2:]))
		}
	}
	usage()
	os.Exit(2)
}

func usage() {
	fmt.Fprintln(os.Stderr, "usage: roverif <command> [flags]")
	for _, c := range cmds {
		fmt.Fprintf(os.Stderr, "  %-18s %s\n", c.name, c.help)
	}
}
