#!/usr/bin/env python3
"""merge_matrix.py <result.json>... : merges seeded-matrix result files (later files win per mutant/check) into seeded/MATRIX.json and prints the summary."""
import json, os, sys
V = os.path.dirname(os.path.dirname(os.path.abspath(__file__)))
out = {}
for f in sys.argv[1:]:
    if not os.path.exists(f):
        continue
    for m, r in json.load(open(f)).items():
        for c, v in r.items():
            if isinstance(v, dict) and v.get('exit') == 2:
                continue          # an infrastructure failure of that run says nothing
            out.setdefault(m, {})[c] = v
ids = sorted(d for d in os.listdir(os.path.join(V, 'seeded')) if os.path.isdir(os.path.join(V, 'seeded', d)))
miss = []
for m in ids:
    meta = json.load(open(os.path.join(V, 'seeded', m, 'meta.json')))
    r = out.get(m, {})
    caught = [c for c, v in r.items() if isinstance(v, dict) and v.get('exit') == 1]
    if not caught:
        miss.append((m, meta['breaks_property'], sorted(r), 'OBSOLETE: ' + meta['obsolete'][:90] if meta.get('obsolete') else ''))
json.dump(out, open(os.path.join(V, 'seeded', 'MATRIX.json'), 'w'), indent=1, sort_keys=True)
print('%d mutants, %d with a result, %d caught by at least one check' % (len(ids), len([m for m in ids if m in out]), len(ids) - len(miss)))
for m in miss:
    print('NOT CAUGHT', m)
