#!/bin/bash
# Build the verification harness offline from files on disk only.
set -e
cd "$(dirname "$0")/.."
exec python3 -c "import sys; sys.path.insert(0,'lib'); import vlib; vlib.build_harness(verbose=True)"
