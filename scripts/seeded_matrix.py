#!/usr/bin/env python3
"""usage: seeded_matrix.py [<mutant-id> ...] [--checks C01,C02] : applies each seeded patch to /repo, runs the quick checks
(default: the property the mutant breaks), reverts, and records the result in /verif/seeded/MATRIX.json."""
import json, os, shutil, subprocess, sys
V0 = os.path.dirname(os.path.dirname(os.path.abspath(__file__)))
S = os.path.join(V0, 'seeded')
V, REPO, ENV = V0, '/repo', dict(os.environ)
if '--isolated' in sys.argv:
    # work on scratch copies of /repo and /verif (outside both), so that nothing else is disturbed; removed at the end
    base = '/var/tmp/verif-matrix-%d' % os.getpid()
    os.makedirs(base)
    subprocess.run(['rsync', '-a', '/repo/', base + '/repo/'], check=True)
    subprocess.run(['rsync', '-a', '--exclude', '.git', '--exclude', '.build', '--exclude', 'replays', V0 + '/', base + '/verif/'], check=True)
    V, REPO = base + '/verif', base + '/repo'
    ENV['VERIF_REPO'] = REPO
    import atexit
    atexit.register(lambda: shutil.rmtree(base, ignore_errors=True))
args = [a for a in sys.argv[1:] if not a.startswith('--')]
checks = None
for a in sys.argv[1:]:
    if a.startswith('--checks'):
        checks = a.split('=', 1)[1].split(',')
ids = args or sorted(d for d in os.listdir(S) if os.path.isdir(os.path.join(S, d)))
mp = os.path.join(S, 'MATRIX.json')
for a in sys.argv[1:]:
    if a.startswith('--out='):
        mp = a.split('=', 1)[1]
matrix = json.load(open(mp)) if os.path.exists(mp) else {}
for m in ids:
    patch = os.path.join(S, m, 'patch.diff')
    meta = json.load(open(os.path.join(S, m, 'meta.json')))
    cs = checks or [meta['breaks_property']]
    if subprocess.run(['git', '-C', REPO, 'apply', '--check', patch]).returncode != 0:
        print(m, 'PATCH DOES NOT APPLY'); matrix.setdefault(m, {})['_apply'] = 'conflict'; continue
    subprocess.run(['git', '-C', REPO, 'apply', patch], check=True)
    try:
        for c in cs:
            if not os.path.exists(os.path.join(V, 'checks', c.lower() + '.py')):
                matrix.setdefault(m, {})[c] = 'no-check-yet'; continue
            p = subprocess.run([os.path.join(V, 'check'), c], capture_output=True, text=True, env=ENV)
            viol = [l for l in p.stdout.splitlines() if l.startswith('VIOLATION')]
            matrix.setdefault(m, {})[c] = dict(exit=p.returncode, violations=len(viol), first=(viol[0][:300] if viol else None))
            print(m, c, 'exit', p.returncode, 'violations', len(viol), flush=True)
    finally:
        subprocess.run(['git', '-C', REPO, 'checkout', '--', '.'], check=True)
    json.dump(matrix, open(mp, 'w'), indent=1, sort_keys=True)
