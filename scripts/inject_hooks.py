#!/usr/bin/env python3
"""Mechanically inserts verifPoint(...) one-liners at every lock boundary of the core package (add-only):
   before  X.Lock()/X.RLock()      -> verifPoint("<file>:<func>:lock#k", nil)
   after   X.Unlock()/X.RUnlock()  -> verifPoint("<file>:<func>:unlocked#k", nil)
   before  defer X.Unlock()        -> defer verifPoint("<file>:<func>:ret#k", nil)   (runs after the unlock)
"""
import re, sys, os
files = sys.argv[1:]
for path in files:
    src = open(path).read().split('\n')
    out = []
    func = '?'
    recv = 'nil'
    counters = {}
    base = os.path.basename(path)[:-3]
    for line in src:
        m = re.match(r'^func (?:\([^)]*\)\s*)?([A-Za-z0-9_]+)', line)
        if m:
            func = m.group(1)
            mr = re.match(r'^func \((\w+) ', line)
            recv = mr.group(1) if mr else 'nil'
        ind = re.match(r'^(\s*)', line).group(1)
        def name(kind):
            k = counters.get((func, kind), 0); counters[(func, kind)] = k + 1
            return '%s:%s:%s#%d' % (base, func, kind, k)
        if re.match(r'^\s*[A-Za-z_][A-Za-z0-9_.]*\.(Lock|RLock)\(\)\s*$', line):
            out.append('%sverifPoint("%s", %s)' % (ind, name('lock'), recv))
            out.append(line)
        elif re.match(r'^\s*[A-Za-z_][A-Za-z0-9_.]*\.(Unlock|RUnlock)\(\)\s*$', line):
            out.append(line)
            out.append('%sverifPoint("%s", %s)' % (ind, name('unlocked'), recv))
        elif re.match(r'^\s*defer [A-Za-z_][A-Za-z0-9_.]*\.(Unlock|RUnlock)\(\)\s*$', line):
            out.append('%sdefer verifPoint("%s", %s)' % (ind, name('ret'), recv))
            out.append(line)
        else:
            out.append(line)
    open(path, 'w').write('\n'.join(out))
