#!/bin/bash
# usage: with_patch.sh <patch.diff> <command...>   applies the patch to /repo, runs the command, ALWAYS reverts.
P="$1"; shift
git -C /repo apply "$P" || { echo "patch does not apply"; exit 3; }
trap 'git -C /repo checkout -- . ; git -C /repo status --short | grep -v "^??" ' EXIT
"$@"
