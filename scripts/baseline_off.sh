#!/bin/bash
# Runs the repository's pinned baseline with the verif guard OFF (no -tags), same command as /root/.vp/BASELINE.json.
for m in $(cat /w/out/gomods.txt); do MF=$(cd /repo/$m && . /w/out/goenv.sh && gomodflag); (cd /repo/$m && go test $MF -json -vet=off -count=1 -timeout 25m ./...); done
