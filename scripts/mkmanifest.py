#!/usr/bin/env python3
"""Regenerates /verif/MANIFEST.json from the registry below (single source of truth) and validates it."""
import json, os, subprocess, sys
V = os.path.dirname(os.path.dirname(os.path.abspath(__file__)))
props = [json.loads(l) for l in open(os.path.join(V, 'properties.jsonl'))]

# property id -> (category, technique, level text, level note, design ref)
REG = {
 'C01': ('model_checking', 'TLA+ Level-2 model (KernelImpl.tla) checked by TLC + trace validation of real executions against Contract.tla',
         'TLC explores every interleaving of the lock/CAS-grain model of subscriber+subscription in small scope (grammar invariant); traces recorded from the real '
         'library (seeded concurrent producers with illegal scripts on observables and the 5 subjects, yield hooks at lock boundaries) are validated event by event by TLC '
         'against the contract acceptor with only the C01 clauses enabled.',
         'small scope (<=4 producers, scripts <=6); harness log order = real-time order; verdict only from real traces', '6/C01'),
 'C02': ('model_checking', 'TLA+ Level-2 model checked by TLC + trace validation against Contract.tla (no-overlap clause)',
         'NoOverlap invariant on KernelImpl.tla in all interleavings (small scope); real concurrent traces (slow callbacks, yield hooks) validated by TLC: a callback may begin only when none of the same observer is in flight.',
         'small scope; overlap must occur in a recorded run to be seen (yield hooks + slow callbacks make it near-certain when serialisation is missing)', '6/C02'),
 'C03': ('model_checking', 'TLA+ Level-2 model checked by TLC + trace validation against Contract.tla (teardown clauses)',
         'TeardownAtMostOnce / TeardownAtEnd / LocksReleased / termination on KernelImpl.tla for every race of Complete, Error, Unsubscribe and Add; real traces with racing disposers, adders and panicking teardowns validated by TLC.',
         'small scope; goroutine hygiene and per-operator release are covered by the pipeline parts', '6/C03'),
 'C06': ('model_checking', 'TLA+ Level-2 model checked by TLC + trace validation against Contract.tla (cut/Wait/IsClosed clauses)',
         'CutsDelivery on KernelImpl.tla; real traces with 0-3 concurrent Unsubscribe callers, inside-callback unsubscription, Wait and IsClosed probes validated by TLC.',
         'small scope; log order = real-time order', '6/C06'),
 'C04': ('model_checking', 'TLA+ reference semantics (Ops.tla/Pipeline.tla) enumerated exhaustively by TLC; every generated case replayed on the real operators',
         'Ops.tla defines every catalogue operator as a Mealy machine; TLC enumerates every behaviour of Pipeline.tla inside the bounds (all instances incl. flavours, aliases and boundary parameters; operator pairs) and prints the expected observation after each step; the Go replayer drives the real operators (controllable and synchronous sources) and compares values, order and terminal after every step.',
         'bounds: scripts <= 3-4 notifications over {-1,0,2}, chains <= 2; reference semantics pinned from documentation / pinned commit', '6/C04'),
 'C08': ('model_checking', 'TLA+ reference semantics enumerated by TLC; per-step replay on the real operators with goroutine identity of every callback',
         'Same generated cases as C04; the C08 verdict is the per-step part: after each individual source Next returns the observer must already hold exactly the expected outputs, delivered on the caller goroutine, and nothing may arrive later.',
         'hand-off operators (ObserveOn/SubscribeOn/ToChannel) are checked by the Detach part once built; bounds as C04', '6/C08'),
 'C09': ('model_checking', 'TLA+ reference semantics with context marker sets enumerated by TLC; replay with marker probes',
         'Every OpStep of Ops.tla states the context (set of markers) of each output; the replayer attaches markers at subscription and per item and compares the marker set of every callback; nil contexts and lost markers are violations, extra markers are notes.',
         'bounds as C04; markers attached at subscription, per item, by context operators and by context-aware callbacks', '6/C09'),
 'C14': ('model_checking', 'TLA+ reference semantics enumerated by TLC; replay with controllable never-ending sources and teardown counters',
         'Pipeline.tla requires the source to be released in the very step in which an operator terminates the stream; TLC enumerates all cut positions for all instances and pairs; the replayer checks the teardown counter of the controllable source right after that step, without emitting anything else.',
         'bounds as C04; operators that block inside Subscribe are covered by the Resub part once built', '6/C14'),
 'C07': ('fault_enumeration', 'fault plans enumerated by TLC in the TLA+ pipeline model (Faults) and executed on the real code',
         'Pipeline.tla carries a fault plan <callback position, invocation index, kind>; TLC enumerates every plan for every catalogue instance and pair together with every input script and prints the expected observation (values before the fault, exactly one Error with the injected cause and the context of the notification being processed, nothing after, source released); the replayer injects the panic at that invocation, with recover() around every harness call and a hang watchdog.',
         'positions: source subscribe function and value callbacks of operators; faults in the final observer callbacks not enumerated yet; one fault per run', '6/C07'),
 'C12': ('model_checking', 'TLA+ pipeline model with re-subscription enumerated by TLC; replay incl. interleaved subscriptions and shared operator values',
         'Pipeline.tla re-subscribes the same pipeline object after the first subscription closed and requires fresh stage state; TLC enumerates all such behaviours; the replayer additionally steps two subscriptions of one pipeline alternately and applies one operator value to two sources; laziness: the source subscribe counter is compared after construction and after every step.',
         'bounded: two subscriptions, scripts <= 3-5, chains <= 2; multi-source operators are covered by the OpsMulti part once built', '6/C12'),
 'C05': ('model_checking', 'TLA+ reference semantics of multi-source operators (Multi.tla): every tuple of source scripts x every arrival order enumerated by TLC; replay on the real operators',
         'Multi.tla defines one arrival processed to quiescence for merge / combine-latest / zip / race / take-until / skip-until / buffer-when / sample-when / throttle-when (creation and operator forms, 2-3 sources); the nondeterministic choice of the emitting source makes TLC enumerate EVERY interleaving of the source scripts; each behaviour is replayed over controllable sources and output, IsClosed and per-source subscribe/teardown counters are compared after each arrival. The concurrent clause is exercised by the park-mode schedule replay and free-running drivers of C01/C02 (grammar/overlap) only.',
         'sequential clause exhaustive within bounds (<= 3 notifications per source); concurrent clause: only contract-level oracles so far; concat/flat-map/group-by/window-when not yet in Multi.tla', '6/C05'),
 'C10': ('model_checking', 'TLA+ sequential definition of the 5 subjects enumerated by TLC and replayed; linearizability of real concurrent histories decided by TLC (silent linearization steps)',
         'SubjectSeq.tla is the sequential definition; TLC enumerates every operation sequence inside the bounds for 11 kind/buffer configurations and the real subjects are driven through each (deliveries per subscriber and the 5 getters compared after every operation). SubjectLin.tla accepts a recorded concurrent history iff some placement of one silent linearization step per call explains every subscriber\'s observations; histories come from free-running threads with yield hooks and from park-mode schedule replay (one preemption at every hook point).',
         'bounds: <= 6 operations sequentially; 2-4 threads x <= 5 calls concurrently; one relaxation (a notification overlapping an Unsubscribe(i) may be cut for i)', '6/C10'),
 'C11': ('model_checking', 'TLA+ sequential definitions of Share/ShareReplay/connectable enumerated by TLC and replayed; concurrent traces validated by TLC against a gauge acceptor',
         'ShareSeq.tla and ConnSeq.tla define the reference count, reset flags and connector behaviour; TLC enumerates every operation sequence inside the bounds for 32 Share configurations and 8 connectable configurations; the real operators are driven through each over an instrumented source (deliveries, live and total upstream subscriptions after every operation). Concurrent traces (free-running with yield hooks and park-mode schedule replay) are validated against ShareGauge.tla.',
         'bounds: <= 5 operations, 3 subscribers; the concurrent clause checks <= 1 live upstream at quiescent points, release at reference count zero, grammar, nothing-before-Connect (no linearizability oracle for Share)', '6/C11'),
 'C15': ('model_checking', 'TLA+ definition of the re-subscribing operators (Resub.tla) enumerated by TLC; replay over scripted cold sources',
         'Resub.tla runs attempt by attempt (invariants: at most one live attempt, attempts in order) and TLC enumerates every configuration x outcome sequence x condition sequence x cancellation point inside the bounds; the real operators are run over scripted cold sources (n-th subscription plays the n-th outcome, synchronously and from a goroutine) and forwarded values, terminal, number of subscriptions, overlap of attempts and release are compared.',
         'bounds: <= 3-4 attempts of <= 1-2 values; RetryWithConfig.Delay not exercised', '6/C15'),
 'C17': ('model_checking', 'TLA+ pipeline semantics for the slice/map/materialise bridges enumerated by TLC and replayed; TLA+ hand-off model (Detach.tla) checked by TLC and real channel traces validated against DetachTrace.tla',
         'ToSlice / ToMap / Materialize-Dematerialize identity are decided by the Ops.tla machines (exhaustive inside bounds, per-step replay). ToChannel / FromChannel: Detach.tla models channel + sync.Once close + goroutine (FIFO, no loss, terminal last, close once; TLC exhaustive for capacities 0..2) and recorded traces of the real operators under every capacity, consumer speed, ending and unsubscription point are validated by TLC.',
         'the ToChannel hand-out race (channel handed out after the source already completed) needs a park hook and is not exercised yet; Collect is covered by the kernel Wait traces', '6/C17'),
 'C16': ('exploration', 'recorded real-time timelines validated by TLC against a TLA+ acceptor of discrete-time definitions (TimedTrace.tla); TLA+ Level-2 model of Delay (DelayImpl.tla) checked by TLC',
         'Real time cannot be driven from a model, so the time-driven operators are run on seeded timelines and their recorded traces (monotonic microsecond timestamps taken before the harness acts and inside the observer) are validated event by event against TimedTrace.tla, which asserts only lower bounds on time and order/count relations - load can only make a run later, never produce a false alarm. DelayImpl.tla shows that the two-lock hand-over-hand queue with unordered timer callbacks is FIFO and never early.',
         'exploration: seeded timelines, not exhaustive; durations 2-13 ms', '6/C16'),
 'C20': ('exploration', 'recorded rate-limiter runs validated by TLC against a TLA+ acceptor (RateLimitTrace.tla)',
         'The rate limiters are driven by real time; seeded key distributions and arrival timelines are run on the native and the ulule limiter and the recorded traces are validated by TLC: per-key order-preserving subsequence without duplicates, the alignment-independent quota bound over every pair of passed items of a key, key independence, propagation of completion and error.',
         'exploration: seeded timelines; bound quota*(L div window + 2) with L over-estimated', '6/C20'),
 'C19': ('exploration', 'recorded runs of plain vs. instrumented pipelines (licence on/off) validated by TLC against a TLA+ acceptor (Prom.tla)',
         'Prom.tla keeps the counters the definition names (subscriptions, notifications in/out, lag observations, per-operator processing-time observations) from the events of a plain run with counting probes and requires the instrumented runs to be observationally identical and the exported metrics to equal those counters; nothing may be exported with the licence off.',
         'exploration: seeded random chains (Pipe1..Pipe5); requires the verif-only licence-bypass setter', '6/C19'),
 'C13': ('exploration', 'scenarios generated by the TLA+-driven drivers (free-running with yield hooks, park-mode schedule replay) executed under the Go race detector',
         'A data race is a property of the memory accesses of the compiled program: no API-level trace exposes it, so the specification cannot decide it. Its role is the one the property names: it generates and bounds the concurrent scenarios (all direction-B drivers and the park-mode schedule replay used for C02 C03 C05 C06 C10 C11, plus hand-off, timed and rate-limit drivers); the harness is built with -race (its own event log switched off so that it adds no happens-before edges) and the Go race detector is the oracle. The Level-2 model Detach.tla predicts the one known report (close vs. send on the hand-off channel).',
         'exploration with an external oracle: only races on executed schedules are seen', '6/C13 and 7'),
 'C18': ('other', 'stream-level lifting laws decided by TLC (Lift.tla) over logged tables of the wrapped functions, which are uninterpreted in the specification',
         'The wrapped standard-library functions are outside TLA+ (numeric / text functions); the specification decides the lifting law (out = lift(f, in) with the position of the Error), sibling agreement, round trips, sorted-permutation-and-stability, chunk concatenation, no mutation of inputs or delivered values, grammar and release, as relations over tables the harness logs by calling the wrapped functions directly.',
         'the graph of every wrapped function comes from calling it; 37 plugin scenarios registered, CSV and the writers not yet', '6/C18 and 7'),
}
NA_REASON = 'not claimed'

checks = []
for p in props:
    i = p['id']
    if i not in REG:
        continue
    cat, tech, text, note, ref = REG[i]
    checks.append(dict(property_id=i, quick_cmd='./check %s --tier quick' % i, thorough_cmd='./check %s --tier thorough' % i,
                       evidence_file='/verif/evidence/%s.json' % i, replay_cmd_template='./check %s --replay {path}' % i, engine='tlc+roverif',
                       level_claimed=dict(category=cat, text=text, design_ref=ref), level_note=note, technique=tech))
hooks_commits = subprocess.run(['git', '-C', '/repo', 'log', '--format=%H %s'], capture_output=True, text=True).stdout.splitlines()
m = dict(version=1, setup_cmd='./scripts/setup.sh',
         hooks=dict(guard='verif', enable='go build -tags verif (harness module /verif/harness, replace => /repo and its plugin modules)',
                    baseline_off_cmd='/verif/scripts/baseline_off.sh',
                    source_commits=[l.split()[0] for l in hooks_commits if 'verif hooks' in l], add_only=True),
         engines=[dict(name='tlc+roverif', path='/verif/check', serves_properties=sorted(REG),
                       kind_free_text='TLA+ specifications in /verif/spec checked with TLC; Go harness /verif/harness replays TLC-generated cases on the real library and records traces that TLC validates')],
         checks=checks, notes='see DESIGN.md',
         not_applicable=[dict(property_id=p['id'], reason=NA_REASON) for p in props if p['id'] not in REG])
json.dump(m, open(os.path.join(V, 'MANIFEST.json'), 'w'), indent=1)
r = subprocess.run(['python3-vt', '-c', 'import json,jsonschema; jsonschema.validate(json.load(open("%s/MANIFEST.json")), json.load(open("/root/.vp/MANIFEST.schema.json"))); print("MANIFEST valid: %d checks")' % (V, len(checks))], capture_output=True, text=True)
print(r.stdout + r.stderr)
